(* Run/RunKeyring.v — model entry points for the keyring half of the CLI (Model/KeyringText.v,
   Model/Keyring.v, Spec/Base64.v), evaluated by vm_compute in the correspondence check and
   compared with what harness/clidrv's in-process driver reports.  Not part of any theorem.

   Texts are [list N] of Unicode scalar values on this side; the harness converts the UTF-8 bytes
   it sends to the Rust driver into such lists.  Texts in OBSERVATIONS are rendered back to UTF-8
   bytes here ([utf8]) so that the observation is a plain byte string (RunLib.obs).

   Observation codes (ob_code):
     0        Ok                                1 Panic      2 OutOfFuel
     5        lookup found nothing (Option::None)
     100 + k  KeyringError::ParseConfig, k = position of the perr_kind constructor (1..19)
     121..125 KeyringError::{PublicKeyChecksum, PublicKeyLength, PrivateKeyDecrypt, PrivateKeyLength, PrivateKeyFormat}
     131      EncodedPk/EncodedSk::try_from: decoded, wrong length     132  ... : not base64
     133/134  serialize_key driver op: the pk / the sk string is refused by try_from
     140..142 commands.rs: invalid name / bad private key string / DH error
     998      the boolean validators of Model/Keyring.v disagree with Spec/Base64.v (never expected) *)
From Kestrel Require Import Bytes Outcome Prims.
From Kestrel.gen Require Import Extracted.
From Kestrel.Spec Require Import Base64.
From Kestrel.Model Require Import AeadWrap KeyringText Keyring.
From Kestrel.Run Require Import RunLib.
Local Open Scope N_scope.

(* ---------- UTF-8 rendering of a text (scalar values only; the harness never sends others) ---------- *)
Definition utf8_char (c : N) : bytes :=
  if c <? 128 then [c]
  else if c <? 2048 then [192 + c / 64; 128 + c mod 64]
  else if c <? 65536 then [224 + c / 4096; 128 + (c / 64) mod 64; 128 + c mod 64]
  else [240 + c / 262144; 128 + (c / 4096) mod 64; 128 + (c / 64) mod 64; 128 + c mod 64].
Definition utf8 (t : text) : bytes := flat_map utf8_char t.

(* a text made of lines, each terminated by '\n' (used by the exhaustive token-sequence cases) *)
Definition lns (l : list text) : text := flat_map (fun x => x ++ [10]) l.

(* ---------- codes ---------- *)
Definition perr_kind_code (k : perr_kind) : N :=
  match k with
  | KeyMustHaveName => 1 | KeyMustHavePublicKey => 2 | KeyMustHaveNameAndPublicKey => 3
  | NameOutsideSection => 4 | DuplicateName => 5 | NameMustBeSet => 6 | InvalidName => 7
  | PublicKeyOutsideSection => 8 | DuplicatePublicKey => 9 | PublicKeyMustBeSet => 10 | MalformedPublicKey => 11
  | PrivateKeyOutsideSection => 12 | DuplicatePrivateKey => 13 | PrivateKeyMustBeSet => 14 | MalformedPrivateKey => 15
  | InvalidData => 16 | NoKeysFound => 17 | FoundDuplicateName => 18 | FoundDuplicatePublicKey => 19
  end.
Definition perr_code (e : perr) : N := match e with ParseConfig k => 100 + perr_kind_code k end.
Definition kerr_code (e : kerr) : N :=
  match e with
  | PublicKeyChecksum => 121 | PublicKeyLength => 122
  | PrivateKeyDecrypt => 123 | PrivateKeyLength => 124 | PrivateKeyFormat => 125
  end.
Definition cmd_err_code (e : cmd_err) : N :=
  match e with CInvalidName => 140 | CBadPrivateKey => 141 | CKeyring k => kerr_code k | CDh => 142 end.

Definition res_obs {E A} (f : E -> N) (g : A -> bytes) (o : outcome E A) : obs :=
  match o with
  | Ok a => pure_obs 0 (g a)
  | Err e => pure_obs (f e) []
  | Panic _ => pure_obs 1 []
  | OutOfFuel => pure_obs 2 []
  end.

(* ---------- the parser ---------- *)
Definition kparse (t : text) : outcome perr (list entry) := parse_config pk_string_ok sk_string_ok t.

(* name '\n' public '\n' ('S' private | 'N') '\n'  — a name/key never contains '\n' (str::lines) *)
Definition flat_entry (e : entry) : bytes :=
  utf8 (k_name e) ++ [10] ++ utf8 (k_pub e) ++ [10]
  ++ match k_priv e with Some s => 83 :: utf8 s | None => [78] end ++ [10].

Definition run_kr_parse (t : text) : obs := res_obs perr_code (flat_map flat_entry) (kparse t).

Definition run_kr_get (t name : text) : obs :=
  match kparse t with
  | Ok ks => match get_key ks name with Some e => pure_obs 0 (flat_entry e) | None => pure_obs 5 [] end
  | o => res_obs perr_code (fun _ => []) o
  end.

(* EncodedPk::try_from / EncodedSk::try_from with the two messages told apart *)
Definition try_code (want : N) (s : text) : N :=
  match b64_decode s with
  | None => 132
  | Some b => if Nat.eqb (length b) (N.to_nat want) then 0 else 131
  end.
Definition agree (ok : bool) (c : N) : N := if Bool.eqb ok (c =? 0) then c else 998.
Definition pk_try_code (s : text) : N := agree (pk_string_ok s) (try_code x_kr_encoded_pk_try_len s).
Definition sk_try_code (s : text) : N := agree (sk_string_ok s) (try_code x_kr_private_key_ct_len s).

Definition run_pk_try (s : text) : obs := pure_obs (pk_try_code s) [].
Definition run_sk_try (s : text) : obs := pure_obs (sk_try_code s) [].

(* the driver parses the keyring first, then converts the string, then looks up *)
Definition run_kr_name_from_key (t pk : text) : obs :=
  match kparse t with
  | Ok ks =>
      if negb (pk_try_code pk =? 0) then pure_obs (pk_try_code pk) []
      else match get_name_from_key ks pk with Some n => pure_obs 0 (utf8 n) | None => pure_obs 5 [] end
  | o => res_obs perr_code (fun _ => []) o
  end.

(* ---------- key encodings ---------- *)
Definition run_pk_encode (pk : bytes) : obs := res_obs kerr_code utf8 (encode_public_key P0 pk).

Definition run_pk_decode (s : text) : obs :=
  if negb (pk_try_code s =? 0) then pure_obs (pk_try_code s) []
  else res_obs kerr_code (fun b : bytes => b) (decode_public_key P0 s).

Definition run_sk_lock (t : kdf_table) (sk pw salt : bytes) : obs :=
  res_obs kerr_code utf8 (lock_private_key (PR t) sk pw salt).

Definition run_sk_unlock (t : kdf_table) (s : text) (pw : bytes) : obs :=
  if negb (sk_try_code s =? 0) then pure_obs (sk_try_code s) []
  else res_obs kerr_code (fun b : bytes => b) (unlock_private_key (PR t) s pw).

Definition run_valid_name (s : text) : obs := pure_obs 0 [if valid_key_name s then 1 else 0].

Definition run_serialize_key (name pk sk : text) : obs :=
  if negb (pk_try_code pk =? 0) then pure_obs 133 []
  else if negb (sk_try_code sk =? 0) then pure_obs 134 []
  else pure_obs 0 (utf8 (serialize_key name pk sk)).

(* ---------- change-pass histories (commands.rs::change_pass applied repeatedly) ----------
   observation: every produced string followed by '\n' *)
Definition run_chpass_seq (t : kdf_table) (locked : text) (pw0 : bytes) (steps : list (bytes * bytes)) : obs :=
  res_obs cmd_err_code (flat_map (fun s : text => utf8 s ++ [10])) (change_pass_seq (PR t) locked pw0 steps).

(* the lines printed by extract-pub / change-pass (without println's newline) *)
Definition run_extract_pub (t : kdf_table) (locked : text) (pw : bytes) : obs :=
  res_obs cmd_err_code utf8 (extract_pub (PR t) locked pw).
Definition run_change_pass (t : kdf_table) (locked : text) (old_pw new_pw salt : bytes) : obs :=
  res_obs cmd_err_code utf8 (change_pass (PR t) locked old_pw new_pw salt).

(* gen_key's key_config text *)
Definition run_gen_key_text (t : kdf_table) (name : text) (sk pw salt : bytes) : obs :=
  res_obs cmd_err_code utf8 (gen_key_text (PR t) name sk pw salt).
