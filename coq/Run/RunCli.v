(* Run/RunCli.v — model entry points for the WHOLE command-line program: argument parsing
   (Model/CliParse.v over Model/Getopts.v) and main (Model/CliGlue.v::real_cli_main over Model/Cli.v,
   Model/Keyring.v, Model/Files.v), evaluated by vm_compute in the correspondence check and compared
   with (a) the clidrv driver op `parse` and (b) the real clidrv process run in a scratch directory.
   Not part of any theorem.

   Observation of `parse` (RunLib.obs):  ob_code = 20 + kind
       1 help  2 version  3 encrypt  4 decrypt  5 key generate  6 key change-pass  7 key extract-pub
       8 password encrypt  9 password decrypt  10 usage error           (1 = panic, 2 = out of fuel)
     ob_out   = the option fields in declaration order, each followed by a 0 byte:
                text -> its UTF-8; option text -> 'S' ++ UTF-8 | 'N'; bool -> '1' | '0'
                (usage error: the message handed to print_usage_error)
     ob_extra = usage error: what main prints after "Error: " ; otherwise empty.

   Observation of a run of main:  ob_code = status class (table below), ob_consumed = exit code,
     ob_out = stdout, ob_extra = for every watched path  1 ++ be32(len) ++ content | 0 , followed by the
     text that belongs to the status (usage text / sender name / unknown sender's encoded key).
   run_cli evaluates a FLAT world (files in the root = current directory); run_cli_tree a TREE world (directories,
   canonical absolute paths, a current directory) and renders the whole resulting tree: be32(number of nodes), then for
   every canonical path of the watch list  0 | 1 ++ be32(len) ++ content | 2 (directory). *)
From Kestrel Require Import Bytes Outcome IO Prims.
From Kestrel.Model Require Import AeadWrap Chunks KeyringText Getopts CliParse Cli CliGlue.
From Kestrel.Model Require Keyring.
From Kestrel.Run Require Import RunLib RunKeyring.
Local Open Scope N_scope.

(* ---------- strict UTF-8 decoding (String::from_utf8): shortest form only, no surrogates, <= U+10FFFF ---------- *)
Definition cont (b : N) : bool := (128 <=? b) && (b <=? 191).
Fixpoint utf8_dec (fuel : nat) (b : bytes) : option text :=
  match fuel with
  | O => match b with [] => Some [] | _ => None end
  | S f =>
    match b with
    | [] => Some []
    | b0 :: r =>
      if b0 <? 128 then option_map (cons b0) (utf8_dec f r)
      else if (194 <=? b0) && (b0 <=? 223) then
        match r with
        | b1 :: r' => if cont b1 then option_map (cons ((b0 - 192) * 64 + (b1 - 128))) (utf8_dec f r') else None
        | _ => None
        end
      else if (224 <=? b0) && (b0 <=? 239) then
        match r with
        | b1 :: b2 :: r' =>
          let c := (b0 - 224) * 4096 + (b1 - 128) * 64 + (b2 - 128) in
          if cont b1 && cont b2 && (2048 <=? c) && negb ((55296 <=? c) && (c <=? 57343))
          then option_map (cons c) (utf8_dec f r') else None
        | _ => None
        end
      else if (240 <=? b0) && (b0 <=? 244) then
        match r with
        | b1 :: b2 :: b3 :: r' =>
          let c := (b0 - 240) * 262144 + (b1 - 128) * 4096 + (b2 - 128) * 64 + (b3 - 128) in
          if cont b1 && cont b2 && cont b3 && (65536 <=? c) && (c <=? 1114111)
          then option_map (cons c) (utf8_dec f r') else None
        | _ => None
        end
      else None
    end
  end.
Definition utf8_decode (b : bytes) : option text := utf8_dec (S (length b)) b.

(* ---------- parse ---------- *)
Definition f_text (t : text) : bytes := utf8 t ++ [0].
Definition f_opt (o : option text) : bytes := match o with Some t => 83 :: utf8 t ++ [0] | None => [78; 0] end.
Definition f_bool (b : bool) : bytes := [if b then 49 else 48; 0].
Definition f_pw (o : password_opts) : bytes := f_opt (p_infile o) ++ f_opt (p_outfile o) ++ f_bool (p_env_pass o).

Definition parse_obs (c : command) : obs :=
  match c with
  | CHelp => pure_obs 21 []
  | CVersion => pure_obs 22 []
  | CEncrypt o => pure_obs 23 (f_opt (e_infile o) ++ f_text (e_to o) ++ f_text (e_from o) ++ f_opt (e_outfile o)
                               ++ f_opt (e_keyring o) ++ f_bool (e_env_pass o))
  | CDecrypt o => pure_obs 24 (f_opt (d_infile o) ++ f_text (d_to o) ++ f_opt (d_outfile o) ++ f_opt (d_keyring o)
                               ++ f_bool (d_env_pass o))
  | CKey (Generate outfile env_pass) => pure_obs 25 (f_opt outfile ++ f_bool env_pass)
  | CKey (ChangePass k env_pass) => pure_obs 26 (f_text k ++ f_bool env_pass)
  | CKey (ExtractPub k env_pass) => pure_obs 27 (f_text k ++ f_bool env_pass)
  | CPassEnc o => pure_obs 28 (f_pw o)
  | CPassDec o => pure_obs 29 (f_pw o)
  | CUsageError m =>
      {| ob_code := 30; ob_out := utf8 (usage_msg_to_string m); ob_consumed := 0; ob_trace := [];
         ob_extra := utf8 (usage_error_text m) |}
  end.

Definition run_cli_parse (argv : list text) : obs :=
  match cli_parse argv with
  | Ok c => parse_obs c
  | Err _ => pure_obs 3 []
  | Panic _ => pure_obs 1 []
  | OutOfFuel => pure_obs 2 []
  end.

(* ---------- main ---------- *)
Definition ckerr_code (k : Cli.kerr) : N :=
  match k with
  | KParseConfig _ => 0 | KPublicKeyChecksum => 1 | KPublicKeyLength => 2
  | KPrivateKeyDecrypt => 3 | KPrivateKeyLength => 4 | KPrivateKeyFormat => 5
  end.
Definition eerr_class (e : eerr) : N :=
  match e with EUnexpectedData => 61 | EIORead _ => 62 | EIOWrite _ => 63 | EOther => 64 end.
Definition derr_class (e : derr) : N :=
  match e with
  | DChunkLen => 71 | DChaPolyDecrypt => 72 | DUnexpectedData => 73 | DIORead _ => 74 | DIOWrite _ => 75
  | DOtherFormat => 76 | DOtherWrongMode => 77
  | DOtherNoise NDecrypt => 78 | DOtherNoise NDh => 79 | DOtherNoise NOther => 80
  end.
Definition cmd_status_code (st : cmd_status) : N :=
  match st with
  | SOk => 0 | SPanic _ => 1 | SOutOfFuel => 2 | SOkFrom _ => 3 | SOkUnknownSender _ => 4
  | SInputOutputSame => 10 | SInputMissing => 11 | SKeyringUnspecified => 12 | SKeyringUnreadable => 13
  | SKeyringNotUtf8 => 14 | SRecipientNotFound => 15 | SSenderNotFound => 16 | SSenderNoPrivate => 17
  | SKeyNotFound => 18 | SKeyNoPrivate => 19
  | SPublicKeyBad k => 20 + ckerr_code k
  | SEnvPassUnset => 30 | SEnvNewPassUnset => 31 | SNoTerminal => 32 | SUnlockFailed => 33
  | SUnlockError k => 40 + ckerr_code k
  | SDhError => 50
  | SEncryptFailed e => eerr_class e
  | SDecryptFailed e => derr_class e
  | SDecryptAuth => 90 | SPassDecryptAuth => 91 | SStdinNotUtf8 => 92 | SNameInvalid => 93
  | SPrivateKeyStringBad => 94 | SOutputOpenFailed => 95 | SOutputWriteFailed => 96
  | SKeyringParse e => perr_code e          (* 101..119 *)
  end.
Definition main_status_code (st : main_status) : N :=
  match st with
  | MHelp => 201 | MVersion => 202 | MUsage _ => 203
  | MCmd s => cmd_status_code s
  | MParsePanic _ => 1 | MParseOutOfFuel => 2
  end.
Definition status_text (st : main_status) : bytes :=
  match st with
  | MUsage m => utf8 (usage_error_text m)
  | MCmd (SOkFrom name) => utf8 name
  | MCmd (SOkUnknownSender enc) => utf8 enc
  | _ => []
  end.

(* a FLAT world: regular files in the root directory, which is also the current directory (the cases that name their
   files by a single component; the real run happens in a scratch directory holding exactly these files) *)
Definition mkw (files : list (text * bytes)) (pw npw : option bytes) (kr : option text) (input : bytes) : world :=
  {| fs := {| nodes := map (fun f => ([fst f], NFile (snd f))) files; cwd := [] |};
     env_password := pw; env_new_password := npw; env_keyring := kr; stdin := input |}.

(* short names for the two kinds of node, for the generated case files *)
Definition nf (c : bytes) : node := NFile c.
Definition nd : node := NDir.

(* a TREE world: every node under its canonical absolute path (the directories from the root down to the scratch
   directory of the real run included), and the current directory *)
Definition mkw_tree (nds : list (cpath * node)) (cur : cpath) (pw npw : option bytes) (kr : option text) (input : bytes) : world :=
  {| fs := {| nodes := nds; cwd := cur |};
     env_password := pw; env_new_password := npw; env_keyring := kr; stdin := input |}.

(* the regular file seen through a path string *)
Definition render_path (l : fsys) (p : text) : bytes :=
  match fs_get l p with
  | Some c => 1 :: be32 (N.of_nat (length c)) ++ c
  | None => [0]
  end.

(* the node at a canonical path: 0 nothing | 1 ++ be32(len) ++ content | 2 directory *)
Definition render_node (l : fsys) (cp : cpath) : bytes :=
  match node_at l cp with
  | Some (NFile c) => 1 :: be32 (N.of_nat (length c)) ++ c
  | Some NDir => [2]
  | None => [0]
  end.

Definition run_cli (t : kdf_table) (w : world) (argv : list text) (rnd1 rnd2 help ver : bytes) (watch : list text) : obs :=
  let r := real_cli_main (PR t) utf8_decode utf8 help ver w argv rnd1 rnd2 in
  {| ob_code := main_status_code (m_status r); ob_out := m_stdout r; ob_consumed := m_exit r; ob_trace := [];
     ob_extra := flat_map (render_path (m_fs r)) watch ++ status_text (m_status r) |}.

(* the WHOLE resulting tree: the number of nodes, then every canonical path of [watch] (the caller lists every path
   that exists before or after the real run), then the text that belongs to the status *)
Definition run_cli_tree (t : kdf_table) (w : world) (argv : list text) (rnd1 rnd2 help ver : bytes) (watch : list cpath) : obs :=
  let r := real_cli_main (PR t) utf8_decode utf8 help ver w argv rnd1 rnd2 in
  {| ob_code := main_status_code (m_status r); ob_out := m_stdout r; ob_consumed := m_exit r; ob_trace := [];
     ob_extra := be32 (N.of_nat (length (nodes (m_fs r)))) ++ flat_map (render_node (m_fs r)) watch
                 ++ status_text (m_status r) |}.

(* ---------- recorded process runs of the direct-oracle matrices, evaluated in batches (tools/props_cli.py, the mx_ functions) ----------
   Two additions for the batch, none of which changes what is computed:
   (1) an X25519 MEMO.  A matrix of some hundred runs uses a handful of (scalar, point) pairs; each costs seconds in
       vm_compute.  [dh_entry k u] is the triple (k, u, X25519 k u) with the value computed BY THE GALLINA DEFINITION
       (the case files bind a table of such entries with Eval vm_compute, or load it from a .vo made the same way);
       [PRd t d] is [PR t] whose p_dh looks the pair up in d first and falls back to the definition.  For a table of
       dh_entry triples the two primitive records agree on every argument (PRd_dh below), so a missing or superfluous
       entry costs time only.
   (2) a LENGTHS-ONLY rendering ([mask] = true): every file content and stdout is replaced by as many zero bytes.  Used
       for runs that drew operating-system randomness nobody can hand to the model (key-mode encryption without the
       injected stream): exit code, message class, which paths exist and how long they are still have to agree. *)
From Kestrel.Spec Require ChaPolyFacts.

Definition dh_table := list (bytes * bytes * bytes).
Fixpoint dh_lookup (d : dh_table) (k u : bytes) : option bytes :=
  match d with
  | [] => None
  | (k', u', v) :: r => if bytes_eqb k' k && bytes_eqb u' u then Some v else dh_lookup r k u
  end.
Definition dh_entry (k u : bytes) : bytes * bytes * bytes := (k, u, p_dh P0 k u).
Definition dh_table_ok (d : dh_table) : Prop :=
  Forall (fun e => snd e = p_dh P0 (fst (fst e)) (snd (fst e))) d.

Definition PRd (t : kdf_table) (d : dh_table) : prims :=
  let p := PR t in
  {| p_hash := p_hash p; p_hmac := p_hmac p; p_hkdf := p_hkdf p;
     p_dh := fun k u => match dh_lookup d k u with Some v => v | None => p_dh p k u end;
     p_seal := p_seal p; p_open := p_open p; p_scrypt := p_scrypt p |}.

Lemma dh_entries_ok : forall l : list (bytes * bytes), dh_table_ok (map (fun p => dh_entry (fst p) (snd p)) l).
Proof. intros l. unfold dh_table_ok. apply Forall_forall. intros e H. apply in_map_iff in H. destruct H as [p [<- _]]. reflexivity. Qed.

Lemma PRd_dh : forall t d, dh_table_ok d -> forall k u, p_dh (PRd t d) k u = p_dh (PR t) k u.
Proof.
  intros t d H k u. cbn [PRd p_dh]. induction H as [|[[k' u'] v] r Hv _ IH]; cbn [dh_lookup].
  - reflexivity.
  - destruct (bytes_eqb k' k && bytes_eqb u' u) eqn:E.
    + apply andb_prop in E. destruct E as [E1 E2].
      apply ChaPolyFacts.bytes_eqb_eq in E1. apply ChaPolyFacts.bytes_eqb_eq in E2. subst. exact Hv.
    + exact IH.
Qed.

Definition mask_bytes (m : bool) (b : bytes) : bytes := if m then repeat 0 (length b) else b.

Definition render_path_m (m : bool) (l : fsys) (p : text) : bytes :=
  match fs_get l p with
  | Some c => 1 :: be32 (N.of_nat (length c)) ++ mask_bytes m c
  | None => [0]
  end.
Definition render_node_m (m : bool) (l : fsys) (cp : cpath) : bytes :=
  match node_at l cp with
  | Some (NFile c) => 1 :: be32 (N.of_nat (length c)) ++ mask_bytes m c
  | Some NDir => [2]
  | None => [0]
  end.

Definition run_cli_x (t : kdf_table) (d : dh_table) (m : bool) (w : world) (argv : list text) (rnd1 rnd2 help ver : bytes)
    (watch : list text) : obs :=
  let r := real_cli_main (PRd t d) utf8_decode utf8 help ver w argv rnd1 rnd2 in
  {| ob_code := main_status_code (m_status r); ob_out := mask_bytes m (m_stdout r); ob_consumed := m_exit r; ob_trace := [];
     ob_extra := flat_map (render_path_m m (m_fs r)) watch ++ status_text (m_status r) |}.

Definition run_cli_tree_x (t : kdf_table) (d : dh_table) (m : bool) (w : world) (argv : list text) (rnd1 rnd2 help ver : bytes)
    (watch : list cpath) : obs :=
  let r := real_cli_main (PRd t d) utf8_decode utf8 help ver w argv rnd1 rnd2 in
  {| ob_code := main_status_code (m_status r); ob_out := mask_bytes m (m_stdout r); ob_consumed := m_exit r; ob_trace := [];
     ob_extra := be32 (N.of_nat (length (nodes (m_fs r)))) ++ flat_map (render_node_m m (m_fs r)) watch
                 ++ status_text (m_status r) |}.
