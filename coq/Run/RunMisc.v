(* Run/RunMisc.v — model entry points for the correspondence checks of C07, C08, C11, C18, C20
   (tools/props_misc.py).  Executable definitions only, evaluated by vm_compute; not part of any theorem.

   Runners that need files which may not be in the tree yet (Model/Monitors.v, Spec/Scrypt.v,
   Model/ScryptImpl.v) are NOT here: tools/props_misc.py writes them into the preamble of the generated
   case files when those sources exist (texts MON_PREAMBLE / SCRYPT_PREAMBLE there). *)
From Kestrel Require Import Bytes Outcome IO Prims.
From Kestrel.gen Require Import Extracted.
From Kestrel.Model Require Import AeadWrap Chunks Noise Files Zeroize.
From Kestrel.Spec Require Import Hex Concrete.
From Kestrel.Run Require Import RunLib.
From Coq Require Import String.
Local Open Scope N_scope.

(* ====================================================================================================
   C07: the random source as an explicit stream.  [secure_random(32)] = take the first 32 bytes.
   key_encrypt draws the payload key first (when it is not injected), then — inside the handshake —
   the ephemeral private key (when the ephemeral PAIR is not injected: noise.rs::init_x keeps the
   pair only when both halves are given).
   ==================================================================================================== *)
Definition run_key_enc_fresh (t : kdf_table) (fresh_pk fresh_e s spk r : bytes) (e epk pk : option bytes)
  (data : bytes) (rs : list rd_act) (ws : list wr_act) (fs : list fl_act) : obs :=
  mk_obs eerr_code (fun _ : unit => []) (List.length data)
    (key_encrypt (PR t) fresh_pk fresh_e s spk r e epk pk (mk_io data rs ws fs)).

Definition run_noise_enc_fresh (fresh_e s spk r : bytes) (e epk : option bytes) (prologue payload : bytes) : obs :=
  match noise_encrypt P0 fresh_e s spk r e epk prologue payload with
  | Ok (msg, hh) => {| ob_code := 0; ob_out := msg; ob_consumed := 0; ob_trace := []; ob_extra := hh |}
  | Err e => pure_obs (noise_code e) []
  | Panic _ => pure_obs 1 [] | OutOfFuel => pure_obs 2 []
  end.

Inductive hop :=
| HKeyEnc (s spk r : bytes) (e epk pk : option bytes) (data : bytes) (rs : list rd_act)
| HNoiseEnc (s spk r : bytes) (e epk : option bytes) (prologue payload : bytes).

Definition is_some {A} (o : option A) : bool := match o with Some _ => true | None => false end.
(* one secure_random(32) call, made only when [need] *)
Definition draw32 (need : bool) (st : bytes) : bytes * bytes :=
  if need then (firstn 32 st, skipn 32 st) else ([], st).
Definition draws_e (e epk : option bytes) : bool := negb (is_some e && is_some epk).

(* one operation: its observation and the stream that is left *)
Definition hist_step (t : kdf_table) (st : bytes) (o : hop) : obs * bytes :=
  match o with
  | HKeyEnc s spk r e epk pk data rs =>
      let '(fpk, st1) := draw32 (negb (is_some pk)) st in
      let '(fe, st2) := draw32 (draws_e e epk) st1 in
      (run_key_enc_fresh t fpk fe s spk r e epk pk data rs [] [], st2)
  | HNoiseEnc s spk r e epk prologue payload =>
      let '(fe, st1) := draw32 (draws_e e epk) st in
      (run_noise_enc_fresh fe s spk r e epk prologue payload, st1)
  end.

(* a history on one stream: per operation (observation, bytes left in the stream afterwards) *)
Fixpoint run_hist (t : kdf_table) (st : bytes) (ops : list hop) : list (obs * N) :=
  match ops with
  | [] => []
  | o :: rest => let '(ob, st') := hist_step t st o in
                 (ob, N.of_nat (List.length st')) :: run_hist t st' rest
  end.

Definition hist_eqb (a b : list (obs * N)) : bool :=
  list_eqb (fun x y => obs_eqb (fst x) (fst y) && (snd x =? snd y)) a b.
Definition chk_hist (model impl : list (obs * N)) : bool := hist_eqb model impl.
Definition show_hist (h : list (obs * N)) := map (fun x => (show (fst x), snd x)) h.

(* ====================================================================================================
   C20: the zeroize machine against the allocator's journal.
   Driver tokens: np/ng/nk -> ONew b, c<i> -> OClone i, d<i> -> ODrop i.  After the script the driver drops
   the containers still live in list order, i.e. ODrop 0 repeated.
   ==================================================================================================== *)
Definition z_final (s : state) : state := run_from true s (repeat (ODrop 0%nat) (List.length (conts s))).
Definition z_final_b (z : bool) (s : state) : state := run_from z s (repeat (ODrop 0%nat) (List.length (conts s))).

(* (journal during the script, journal of the final drops, containers live at the end of the script) *)
Definition z_model (z : bool) (ops : list op) : list bytes * list bytes * N :=
  let s1 := run z ops in
  let s2 := z_final_b z s1 in
  let j1 := observe s1 in
  (j1, skipn (List.length j1) (observe s2), N.of_nat (List.length (conts s1))).

Definition z_eqb (a b : list bytes * list bytes * N) : bool :=
  let '(a1, a2, an) := a in let '(b1, b2, bn) := b in
  list_eqb bytes_eqb a1 b1 && list_eqb bytes_eqb a2 b2 && (an =? bn).

(* does the model with (z = true) / without (z = false) the zeroize call reproduce the journal the
   implementation's allocator recorded? *)
Definition z_chk (z : bool) (ops : list op) (first second : list bytes) (nlive : N) : bool :=
  z_eqb (z_model z ops) (first, second, nlive).
(* the same with the final drops given explicitly (the driver drops the survivors in ITS list order; after a
   clone_from — translated by tools/props_misc.py to OClone j; ODrop i — the model's list order differs) *)
Definition z_model_x (z : bool) (ops fin : list op) : list bytes * list bytes * N :=
  let s1 := run z ops in
  let s2 := run_from z s1 fin in
  let j1 := observe s1 in
  (j1, skipn (List.length j1) (observe s2), N.of_nat (List.length (conts s1))).
Definition z_chk_x (z : bool) (ops fin : list op) (first second : list bytes) (nlive : N) : bool :=
  z_eqb (z_model_x z ops fin) (first, second, nlive) && Nat.eqb (List.length (conts (run_from z (run z ops) fin))) 0.
Definition z_show_x (ops fin : list op) :=
  let '(a, b, n) := z_model_x true ops fin in (map to_hex a, map to_hex b, n).

Definition z_show (ops : list op) :=
  let '(a, b, n) := z_model true ops in (map to_hex a, map to_hex b, n).

(* ====================================================================================================
   C11: I/O shape of the chunk loops (the traces themselves are compared by run_enc_chunks /
   run_dec_chunks of RunLib): largest request sizes and look-ahead computed on the MODEL's trace.
   ==================================================================================================== *)
Fixpoint max_look (evs : list event) (pending best : nat) : nat :=
  match evs with
  | [] => best
  | EvRead _ _ :: r => max_look r (S pending) (Nat.max best (S pending))
  | EvReadErr _ _ :: r => max_look r (S pending) (Nat.max best (S pending))
  | EvFlush None :: r => max_look r (pred pending) best
  | _ :: r => max_look r pending best
  end.
(* number of raw read calls whose data has not been flushed out, maximised over the run *)
Definition enc_lookahead (t : kdf_table) (key aad : bytes) (cs : N) (data : bytes)
  (rs : list rd_act) (ws : list wr_act) (fs : list fl_act) : N :=
  N.of_nat (max_look (trace (snd (encrypt_chunks (PR t) key aad cs (mk_io data rs ws fs)))) 0 0).
