(* Spec/ChaPolyFacts.v — structural facts about the RFC 8439 specification.
   Everything here holds for ALL keys, nonces, associated data and messages: arbitrary lists of N,
   of any length and with any element values.  None of it looks inside the ChaCha rounds. *)
From Kestrel Require Import Bytes BytesFacts.
From Kestrel.Spec Require Import ChaCha20 Poly1305 ChaPoly.
From Coq Require Import ZifyBool ZifyNat ZifyN.
Local Open Scope N_scope.

(* ---------- decidable equality of byte strings ---------- *)

Lemma bytes_eqb_refl a : bytes_eqb a a = true.
Proof.
  unfold bytes_eqb. rewrite Nat.eqb_refl. cbn [andb].
  induction a as [|x a IH]; [reflexivity|].
  cbn [combine forallb fst snd]. now rewrite N.eqb_refl, IH.
Qed.

Lemma bytes_eqb_eq a b : bytes_eqb a b = true <-> a = b.
Proof.
  split; [|intros ->; apply bytes_eqb_refl].
  unfold bytes_eqb. revert b. induction a as [|x a IH]; intros [|y b] H;
    cbn [length Nat.eqb andb combine forallb fst snd] in H; try discriminate; [reflexivity|].
  apply andb_true_iff in H. destruct H as [Hl H]. apply andb_true_iff in H. destruct H as [Hx H].
  apply N.eqb_eq in Hx. subst y. f_equal. apply IH. now rewrite Hl, H.
Qed.

Lemma bytes_eqb_neq a b : a <> b -> bytes_eqb a b = false.
Proof.
  intros H. destruct (bytes_eqb a b) eqn:E; [|reflexivity]. now apply bytes_eqb_eq in E.
Qed.

(* ---------- ChaCha20 ---------- *)

Lemma serialize_length s : length (serialize s) = 64%nat.
Proof. reflexivity. Qed.

Lemma chacha20_block_length k c n : length (chacha20_block k c n) = 64%nat.
Proof. unfold chacha20_block. apply serialize_length. Qed.

Lemma keystream_blocks_length k n : forall nb c,
  length (keystream_blocks k c n nb) = (64 * nb)%nat.
Proof.
  induction nb as [|nb IH]; intros c; [reflexivity|].
  cbn [keystream_blocks]. rewrite app_length, chacha20_block_length, IH. lia.
Qed.

Lemma keystream_length k c n len : length (keystream k c n len) = len.
Proof.
  unfold keystream. rewrite firstn_length, keystream_blocks_length.
  pose proof (Nat.div_mod (len + 63) 64 ltac:(discriminate)) as E.
  pose proof (Nat.mod_upper_bound (len + 63) 64 ltac:(discriminate)) as B.
  lia.
Qed.

Lemma chacha20_encrypt_length k c n d : length (chacha20_encrypt k c n d) = length d.
Proof. unfold chacha20_encrypt. rewrite xor_bytes_length, keystream_length. lia. Qed.

Lemma chacha20_encrypt_invol k c n d :
  chacha20_encrypt k c n (chacha20_encrypt k c n d) = d.
Proof.
  unfold chacha20_encrypt at 1. rewrite chacha20_encrypt_length.
  unfold chacha20_encrypt. apply xor_bytes_invol. rewrite keystream_length. lia.
Qed.

(* ---------- Poly1305 ---------- *)

Lemma le_bytes_length : forall n x, length (le_bytes n x) = n.
Proof. induction n as [|n IH]; intros x; [reflexivity|]. cbn [le_bytes length]. now rewrite IH. Qed.

Lemma poly1305_length k m : length (poly1305_mac k m) = 16%nat.
Proof. unfold poly1305_mac. apply le_bytes_length. Qed.

Lemma aead_tag_length k n ad ct : length (aead_tag k n ad ct) = 16%nat.
Proof. apply poly1305_length. Qed.

(* ---------- AEAD ---------- *)

Lemma aead_seal_length k n ad m : length (aead_seal k n ad m) = (length m + 16)%nat.
Proof.
  unfold aead_seal. now rewrite app_length, aead_tag_length, chacha20_encrypt_length.
Qed.

(* how [aead_open] splits body ++ tag when the tag has 16 elements *)
Lemma aead_open_app k n ad body tag : length tag = 16%nat ->
  aead_open k n ad (body ++ tag) =
  if bytes_eqb tag (aead_tag k n ad body) then Some (chacha20_encrypt k 1 n body) else None.
Proof.
  intros Ht. unfold aead_open. rewrite app_length, Ht.
  replace (length body + 16 <? 16)%nat with false by lia.
  replace (length body + 16 - 16)%nat with (length body + 0)%nat by lia.
  rewrite firstn_app_2, skipn_app, firstn_O, app_nil_r.
  replace (length body + 0 - length body)%nat with 0%nat by lia.
  rewrite skipn_all2 by lia. reflexivity.
Qed.

Theorem aead_open_seal k n ad m : aead_open k n ad (aead_seal k n ad m) = Some m.
Proof.
  unfold aead_seal. rewrite aead_open_app by apply aead_tag_length.
  now rewrite bytes_eqb_refl, chacha20_encrypt_invol.
Qed.

Theorem aead_open_short k n ad c : (length c < 16)%nat -> aead_open k n ad c = None.
Proof.
  intros H. unfold aead_open. replace (length c <? 16)%nat with true by lia. reflexivity.
Qed.

Theorem aead_open_inv k n ad c m : aead_open k n ad c = Some m -> c = aead_seal k n ad m.
Proof.
  intros H. destruct (Nat.ltb_spec (length c) 16) as [Hs|Hs];
    [now rewrite aead_open_short in H|].
  rewrite <- (firstn_skipn (length c - 16) c) in H |- *.
  set (body := firstn (length c - 16) c) in *. set (tag := skipn (length c - 16) c) in *.
  assert (Ht : length tag = 16%nat) by (unfold tag; rewrite skipn_length; lia).
  rewrite aead_open_app in H by exact Ht.
  destruct (bytes_eqb tag (aead_tag k n ad body)) eqn:E; [|discriminate].
  apply bytes_eqb_eq in E. injection H as <-.
  unfold aead_seal. now rewrite chacha20_encrypt_invol, E.
Qed.

Theorem aead_open_length k n ad c m :
  aead_open k n ad c = Some m -> length c = (length m + 16)%nat.
Proof. intros H. apply aead_open_inv in H. subst c. apply aead_seal_length. Qed.

Theorem aead_open_tag k n ad body tag : length tag = 16%nat ->
  tag <> poly1305_mac (poly_key_gen k n) (aead_mac_data ad body) ->
  aead_open k n ad (body ++ tag) = None.
Proof.
  intros Ht Hne. rewrite aead_open_app by exact Ht.
  unfold aead_tag. now rewrite (bytes_eqb_neq _ _ Hne).
Qed.

(* Consequences: acceptance is exactly "c is the sealing of m", and sealing is injective in the
   message (two messages never share a sealed form under the same key, nonce and ad). *)
Corollary aead_open_iff k n ad c m : aead_open k n ad c = Some m <-> c = aead_seal k n ad m.
Proof. split; [apply aead_open_inv|intros ->; apply aead_open_seal]. Qed.

Corollary aead_seal_inj k n ad m1 m2 : aead_seal k n ad m1 = aead_seal k n ad m2 -> m1 = m2.
Proof.
  intros E. pose proof (aead_open_seal k n ad m1) as H. rewrite E, aead_open_seal in H.
  now injection H.
Qed.
