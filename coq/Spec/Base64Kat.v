(* Spec/Base64Kat.v — known-answer tests for Spec/Base64.v (RFC 4648 section 10 and rejections). *)
From Kestrel Require Import Bytes.
From Kestrel.Spec Require Import Base64.
From Coq Require Import String Ascii.
Local Open Scope N_scope.

(* test helper: character codes of a Coq string *)
Fixpoint codes (s : string) : list N :=
  match s with
  | EmptyString => []
  | String a r => N_of_ascii a :: codes r
  end.

Local Open Scope string_scope.

(* RFC 4648 section 10, encode *)
Example enc_0 : b64_encode (codes "") = codes "".                 Proof. vm_compute. reflexivity. Qed.
Example enc_1 : b64_encode (codes "f") = codes "Zg==".            Proof. vm_compute. reflexivity. Qed.
Example enc_2 : b64_encode (codes "fo") = codes "Zm8=".           Proof. vm_compute. reflexivity. Qed.
Example enc_3 : b64_encode (codes "foo") = codes "Zm9v".          Proof. vm_compute. reflexivity. Qed.
Example enc_4 : b64_encode (codes "foob") = codes "Zm9vYg==".     Proof. vm_compute. reflexivity. Qed.
Example enc_5 : b64_encode (codes "fooba") = codes "Zm9vYmE=".    Proof. vm_compute. reflexivity. Qed.
Example enc_6 : b64_encode (codes "foobar") = codes "Zm9vYmFy".   Proof. vm_compute. reflexivity. Qed.

(* RFC 4648 section 10, decode *)
Example dec_0 : b64_decode (codes "") = Some (codes "").               Proof. vm_compute. reflexivity. Qed.
Example dec_1 : b64_decode (codes "Zg==") = Some (codes "f").          Proof. vm_compute. reflexivity. Qed.
Example dec_2 : b64_decode (codes "Zm8=") = Some (codes "fo").         Proof. vm_compute. reflexivity. Qed.
Example dec_3 : b64_decode (codes "Zm9v") = Some (codes "foo").        Proof. vm_compute. reflexivity. Qed.
Example dec_4 : b64_decode (codes "Zm9vYg==") = Some (codes "foob").   Proof. vm_compute. reflexivity. Qed.
Example dec_5 : b64_decode (codes "Zm9vYmE=") = Some (codes "fooba").  Proof. vm_compute. reflexivity. Qed.
Example dec_6 : b64_decode (codes "Zm9vYmFy") = Some (codes "foobar"). Proof. vm_compute. reflexivity. Qed.

(* all byte values / all sextets *)
Example enc_hi : b64_encode [251; 255; 254; 0; 16; 131] = codes "+//+ABCD". Proof. vm_compute. reflexivity. Qed.
Example dec_hi : b64_decode (codes "+//+ABCD") = Some [251; 255; 254; 0; 16; 131]. Proof. vm_compute. reflexivity. Qed.

(* rejections *)
Example rej_short_padding : b64_decode (codes "Zg=") = None.          Proof. vm_compute. reflexivity. Qed.
Example rej_no_padding    : b64_decode (codes "Zg") = None.           Proof. vm_compute. reflexivity. Qed.
Example rej_noncanonical  : b64_decode (codes "Zh==") = None.         Proof. vm_compute. reflexivity. Qed.
Example rej_noncanonical2 : b64_decode (codes "Zm9=") = None.         Proof. vm_compute. reflexivity. Qed.
Example rej_trailing_nl   : b64_decode (codes "Zg==" ++ [10]) = None. Proof. vm_compute. reflexivity. Qed.
Example rej_trailing_nl2  : b64_decode (codes "Zm9v" ++ [10]) = None. Proof. vm_compute. reflexivity. Qed.
Example rej_space         : b64_decode (codes "Z g==") = None.        Proof. vm_compute. reflexivity. Qed.
Example rej_extra_padding : b64_decode (codes "Zm9v=") = None.        Proof. vm_compute. reflexivity. Qed.
Example rej_only_padding  : b64_decode (codes "=") = None.            Proof. vm_compute. reflexivity. Qed.
Example rej_long_padding  : b64_decode (codes "Zg===") = None.        Proof. vm_compute. reflexivity. Qed.
Example rej_single_char   : b64_decode (codes "Z") = None.            Proof. vm_compute. reflexivity. Qed.
Example rej_urlsafe       : b64_decode (codes "-_-_") = None.         Proof. vm_compute. reflexivity. Qed.
Example rej_non_ascii     : b64_decode [90; 109; 57; 200] = None.     Proof. vm_compute. reflexivity. Qed.
Example rej_non_byte      : b64_decode [90; 109; 57; 374] = None.     Proof. vm_compute. reflexivity. Qed.
Example rej_data_after_pad : b64_decode (codes "Zg==Zg==") = None.    Proof. vm_compute. reflexivity. Qed.

(* a 48-character string decodes to 36 bytes *)
Example dec_len_36 :
  option_map (@List.length N)
    (b64_decode (codes "D7ZZstGYF6okKKEV2rwoUza/tK3iUa8IMY+l5tuirmzzkEog")) = Some 36%nat.
Proof. vm_compute. reflexivity. Qed.

(* every byte value, in three alignments (cross-checked against Python's base64 module) *)
Definition all_bytes : bytes := map N.of_nat (seq 0 256).
Definition all_bytes_b64 : list N := codes
  "AAECAwQFBgcICQoLDA0ODxAREhMUFRYXGBkaGxwdHh8gISIjJCUmJygpKissLS4vMDEyMzQ1Njc4OTo7PD0+P0BBQkNERUZHSElKS0xNTk9QUVJTVFVWV1hZWltcXV5fYGFiY2RlZmdoaWprbG1ub3BxcnN0dXZ3eHl6e3x9fn+AgYKDhIWGh4iJiouMjY6PkJGSk5SVlpeYmZqbnJ2en6ChoqOkpaanqKmqq6ytrq+wsbKztLW2t7i5uru8vb6/wMHCw8TFxsfIycrLzM3Oz9DR0tPU1dbX2Nna29zd3t/g4eLj5OXm5+jp6uvs7e7v8PHy8/T19vf4+fr7/P3+/w==".
Example enc_all : b64_encode all_bytes = all_bytes_b64. Proof. vm_compute. reflexivity. Qed.
Example dec_all : b64_decode all_bytes_b64 = Some all_bytes. Proof. vm_compute. reflexivity. Qed.
Definition rev_bytes : bytes := rev (map N.of_nat (seq 1 255)).
Example enc_rev255 : b64_encode rev_bytes = codes
  "//79/Pv6+fj39vX08/Lx8O/u7ezr6uno5+bl5OPi4eDf3t3c29rZ2NfW1dTT0tHQz87NzMvKycjHxsXEw8LBwL++vby7urm4t7a1tLOysbCvrq2sq6qpqKempaSjoqGgn56dnJuamZiXlpWUk5KRkI+OjYyLiomIh4aFhIOCgYB/fn18e3p5eHd2dXRzcnFwb25tbGtqaWhnZmVkY2JhYF9eXVxbWllYV1ZVVFNSUVBPTk1MS0pJSEdGRURDQkFAPz49PDs6OTg3NjU0MzIxMC8uLSwrKikoJyYlJCMiISAfHh0cGxoZGBcWFRQTEhEQDw4NDAsKCQgHBgUEAwIB".
Proof. vm_compute. reflexivity. Qed.
Example enc_rev254 : b64_encode (removelast rev_bytes) = codes
  "//79/Pv6+fj39vX08/Lx8O/u7ezr6uno5+bl5OPi4eDf3t3c29rZ2NfW1dTT0tHQz87NzMvKycjHxsXEw8LBwL++vby7urm4t7a1tLOysbCvrq2sq6qpqKempaSjoqGgn56dnJuamZiXlpWUk5KRkI+OjYyLiomIh4aFhIOCgYB/fn18e3p5eHd2dXRzcnFwb25tbGtqaWhnZmVkY2JhYF9eXVxbWllYV1ZVVFNSUVBPTk1MS0pJSEdGRURDQkFAPz49PDs6OTg3NjU0MzIxMC8uLSwrKikoJyYlJCMiISAfHh0cGxoZGBcWFRQTEhEQDw4NDAsKCQgHBgUEAwI=".
Proof. vm_compute. reflexivity. Qed.
