(* Spec/Base64Facts.v — theorems about Spec/Base64.v.
   Route: a group-wise reference encoder [b64_encode_ref] (3 bytes -> 4 characters); the
   accumulator-loop encoder equals it for every input; the accumulator-loop decoder is
   inverted against it directly, by induction over groups with the invariant
   "acc_len = 0, acc arbitrary" at group boundaries. *)
From Kestrel Require Import Bytes BytesFacts.
From Kestrel.Spec Require Import Base64.
From Coq Require Import ZifyBool ZifyNat ZifyN.
Local Open Scope N_scope.
Ltac Zify.zify_post_hook ::= Z.div_mod_to_equations.

(* ---- induction by groups --------------------------------------------------------------- *)

Lemma list_ind3 {A} (P : list A -> Prop) :
  P [] -> (forall a, P [a]) -> (forall a b, P [a; b]) ->
  (forall a b c l, P l -> P (a :: b :: c :: l)) -> forall l, P l.
Proof.
  intros H0 H1 H2 H3. fix IH 1. intros [|a [|b [|c l]]].
  - exact H0.
  - apply H1.
  - apply H2.
  - apply H3, IH.
Qed.

(* ---- finite checks lifted from computation ----------------------------------------------- *)

Lemma N_below_forallb (P : N -> bool) (n : nat) :
  forallb P (map N.of_nat (seq 0 n)) = true -> forall x, x < N.of_nat n -> P x = true.
Proof.
  intros H x Hx. rewrite forallb_forall in H. apply H.
  rewrite <- (N2Nat.id x). apply in_map, in_seq. lia.
Qed.

Lemma b64_val_char x : x < 64 -> b64_val (b64_char x) = Some x.
Proof.
  intros Hx.
  pose (P := fun x => match b64_val (b64_char x) with Some y => y =? x | None => false end).
  assert (H : P x = true) by (apply (N_below_forallb P 64); [vm_compute; reflexivity | exact Hx]).
  unfold P in H. destruct (b64_val (b64_char x)); [f_equal; lia | discriminate].
Qed.

Lemma b64_val_range c d : b64_val c = Some d -> 43 <= c <= 122.
Proof.
  unfold b64_val. intros H.
  destruct ((65 <=? c) && (c <=? 90)) eqn:E1; [lia|].
  destruct ((97 <=? c) && (c <=? 122)) eqn:E2; [lia|].
  destruct ((48 <=? c) && (c <=? 57)) eqn:E3; [lia|].
  destruct (c =? 43) eqn:E4; [lia|].
  destruct (c =? 47) eqn:E5; [lia|discriminate].
Qed.

Lemma b64_char_val c d : b64_val c = Some d -> d < 64 /\ b64_char d = c.
Proof.
  intros H. pose proof (b64_val_range _ _ H) as R.
  pose (P := fun c => match b64_val c with
                      | Some d => (d <? 64) && (b64_char d =? c) | None => true end).
  assert (HP : P c = true) by (apply (N_below_forallb P 128); [vm_compute; reflexivity | lia]).
  unfold P in HP. rewrite H in HP. lia.
Qed.

Lemma b64_val_61 : b64_val 61 = None.
Proof. reflexivity. Qed.

Lemma b64_char_lt x : x < 64 -> 43 <= b64_char x <= 122.
Proof. intros H. apply (b64_val_range _ x), b64_val_char, H. Qed.

(* ---- reference encoder ------------------------------------------------------------------ *)

(* [mod 64] on every sextet makes it agree with the loop on arbitrary N (not only bytes);
   on bytes the [mod 64] are identities. *)
Fixpoint b64_encode_ref (b : bytes) : list N :=
  match b with
  | [] => []
  | [x] => [b64_char ((x / 4) mod 64); b64_char (((x mod 4) * 16) mod 64); 61; 61]
  | [x; y] => [b64_char ((x / 4) mod 64); b64_char (((x mod 4) * 16 + y / 16) mod 64);
               b64_char (((y mod 16) * 4) mod 64); 61]
  | x :: y :: z :: r =>
    b64_char ((x / 4) mod 64) :: b64_char (((x mod 4) * 16 + y / 16) mod 64)
    :: b64_char (((y mod 16) * 4 + z / 64) mod 64) :: b64_char (z mod 64)
    :: b64_encode_ref r
  end.

Lemma b64_len_0 : b64_len 0 = 0%nat. Proof. reflexivity. Qed.
Lemma b64_len_1 : b64_len 1 = 4%nat. Proof. reflexivity. Qed.
Lemma b64_len_2 : b64_len 2 = 4%nat. Proof. reflexivity. Qed.
Lemma b64_len_S3 n : b64_len (S (S (S n))) = (4 + b64_len n)%nat.
Proof.
  unfold b64_len.
  assert (E : (S (S (S n)) / 3 = S (n / 3))%nat) by lia. rewrite E.
  destruct (Nat.eqb_spec (S (S (S n)) - 3 * S (n / 3)) 0), (Nat.eqb_spec (n - 3 * (n / 3)) 0); lia.
Qed.

(* one step of the encoder loop on each of the three phases *)
Lemma enc_loop_step0 v r acc :
  enc_loop (v :: r) acc 0 =
  b64_char ((((acc * 256) mod 65536 + v) / 4) mod 64) :: enc_loop r ((acc * 256) mod 65536 + v) 2.
Proof. reflexivity. Qed.
Lemma enc_loop_step2 v r acc :
  enc_loop (v :: r) acc 2 =
  b64_char ((((acc * 256) mod 65536 + v) / 16) mod 64) :: enc_loop r ((acc * 256) mod 65536 + v) 4.
Proof. reflexivity. Qed.
Lemma enc_loop_step4 v r acc :
  enc_loop (v :: r) acc 4 =
  b64_char ((((acc * 256) mod 65536 + v) / 64) mod 64)
  :: b64_char ((((acc * 256) mod 65536 + v) / 1) mod 64) :: enc_loop r ((acc * 256) mod 65536 + v) 0.
Proof. reflexivity. Qed.

(* sextets of the u16 accumulator *)
Lemma enc_sx1 acc x : ((acc * 256 mod 65536 + x) / 4) mod 64 = (x / 4) mod 64.
Proof. lia. Qed.
Lemma enc_sx2 acc x y :
  (((acc * 256 mod 65536 + x) * 256 mod 65536 + y) / 16) mod 64 = ((x mod 4) * 16 + y / 16) mod 64.
Proof. lia. Qed.
Lemma enc_sx3 acc y z :
  (((acc * 256 mod 65536 + y) * 256 mod 65536 + z) / 64) mod 64 = ((y mod 16) * 4 + z / 64) mod 64.
Proof. lia. Qed.
Lemma enc_sx4 acc z : ((acc * 256 mod 65536 + z) / 1) mod 64 = z mod 64.
Proof. lia. Qed.
Lemma enc_sx_last2 acc x : (((acc * 256 mod 65536 + x) * 16) mod 65536) mod 64 = ((x mod 4) * 16) mod 64.
Proof. lia. Qed.
Lemma enc_sx_last4 acc y : (((acc * 256 mod 65536 + y) * 4) mod 65536) mod 64 = ((y mod 16) * 4) mod 64.
Proof. lia. Qed.

Lemma enc_loop_nil0 acc : enc_loop [] acc 0 = [].
Proof. reflexivity. Qed.
Lemma enc_loop_nil2 acc : enc_loop [] acc 2 = [b64_char (((acc * 16) mod 65536) mod 64)].
Proof. reflexivity. Qed.
Lemma enc_loop_nil4 acc : enc_loop [] acc 4 = [b64_char (((acc * 4) mod 65536) mod 64)].
Proof. reflexivity. Qed.

Lemma enc_loop_ref : forall l acc,
  enc_loop l acc 0 ++ repeat 61 (b64_len (length l) - length (enc_loop l acc 0)) = b64_encode_ref l.
Proof.
  induction l as [|x|x y|x y z l IH] using list_ind3; intros acc.
  - reflexivity.
  - rewrite enc_loop_step0, enc_loop_nil2. cbn [length]. rewrite b64_len_1.
    cbn [Nat.sub repeat app b64_encode_ref]. now rewrite enc_sx1, enc_sx_last2.
  - rewrite enc_loop_step0, enc_loop_step2, enc_loop_nil4. cbn [length]. rewrite b64_len_2.
    cbn [Nat.sub repeat app b64_encode_ref]. now rewrite enc_sx1, enc_sx2, enc_sx_last4.
  - rewrite enc_loop_step0, enc_loop_step2, enc_loop_step4. cbn [length]. rewrite b64_len_S3.
    change (4 + ?n - S (S (S (S ?m))))%nat with (n - m)%nat.
    cbn [app b64_encode_ref]. rewrite enc_sx1, enc_sx2, enc_sx3, enc_sx4. do 4 f_equal. apply IH.
Qed.

Theorem b64_encode_eq_ref b : b64_encode b = b64_encode_ref b.
Proof. apply enc_loop_ref. Qed.

(* ---- decoder loop: one step in each phase ---------------------------------------------------- *)

Lemma dec_loop_stop c r acc al : b64_val c = None ->
  dec_loop (c :: r) acc al = dec_finish acc al (Some (c :: r)).
Proof. intros H. cbn [dec_loop]. now rewrite H. Qed.
Lemma dec_loop_step0 c d r acc : b64_val c = Some d ->
  dec_loop (c :: r) acc 0 = dec_loop r (acc * 64 mod 65536 + d) 6.
Proof. intros H. cbn [dec_loop]. now rewrite H. Qed.
Lemma dec_loop_step6 c d r acc : b64_val c = Some d ->
  dec_loop (c :: r) acc 6 =
  option_map (cons (((acc * 64 mod 65536 + d) / 16) mod 256)) (dec_loop r (acc * 64 mod 65536 + d) 4).
Proof. intros H. cbn [dec_loop]. now rewrite H. Qed.
Lemma dec_loop_step4 c d r acc : b64_val c = Some d ->
  dec_loop (c :: r) acc 4 =
  option_map (cons (((acc * 64 mod 65536 + d) / 4) mod 256)) (dec_loop r (acc * 64 mod 65536 + d) 2).
Proof. intros H. cbn [dec_loop]. now rewrite H. Qed.
Lemma dec_loop_step2 c d r acc : b64_val c = Some d ->
  dec_loop (c :: r) acc 2 =
  option_map (cons (((acc * 64 mod 65536 + d) / 1) mod 256)) (dec_loop r (acc * 64 mod 65536 + d) 0).
Proof. intros H. cbn [dec_loop]. now rewrite H. Qed.

(* bytes and low bits of the u16 accumulator *)
Lemma dec_b1 acc d1 d2 : d1 < 64 -> d2 < 64 ->
  (((acc * 64 mod 65536 + d1) * 64 mod 65536 + d2) / 16) mod 256 = d1 * 4 + d2 / 16.
Proof. lia. Qed.
Lemma dec_b2 acc d2 d3 : d2 < 64 -> d3 < 64 ->
  (((acc * 64 mod 65536 + d2) * 64 mod 65536 + d3) / 4) mod 256 = (d2 mod 16) * 16 + d3 / 4.
Proof. lia. Qed.
Lemma dec_b3 acc d3 d4 : d3 < 64 -> d4 < 64 ->
  (((acc * 64 mod 65536 + d3) * 64 mod 65536 + d4) / 1) mod 256 = (d3 mod 4) * 64 + d4.
Proof. lia. Qed.
Lemma dec_low acc d k : (k = 4 \/ k = 16) -> (acc * 64 mod 65536 + d) mod k = d mod k.
Proof. intros [->| ->]; lia. Qed.

(* ---- the tail of decode ------------------------------------------------------------------------ *)

Lemma dec_finish_nil acc al p o : dec_finish acc al p = Some o -> o = [].
Proof.
  unfold dec_finish. destruct (_ || _); [discriminate|].
  destruct p as [rest|].
  - destruct (skip_padding rest (al / 2)) as [[|? ?]|]; congruence.
  - destruct (_ =? _); congruence.
Qed.

Lemma dec_finish_0_none acc : dec_finish acc 0 None = Some [].
Proof. unfold dec_finish. cbn [N.pow]. rewrite N.mod_1_r. reflexivity. Qed.
Lemma dec_finish_0_some acc c r : dec_finish acc 0 (Some (c :: r)) = None.
Proof. unfold dec_finish. cbn [N.pow]. rewrite N.mod_1_r. reflexivity. Qed.
Lemma dec_finish_6 acc p : dec_finish acc 6 p = None.
Proof. reflexivity. Qed.
Lemma dec_finish_4_none acc : dec_finish acc 4 None = None.
Proof. unfold dec_finish. destruct (_ || _); reflexivity. Qed.
Lemma dec_finish_2_none acc : dec_finish acc 2 None = None.
Proof. unfold dec_finish. destruct (_ || _); reflexivity. Qed.

Lemma dec_finish_4_ok acc : acc mod 16 = 0 -> dec_finish acc 4 (Some [61; 61]) = Some [].
Proof. intros H. unfold dec_finish. change (2 ^ 4) with 16. rewrite H. reflexivity. Qed.
Lemma dec_finish_2_ok acc : acc mod 4 = 0 -> dec_finish acc 2 (Some [61]) = Some [].
Proof. intros H. unfold dec_finish. change (2 ^ 2) with 4. rewrite H. reflexivity. Qed.

Lemma dec_finish_4_inv acc rest o :
  dec_finish acc 4 (Some rest) = Some o -> acc mod 16 = 0 /\ rest = [61; 61].
Proof.
  unfold dec_finish. change (2 ^ 4) with 16. change (4 / 2) with 2.
  destruct (acc mod 16 =? 0) eqn:E; [|discriminate]. cbn [negb orb N.ltb N.compare Pos.compare Pos.compare_cont].
  intros H. split; [lia|].
  destruct rest as [|c1 [|c2 rest]]; cbn in H; try discriminate.
  - destruct (c1 =? 61); discriminate.
  - destruct (c1 =? 61) eqn:E1; [|discriminate]. cbn in H.
    destruct (c2 =? 61) eqn:E2; [|discriminate]. cbn in H.
    destruct rest; [|discriminate]. f_equal; [lia|f_equal; lia].
Qed.
Lemma dec_finish_2_inv acc rest o :
  dec_finish acc 2 (Some rest) = Some o -> acc mod 4 = 0 /\ rest = [61].
Proof.
  unfold dec_finish. change (2 ^ 2) with 4. change (2 / 2) with 1.
  destruct (acc mod 4 =? 0) eqn:E; [|discriminate]. cbn [negb orb N.ltb N.compare Pos.compare Pos.compare_cont].
  intros H. split; [lia|].
  destruct rest as [|c1 rest]; cbn in H; try discriminate.
  destruct (c1 =? 61) eqn:E1; [|discriminate]. cbn in H.
  destruct rest; [|discriminate]. f_equal; lia.
Qed.

(* ---- decode after encode ---------------------------------------------------------------------- *)

Lemma sextet_lt x : x mod 64 < 64.
Proof. lia. Qed.

Lemma dec_loop_encode_ref : forall b, bytes_ok b -> forall acc, dec_loop (b64_encode_ref b) acc 0 = Some b.
Proof.
  induction b as [|x|x y|x y z l IH] using list_ind3; intros Hb acc.
  - apply dec_finish_0_none.
  - apply Forall_inv in Hb. cbn [b64_encode_ref].
    rewrite (dec_loop_step0 _ _ _ _ (b64_val_char _ (sextet_lt _))).
    rewrite (dec_loop_step6 _ _ _ _ (b64_val_char _ (sextet_lt _))).
    rewrite (dec_loop_stop _ _ _ _ b64_val_61).
    rewrite dec_b1 by apply sextet_lt.
    rewrite dec_finish_4_ok by (rewrite dec_low by auto; lia).
    cbn [option_map]. do 2 f_equal. lia.
  - pose proof (Forall_inv Hb) as Hx. pose proof (Forall_inv (Forall_inv_tail Hb)) as Hy. cbn beta in Hx, Hy.
    cbn [b64_encode_ref].
    rewrite (dec_loop_step0 _ _ _ _ (b64_val_char _ (sextet_lt _))).
    rewrite (dec_loop_step6 _ _ _ _ (b64_val_char _ (sextet_lt _))).
    rewrite (dec_loop_step4 _ _ _ _ (b64_val_char _ (sextet_lt _))).
    rewrite (dec_loop_stop _ _ _ _ b64_val_61).
    rewrite dec_b1, dec_b2 by apply sextet_lt.
    rewrite dec_finish_2_ok by (rewrite dec_low by auto; lia).
    cbn [option_map]. f_equal. f_equal; [lia|]. f_equal. lia.
  - pose proof (Forall_inv Hb) as Hx. pose proof (Forall_inv (Forall_inv_tail Hb)) as Hy.
    pose proof (Forall_inv (Forall_inv_tail (Forall_inv_tail Hb))) as Hz. cbn beta in Hx, Hy, Hz.
    pose proof (Forall_inv_tail (Forall_inv_tail (Forall_inv_tail Hb))) as Hl.
    cbn [b64_encode_ref].
    rewrite (dec_loop_step0 _ _ _ _ (b64_val_char _ (sextet_lt _))).
    rewrite (dec_loop_step6 _ _ _ _ (b64_val_char _ (sextet_lt _))).
    rewrite (dec_loop_step4 _ _ _ _ (b64_val_char _ (sextet_lt _))).
    rewrite (dec_loop_step2 _ _ _ _ (b64_val_char _ (sextet_lt _))).
    rewrite dec_b1, dec_b2, dec_b3 by apply sextet_lt.
    rewrite (IH Hl). cbn [option_map]. f_equal. f_equal; [lia|]. f_equal; [lia|]. f_equal. lia.
Qed.

Theorem b64_decode_encode : forall b, bytes_ok b -> b64_decode (b64_encode b) = Some b.
Proof. intros b Hb. rewrite b64_encode_eq_ref. now apply dec_loop_encode_ref. Qed.

(* ---- encode after decode (strictness) ------------------------------------------------------------ *)

Lemma list_ind4 {A} (P : list A -> Prop) :
  P [] -> (forall a, P [a]) -> (forall a b, P [a; b]) -> (forall a b c, P [a; b; c]) ->
  (forall a b c d l, P l -> P (a :: b :: c :: d :: l)) -> forall l, P l.
Proof.
  intros H0 H1 H2 H3 H4. fix IH 1. intros [|a [|b [|c [|d l]]]].
  - exact H0.
  - apply H1.
  - apply H2.
  - apply H3.
  - apply H4, IH.
Qed.

(* advance the decoder loop in hypothesis H by one character, splitting on its validity *)
Ltac dec_step H :=
  match type of H with
  | context [dec_loop (?c :: ?r) ?acc ?al] =>
    let d := fresh "d" in let E := fresh "E" in
    destruct (b64_val c) as [d|] eqn:E;
    [ first [ rewrite (dec_loop_step0 c d r acc E) in H
            | rewrite (dec_loop_step6 c d r acc E) in H
            | rewrite (dec_loop_step4 c d r acc E) in H
            | rewrite (dec_loop_step2 c d r acc E) in H ];
      apply b64_char_val in E; destruct E as [? E]
    | rewrite (dec_loop_stop c r acc al E) in H; clear E ]
  end.

Lemma option_map_cons_inv (x : N) (o : option bytes) b :
  option_map (cons x) o = Some b -> exists b', o = Some b' /\ b = x :: b'.
Proof. destruct o as [b'|]; cbn; [|discriminate]. intros [= <-]. now exists b'. Qed.

Lemma dec_loop_inv : forall s acc b, dec_loop s acc 0 = Some b -> b64_encode_ref b = s.
Proof.
  induction s as [|c1|c1 c2|c1 c2 c3|c1 c2 c3 c4 r IH] using list_ind4; intros acc b H.
  - cbn [dec_loop] in H. apply dec_finish_nil in H. now subst.
  - dec_step H.
    + cbn [dec_loop] in H. now rewrite dec_finish_6 in H.
    + now rewrite dec_finish_0_some in H.
  - dec_step H; [|now rewrite dec_finish_0_some in H].
    dec_step H; [|now rewrite dec_finish_6 in H].
    cbn [dec_loop] in H. now rewrite dec_finish_4_none in H.
  - dec_step H; [|now rewrite dec_finish_0_some in H].
    dec_step H; [|now rewrite dec_finish_6 in H].
    apply option_map_cons_inv in H. destruct H as (b1 & H & ->).
    dec_step H.
    + apply option_map_cons_inv in H. destruct H as (b2 & H & ->).
      cbn [dec_loop] in H. now rewrite dec_finish_2_none in H.
    + apply dec_finish_4_inv in H. destruct H as [_ H]. discriminate.
  - dec_step H; [|now rewrite dec_finish_0_some in H].
    dec_step H; [|now rewrite dec_finish_6 in H].
    apply option_map_cons_inv in H. destruct H as (b1 & H & ->).
    rewrite dec_b1 by assumption.
    dec_step H.
    + apply option_map_cons_inv in H. destruct H as (b2 & H & ->).
      rewrite dec_b2 by assumption.
      dec_step H.
      * apply option_map_cons_inv in H. destruct H as (b3 & H & ->).
        rewrite dec_b3 by assumption.
        apply IH in H. subst r c1 c2 c3 c4. cbn [b64_encode_ref].
        f_equal; [f_equal; lia|]. f_equal; [f_equal; lia|]. f_equal; [f_equal; lia|]. f_equal. f_equal; lia.
      * pose proof (dec_finish_nil _ _ _ _ H) as ->.
        apply dec_finish_2_inv in H. destruct H as [Hlow [= -> ->]].
        rewrite dec_low in Hlow by auto.
        subst c1 c2 c3. cbn [b64_encode_ref].
        f_equal; [f_equal; lia|]. f_equal; [f_equal; lia|]. f_equal. f_equal; lia.
    + pose proof (dec_finish_nil _ _ _ _ H) as ->.
      apply dec_finish_4_inv in H. destruct H as [Hlow [= -> -> ->]].
      rewrite dec_low in Hlow by auto.
      subst c1 c2. cbn [b64_encode_ref].
      f_equal; [f_equal; lia|]. f_equal. f_equal; lia.
Qed.

Theorem b64_encode_decode : forall s b, b64_decode s = Some b -> b64_encode b = s.
Proof. intros s b H. rewrite b64_encode_eq_ref. exact (dec_loop_inv _ _ _ H). Qed.

(* ---- remaining properties ---------------------------------------------------------------------- *)

Lemma dec_loop_ok : forall s acc al b, dec_loop s acc al = Some b -> bytes_ok b.
Proof.
  induction s as [|c r IH]; intros acc al b H; cbn [dec_loop] in H.
  - apply dec_finish_nil in H. subst. constructor.
  - destruct (b64_val c) as [d|].
    + destruct (8 <=? al + 6).
      * apply option_map_cons_inv in H. destruct H as (b' & H & ->).
        constructor; [apply N.mod_lt; discriminate | exact (IH _ _ _ H)].
      * exact (IH _ _ _ H).
    + apply dec_finish_nil in H. subst. constructor.
Qed.

Theorem b64_decode_ok : forall s b, b64_decode s = Some b -> bytes_ok b.
Proof. intros s b. apply dec_loop_ok. Qed.

Lemma b64_encode_ref_length : forall b, length (b64_encode_ref b) = (4 * ((length b + 2) / 3))%nat.
Proof.
  induction b as [|x|x y|x y z l IH] using list_ind3; try reflexivity.
  cbn [b64_encode_ref length]. rewrite IH. lia.
Qed.

Theorem b64_encode_length : forall b, length (b64_encode b) = (4 * ((length b + 2) / 3))%nat.
Proof. intros b. rewrite b64_encode_eq_ref. apply b64_encode_ref_length. Qed.

Theorem b64_decode_length : forall s b,
  b64_decode s = Some b -> length s = (4 * ((length b + 2) / 3))%nat.
Proof. intros s b H. rewrite <- (b64_encode_decode _ _ H). apply b64_encode_length. Qed.

(* an encoding is alphabet characters followed by at most two '=' *)
Lemma b64_encode_shape : forall b, exists body k,
  b64_encode b = body ++ repeat 61 k /\ Forall (fun c => b64_val c <> None) body /\ (k <= 2)%nat.
Proof.
  intros b. rewrite b64_encode_eq_ref.
  assert (V : forall x, b64_val (b64_char (x mod 64)) <> None)
    by (intros x; rewrite b64_val_char by apply sextet_lt; discriminate).
  induction b as [|x|x y|x y z l IH] using list_ind3.
  - exists [], 0%nat. repeat split; auto.
  - exists [b64_char ((x / 4) mod 64); b64_char (((x mod 4) * 16) mod 64)], 2%nat.
    repeat split; auto.
  - exists [b64_char ((x / 4) mod 64); b64_char (((x mod 4) * 16 + y / 16) mod 64);
            b64_char (((y mod 16) * 4) mod 64)], 1%nat.
    repeat split; auto.
  - destruct IH as (body & k & E & F & K).
    exists (b64_char ((x / 4) mod 64) :: b64_char (((x mod 4) * 16 + y / 16) mod 64)
            :: b64_char (((y mod 16) * 4 + z / 64) mod 64) :: b64_char (z mod 64) :: body), k.
    cbn [b64_encode_ref app]. rewrite E. repeat split; auto.
Qed.

Theorem b64_encode_alphabet : forall b, bytes_ok b ->
  Forall (fun c => b64_val c <> None \/ c = 61) (b64_encode b).
Proof.
  intros b _. destruct (b64_encode_shape b) as (body & k & -> & F & _).
  apply Forall_app. split.
  - eapply Forall_impl; [|exact F]. cbn beta. auto.
  - apply Forall_forall. intros c Hc. apply repeat_spec in Hc. auto.
Qed.

Corollary b64_encode_no_ws : forall b c, bytes_ok b -> In c (b64_encode b) ->
  c <> 9 /\ c <> 10 /\ c <> 13 /\ c <> 32 /\ c < 128.
Proof.
  intros b c Hb Hc. pose proof (b64_encode_alphabet b Hb) as F.
  rewrite Forall_forall in F. destruct (F c Hc) as [V| ->]; [|lia].
  destruct (b64_val c) as [d|] eqn:E; [|congruence].
  apply b64_val_range in E. lia.
Qed.

Corollary b64_encode_inj : forall a b, bytes_ok a -> bytes_ok b -> b64_encode a = b64_encode b -> a = b.
Proof.
  intros a b Ha Hb E. apply b64_decode_encode in Ha, Hb. rewrite E in Ha. congruence.
Qed.
