(* Spec/Hmac.v — HMAC-SHA-256 (RFC 2104; B = 64, L = 32).  Definitions only. *)
From Kestrel Require Import Bytes.
From Kestrel.Spec Require Import Sha256.
Local Open Scope N_scope.

(* RFC 2104 section 2/3: keys longer than B bytes are hashed first; then
   (step 1) zero-pad to exactly B bytes *)
Definition hmac_key_block (key : bytes) : bytes :=
  let k := if Nat.ltb 64 (length key) then sha256 key else key in
  k ++ zeros (64 - length k).

Definition ipad : bytes := repeat 0x36 64.
Definition opad : bytes := repeat 0x5c 64.

(* H(K xor opad, H(K xor ipad, text)) *)
Definition hmac_sha256 (key msg : bytes) : bytes :=
  let k := hmac_key_block key in
  sha256 (xor_bytes k opad ++ sha256 (xor_bytes k ipad ++ msg)).
