(* Known-answer tests for Spec/X25519.v: RFC 7748 5.2 (two vectors, one iteration), 6.1. *)
From Kestrel Require Import Bytes.
From Kestrel.Spec Require Import X25519.
Local Open Scope N_scope.

Definition hexN (n : nat) (x : N) : bytes := rev (le_bytes n x).  (* big-endian hex literal -> bytes *)

Example rfc7748_5_2_v1 :
  x25519 (hexN 32 0xa546e36bf0527c9d3b16154b82465edd62144c0ac1fc5a18506a2244ba449ac4)
         (hexN 32 0xe6db6867583030db3594c1a424b15f7c726624ec26b3353b10a903a6d0ab1c4c)
  = hexN 32 0xc3da55379de9c6908e94ea4df28d084f32eccf03491c71f754b4075577a28552.
Proof. vm_compute. reflexivity. Qed.

Example rfc7748_5_2_v2 :
  x25519 (hexN 32 0x4b66e9d4d1b4673c5ad22691957d6af5c11b6421e0ea01d42ca4169e7918ba0d)
         (hexN 32 0xe5210f12786811d3f4b7959d0538ae2c31dbe7106fc03c3efc4cd549c715a493)
  = hexN 32 0x95cbde9476e8907d7aade45cb4b873f88b595a68799fa152e6f8f7647aac7957.
Proof. vm_compute. reflexivity. Qed.

Example rfc7748_5_2_iter1 :
  x25519 (9 :: zeros 31) (9 :: zeros 31)
  = hexN 32 0x422c8e7a6227d7bca1350b3e2bb7279f7897b87bb6854b783c60e80311ae3079.
Proof. vm_compute. reflexivity. Qed.

Definition alice_sk := hexN 32 0x77076d0a7318a57d3c16c17251b26645df4c2f87ebc0992ab177fba51db92c2a.
Definition alice_pk := hexN 32 0x8520f0098930a754748b7ddcb43ef75a0dbf3a0d26381af4eba4a98eaa9b4e6a.
Definition bob_sk := hexN 32 0x5dab087e624a8a4b79e17f8b83800ee66f3bb1292618b6fd1c2f8b27ff88e0eb.
Definition bob_pk := hexN 32 0xde9edb7d7b7dc1b4d35b61c2ece435373f8343c85b78674dadfc7e146f882b4f.
Definition ab_shared := hexN 32 0x4a5d9d5ba4ce2de1728e3bf480350f25e07e21c947d19e3376f09b3c1e161742.

Example rfc7748_6_1_alice_pub : x25519 alice_sk (9 :: zeros 31) = alice_pk.
Proof. vm_compute. reflexivity. Qed.
Example rfc7748_6_1_bob_pub : x25519 bob_sk (9 :: zeros 31) = bob_pk.
Proof. vm_compute. reflexivity. Qed.
Example rfc7748_6_1_shared_a : x25519 alice_sk bob_pk = ab_shared.
Proof. vm_compute. reflexivity. Qed.
Example rfc7748_6_1_shared_b : x25519 bob_sk alice_pk = ab_shared.
Proof. vm_compute. reflexivity. Qed.

(* low-order points give the all-zero output (u = 0, u = 1, and one of order 8) *)
Example low_order_0 : x25519 alice_sk (zeros 32) = zeros 32.
Proof. vm_compute. reflexivity. Qed.
Example low_order_1 : x25519 alice_sk (1 :: zeros 31) = zeros 32.
Proof. vm_compute. reflexivity. Qed.
Example low_order_8 :
  x25519 alice_sk (rev (hexN 32 0x57119fd0dd4e22d8868e1c58c45c44045bef839c55b1d0b1248c50a3bc959c5f)) = zeros 32.
Proof. vm_compute. reflexivity. Qed.
