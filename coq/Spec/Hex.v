(* Spec/Hex.v — test-vector helpers: hex text and ASCII text to byte strings. *)
From Kestrel Require Import Bytes.
From Coq Require Import String Ascii.
Local Open Scope N_scope.

Definition hexval (c : ascii) : option N :=
  let n := N_of_ascii c in
  if (48 <=? n) && (n <=? 57) then Some (n - 48)
  else if (97 <=? n) && (n <=? 102) then Some (n - 87)
  else if (65 <=? n) && (n <=? 70) then Some (n - 55)
  else None.

(* non-hex characters (spaces, colons, newlines) are skipped *)
Fixpoint hx_go (s : string) (hi : option N) : bytes :=
  match s with
  | EmptyString => []
  | String c s' =>
    match hexval c with
    | None => hx_go s' hi
    | Some v => match hi with
                | None => hx_go s' (Some v)
                | Some h => (16 * h + v) :: hx_go s' None
                end
    end
  end.
Definition hx (s : string) : bytes := hx_go s None.

Fixpoint ascii_bytes (s : string) : bytes :=
  match s with EmptyString => [] | String c s' => N_of_ascii c :: ascii_bytes s' end.

Definition str := ascii_bytes.

Definition hexdigit (n : N) : ascii :=
  ascii_of_N (if n <? 10 then 48 + n else 87 + n).

(* printing: [10; 255] -> "0aff" *)
Fixpoint to_hex (b : bytes) : string :=
  match b with
  | [] => EmptyString
  | x :: r => String (hexdigit (x / 16 mod 16)) (String (hexdigit (x mod 16)) (to_hex r))
  end.
