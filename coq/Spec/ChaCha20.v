(* Spec/ChaCha20.v — RFC 8439 section 2.1-2.4: the ChaCha20 block function and cipher.
   Executable Gallina written from the RFC text.  Definitions only; proofs are in ChaPolyFacts.v.
   Every function is total: no length or byte-range preconditions anywhere. *)
From Kestrel Require Import Bytes.
Local Open Scope N_scope.

(* 32-bit words are N values kept below 2^32 by masking. *)
Definition mask32 : N := 0xffffffff.
Definition add32 (a b : N) : N := N.land (a + b) mask32.
(* rotl32 x n (32-n): left rotation of a 32-bit word by n; the second shift amount is passed
   explicitly so nothing is subtracted in the inner loop. *)
Definition rotl32 (x n m : N) : N :=
  N.lor (N.land (N.shiftl x n) mask32) (N.shiftr x m).

(* 2.1  The ChaCha quarter round *)
Definition quarter_round (a b c d : N) : N * N * N * N :=
  let a := add32 a b in let d := rotl32 (N.lxor d a) 16 16 in
  let c := add32 c d in let b := rotl32 (N.lxor b c) 12 20 in
  let a := add32 a b in let d := rotl32 (N.lxor d a) 8 24 in
  let c := add32 c d in let b := rotl32 (N.lxor b c) 7 25 in
  (a, b, c, d).

(* The 4x4 state, as a record of sixteen words (no list indexing in the rounds). *)
Record state : Set := St {
  s0 : N; s1 : N; s2 : N; s3 : N; s4 : N; s5 : N; s6 : N; s7 : N;
  s8 : N; s9 : N; s10 : N; s11 : N; s12 : N; s13 : N; s14 : N; s15 : N }.

(* 2.3  one column round followed by one diagonal round *)
Definition double_round (s : state) : state :=
  let '(St x0 x1 x2 x3 x4 x5 x6 x7 x8 x9 x10 x11 x12 x13 x14 x15) := s in
  let '(x0, x4, x8, x12) := quarter_round x0 x4 x8 x12 in
  let '(x1, x5, x9, x13) := quarter_round x1 x5 x9 x13 in
  let '(x2, x6, x10, x14) := quarter_round x2 x6 x10 x14 in
  let '(x3, x7, x11, x15) := quarter_round x3 x7 x11 x15 in
  let '(x0, x5, x10, x15) := quarter_round x0 x5 x10 x15 in
  let '(x1, x6, x11, x12) := quarter_round x1 x6 x11 x12 in
  let '(x2, x7, x8, x13) := quarter_round x2 x7 x8 x13 in
  let '(x3, x4, x9, x14) := quarter_round x3 x4 x9 x14 in
  St x0 x1 x2 x3 x4 x5 x6 x7 x8 x9 x10 x11 x12 x13 x14 x15.

Definition state_add (a b : state) : state :=
  St (add32 (s0 a) (s0 b)) (add32 (s1 a) (s1 b)) (add32 (s2 a) (s2 b)) (add32 (s3 a) (s3 b))
     (add32 (s4 a) (s4 b)) (add32 (s5 a) (s5 b)) (add32 (s6 a) (s6 b)) (add32 (s7 a) (s7 b))
     (add32 (s8 a) (s8 b)) (add32 (s9 a) (s9 b)) (add32 (s10 a) (s10 b)) (add32 (s11 a) (s11 b))
     (add32 (s12 a) (s12 b)) (add32 (s13 a) (s13 b)) (add32 (s14 a) (s14 b)) (add32 (s15 a) (s15 b)).

(* Sixteen words, each as four little-endian bytes: 64 bytes by construction. *)
Definition serialize (s : state) : bytes :=
  le32 (s0 s) ++ le32 (s1 s) ++ le32 (s2 s) ++ le32 (s3 s) ++
  le32 (s4 s) ++ le32 (s5 s) ++ le32 (s6 s) ++ le32 (s7 s) ++
  le32 (s8 s) ++ le32 (s9 s) ++ le32 (s10 s) ++ le32 (s11 s) ++
  le32 (s12 s) ++ le32 (s13 s) ++ le32 (s14 s) ++ le32 (s15 s).

(* The i-th little-endian 32-bit word of b (bytes 4i .. 4i+3).  Bytes beyond the end of b read
   as 0, and the result is masked to 32 bits, so this is total on arbitrary lists of N. *)
Definition word_le (b : bytes) (i : nat) : N :=
  N.land (le_num (firstn 4 (skipn (4 * i) b))) mask32.

(* 2.3  initial state: constants, 8 key words, block counter, 3 nonce words *)
Definition init_state (key : bytes) (counter : N) (nonce : bytes) : state :=
  St 0x61707865 0x3320646e 0x79622d32 0x6b206574
     (word_le key 0) (word_le key 1) (word_le key 2) (word_le key 3)
     (word_le key 4) (word_le key 5) (word_le key 6) (word_le key 7)
     (N.land counter mask32)
     (word_le nonce 0) (word_le nonce 1) (word_le nonce 2).

(* 2.3  the block function: 20 rounds (10 double rounds), add the input state, serialize *)
Definition chacha20_block (key : bytes) (counter : N) (nonce : bytes) : bytes :=
  let st := init_state key counter nonce in
  serialize (state_add (Nat.iter 10 double_round st) st).

(* nb consecutive key-stream blocks starting at block counter c; the counter is a 32-bit
   word and wraps mod 2^32 *)
Fixpoint keystream_blocks (key : bytes) (c : N) (nonce : bytes) (nb : nat) : bytes :=
  match nb with
  | O => []
  | S nb' => chacha20_block key c nonce ++ keystream_blocks key (add32 c 1) nonce nb'
  end.

(* the first len bytes of the key stream *)
Definition keystream (key : bytes) (c : N) (nonce : bytes) (len : nat) : bytes :=
  firstn len (keystream_blocks key c nonce ((len + 63) / 64)).

(* 2.4  encryption = decryption = data XOR key stream *)
Definition chacha20_encrypt (key : bytes) (counter : N) (nonce data : bytes) : bytes :=
  xor_bytes data (keystream key counter nonce (length data)).
