(* Spec/X25519.v — RFC 7748 X25519 (Montgomery ladder over GF(2^255-19)), on byte strings. *)
From Kestrel Require Import Bytes.
Local Open Scope Z_scope.

Definition p25519 : Z := 2^255 - 19.
(* reduction of 0 <= x < ~2^512 by two folds of the top bits (2^255 = 19 mod p) *)
Definition red (x : Z) : Z :=
  let m := 2^255 - 1 in
  let r := Z.land x m + 19 * Z.shiftr x 255 in
  let r := Z.land r m + 19 * Z.shiftr r 255 in
  if r <? p25519 then r else r - p25519.
Definition fadd a b := red (a + b).
Definition fsub a b := red (a + (p25519 - b)).
Definition fmul a b := red (a * b).
Fixpoint fpow_pos (a : Z) (e : positive) : Z :=
  match e with
  | xH => a
  | xO e' => let r := fpow_pos a e' in fmul r r
  | xI e' => let r := fpow_pos a e' in fmul (fmul r r) a
  end.
Definition finv a := match p25519 - 2 with Zpos e => fpow_pos a e | _ => 0 end.
Definition cswap (s : bool) (a b : Z) := if s then (b, a) else (a, b).

(* RFC 7748 section 5 ladder, bit index t-1 down to 0 *)
Fixpoint ladder (t : nat) (k x1 x2 z2 x3 z3 : Z) (swap : bool) : Z * Z * Z * Z * bool :=
  match t with
  | O => (x2, z2, x3, z3, swap)
  | S t' =>
    let kt := Z.testbit k (Z.of_nat t') in
    let sw := xorb swap kt in
    let '(x2, x3) := cswap sw x2 x3 in
    let '(z2, z3) := cswap sw z2 z3 in
    let A := fadd x2 z2 in let AA := fmul A A in
    let B := fsub x2 z2 in let BB := fmul B B in
    let E := fsub AA BB in
    let C := fadd x3 z3 in let D := fsub x3 z3 in
    let DA := fmul D A in let CB := fmul C B in
    let x3 := let s := fadd DA CB in fmul s s in
    let z3 := let d := fsub DA CB in fmul x1 (fmul d d) in
    let x2 := fmul AA BB in
    let z2 := fmul E (fadd AA (fmul 121665 E)) in
    ladder t' k x1 x2 z2 x3 z3 kt
  end.

Definition x25519_z (k u : Z) : Z :=
  (* decodeScalar25519: clear bits 0,1,2 and 255, set bit 254 *)
  let k := Z.lor (Z.land k (2^255 - 8)) (2^254) in
  (* decodeUCoordinate: mask the most significant bit; non-canonical values are reduced *)
  let u := red (Z.land u (2^255 - 1)) in
  let '(x2, z2, x3, z3, sw) := ladder 255 k u 1 0 u 1 false in
  let '(x2, x3) := cswap sw x2 x3 in
  let '(z2, z3) := cswap sw z2 z3 in
  fmul x2 (finv z2).

Definition x25519 (k u : bytes) : bytes :=
  le_bytes 32 (Z.to_N (x25519_z (Z.of_N (le_num k)) (Z.of_N (le_num u)))).
