(* Spec/HashFacts.v — lemmas about the hash specifications (Sha256, Hmac, Hkdf, Pbkdf2).
   Kept apart from the definitions so those evaluate even if a proof here breaks. *)
From Kestrel Require Import Bytes BytesFacts.
From Kestrel.Spec Require Import Sha256 Hmac Hkdf Pbkdf2.
From Coq Require Import ZifyBool ZifyNat ZifyN.
Local Open Scope N_scope.

(* large nat literals (8160) are parsed as [Nat.of_num_uint ...]; that is intended here *)
Set Warnings "-abstract-large-number".

Lemma bytes_ok_firstn : forall n b, bytes_ok b -> bytes_ok (firstn n b).
Proof.
  unfold bytes_ok. induction n as [|n IH]; intros [|x b] H; cbn [firstn]; try constructor.
  - now inversion H.
  - apply IH. now inversion H.
Qed.

(* ---------------- SHA-256 ---------------- *)

Lemma serialize_length s : length (serialize s) = 32%nat.
Proof. reflexivity. Qed.

Lemma serialize_ok s : bytes_ok (serialize s).
Proof. unfold serialize, bytes_ok. repeat (apply Forall_app; split); apply be32_ok. Qed.

Lemma sha256_length : forall m, length (sha256 m) = 32%nat.
Proof. intros m. unfold sha256. apply serialize_length. Qed.

Lemma sha256_ok : forall m, bytes_ok (sha256 m).
Proof. intros m. unfold sha256. apply serialize_ok. Qed.

(* ---------------- HMAC ---------------- *)

Lemma hmac_length : forall k m, length (hmac_sha256 k m) = 32%nat.
Proof. intros k m. unfold hmac_sha256. apply sha256_length. Qed.

Lemma hmac_ok : forall k m, bytes_ok (hmac_sha256 k m).
Proof. intros k m. unfold hmac_sha256. apply sha256_ok. Qed.

Lemma hmac_key_block_length : forall k, length (hmac_key_block k) = 64%nat.
Proof.
  intros k. unfold hmac_key_block.
  destruct (Nat.ltb 64 (length k)) eqn:E; rewrite app_length; unfold zeros; rewrite repeat_length.
  - rewrite sha256_length. reflexivity.
  - apply Nat.ltb_ge in E. lia.
Qed.

Lemma hmac_key_block_short : forall k, (length k <= 64)%nat ->
  hmac_key_block k = k ++ zeros (64 - length k).
Proof.
  intros k H. unfold hmac_key_block.
  destruct (Nat.ltb 64 (length k)) eqn:E; [apply Nat.ltb_lt in E; lia | reflexivity].
Qed.

Lemma hmac_key_block_long : forall k, (64 < length k)%nat ->
  hmac_key_block k = sha256 k ++ zeros 32.
Proof.
  intros k H. unfold hmac_key_block. apply Nat.ltb_lt in H. rewrite H.
  rewrite sha256_length. reflexivity.
Qed.

(* a key and the same key with trailing zero bytes (up to the block size) give the same MAC *)
Lemma hmac_key_block_zero_ext : forall k n, (length k + n <= 64)%nat ->
  hmac_key_block (k ++ zeros n) = hmac_key_block k.
Proof.
  intros k n H. rewrite !hmac_key_block_short by (rewrite ?app_length; unfold zeros; rewrite ?repeat_length; lia).
  rewrite <- app_assoc. f_equal. unfold zeros. rewrite <- repeat_app. f_equal.
  rewrite app_length, repeat_length. lia.
Qed.

Lemma hmac_key_zero_ext : forall k n m, (length k + n <= 64)%nat ->
  hmac_sha256 (k ++ zeros n) m = hmac_sha256 k m.
Proof. intros k n m H. unfold hmac_sha256. now rewrite hmac_key_block_zero_ext. Qed.

Lemma hmac_empty_key_zeros : forall m, hmac_sha256 [] m = hmac_sha256 (zeros 32) m.
Proof. intros m. symmetry. apply (hmac_key_zero_ext [] 32 m). cbn [length]. lia. Qed.

(* ---------------- HKDF ---------------- *)

Lemma hkdf_extract_length : forall salt ikm, length (hkdf_extract salt ikm) = 32%nat.
Proof. intros. apply hmac_length. Qed.

Lemma hkdf_extract_ok : forall salt ikm, bytes_ok (hkdf_extract salt ikm).
Proof. intros. apply hmac_ok. Qed.

(* the RFC's "if not provided, salt is HashLen zeros" agrees with using the empty key *)
Lemma hkdf_extract_hmac : forall salt ikm, hkdf_extract salt ikm = hmac_sha256 salt ikm.
Proof. intros [|x salt] ikm; unfold hkdf_extract; [symmetry; apply hmac_empty_key_zeros | reflexivity]. Qed.

Lemma hkdf_blocks_S prk info n i tprev :
  hkdf_blocks prk info (S n) i tprev =
  hmac_sha256 prk (tprev ++ info ++ [i]) ++
  hkdf_blocks prk info n (i + 1) (hmac_sha256 prk (tprev ++ info ++ [i])).
Proof. reflexivity. Qed.

Lemma hkdf_blocks_length : forall prk info n i tprev,
  length (hkdf_blocks prk info n i tprev) = (32 * n)%nat.
Proof.
  intros prk info n. induction n as [|n IH]; intros i tprev; [reflexivity|].
  rewrite hkdf_blocks_S, app_length, hmac_length, IH. lia.
Qed.

Lemma hkdf_blocks_ok : forall prk info n i tprev, bytes_ok (hkdf_blocks prk info n i tprev).
Proof.
  intros prk info n. induction n as [|n IH]; intros i tprev; [constructor|].
  rewrite hkdf_blocks_S. apply Forall_app; split; [apply hmac_ok | apply IH].
Qed.

Lemma hkdf_expand_in_range : forall prk info n, (n <= 255 * 32)%nat ->
  hkdf_expand prk info n = firstn n (hkdf_blocks prk info ((n + 31) / 32) 1 []).
Proof.
  intros prk info n H. unfold hkdf_expand.
  destruct (Nat.ltb (255 * 32) n) eqn:E; [apply Nat.ltb_lt in E; lia | reflexivity].
Qed.

(* the bound written as 255 * 32 (friendlier to lia than the literal 8160) *)
Lemma hkdf_expand_length_le : forall prk info n, (n <= 255 * 32)%nat ->
  length (hkdf_expand prk info n) = n.
Proof.
  intros prk info n H. rewrite hkdf_expand_in_range by exact H.
  rewrite firstn_length, hkdf_blocks_length. lia.
Qed.

Lemma hkdf_expand_length : forall prk info n, (n <= 8160)%nat ->
  length (hkdf_expand prk info n) = n.
Proof. intros prk info n H. apply hkdf_expand_length_le. exact H. Qed.

(* outside the RFC's range there is no output *)
Lemma hkdf_expand_out_of_range : forall prk info n, (255 * 32 < n)%nat ->
  hkdf_expand prk info n = [].
Proof. intros prk info n H. unfold hkdf_expand. apply Nat.ltb_lt in H. now rewrite H. Qed.

Lemma hkdf_expand_ok : forall prk info n, bytes_ok (hkdf_expand prk info n).
Proof.
  intros prk info n. unfold hkdf_expand. destruct (Nat.ltb (255 * 32) n); [constructor|].
  apply bytes_ok_firstn, hkdf_blocks_ok.
Qed.

Lemma hkdf_length : forall s i info n, (n <= 8160)%nat -> length (hkdf s i info n) = n.
Proof. intros. unfold hkdf. now apply hkdf_expand_length. Qed.

Lemma hkdf_length_le : forall s i info n, (n <= 255 * 32)%nat -> length (hkdf s i info n) = n.
Proof. intros. unfold hkdf. now apply hkdf_expand_length_le. Qed.

Lemma hkdf_ok : forall s i info n, bytes_ok (hkdf s i info n).
Proof. intros. apply hkdf_expand_ok. Qed.

Lemma hkdf_expand_32 : forall prk info, hkdf_expand prk info 32 = hmac_sha256 prk (info ++ [1]).
Proof.
  intros prk info. rewrite hkdf_expand_in_range by (apply Nat.leb_le; reflexivity).
  change ((32 + 31) / 32)%nat with 1%nat. rewrite hkdf_blocks_S.
  change (hkdf_blocks prk info 0 _ _) with (@nil N). rewrite app_nil_r.
  change ([] ++ info ++ [1]) with (info ++ [1]).
  apply firstn_all2. rewrite hmac_length. apply Nat.le_refl.
Qed.

Lemma hkdf_expand_64 : forall prk info,
  hkdf_expand prk info 64 =
  hmac_sha256 prk (info ++ [1]) ++ hmac_sha256 prk (hmac_sha256 prk (info ++ [1]) ++ info ++ [2]).
Proof.
  intros prk info. rewrite hkdf_expand_in_range by (apply Nat.leb_le; reflexivity).
  change ((64 + 31) / 32)%nat with 2%nat. rewrite !hkdf_blocks_S.
  change (hkdf_blocks prk info 0 _ _) with (@nil N). rewrite app_nil_r.
  change ([] ++ info ++ [1]) with (info ++ [1]). change (1 + 1) with 2.
  apply firstn_all2. rewrite app_length, !hmac_length. apply Nat.le_refl.
Qed.

Lemma hkdf_32 : forall salt ikm info,
  hkdf salt ikm info 32 = hmac_sha256 (hkdf_extract salt ikm) (info ++ [1]).
Proof. intros. unfold hkdf. apply hkdf_expand_32. Qed.

Lemma hkdf_64 : forall salt ikm info,
  hkdf salt ikm info 64 =
  let prk := hkdf_extract salt ikm in
  let t1 := hmac_sha256 prk (info ++ [1]) in
  t1 ++ hmac_sha256 prk (t1 ++ info ++ [2]).
Proof. intros. unfold hkdf. apply hkdf_expand_64. Qed.

Lemma hkdf_64_empty_info : forall salt ikm,
  hkdf salt ikm [] 64 =
  let prk := hmac_sha256 (match salt with [] => zeros 32 | _ => salt end) ikm in
  let t1 := hmac_sha256 prk [1] in
  t1 ++ hmac_sha256 prk (t1 ++ [2]).
Proof. intros. unfold hkdf. apply hkdf_expand_64. Qed.

(* ---------------- PBKDF2 ---------------- *)

Lemma pbkdf2_F_length : forall pw salt c i, length (pbkdf2_F pw salt c i) = 32%nat.
Proof.
  intros pw salt c i. unfold pbkdf2_F.
  apply (N.iter_invariant c _ (pbkdf2_step pw) (fun st => length (snd st) = 32%nat)).
  - intros [u acc] H. unfold pbkdf2_step. cbn [fst snd] in *.
    rewrite xor_bytes_length, H, hmac_length. reflexivity.
  - reflexivity.
Qed.

Lemma log2_lt_8 x : x < 256 -> N.log2 x < 8.
Proof.
  intros H. destruct (N.eq_dec x 0) as [->|Hx]; [reflexivity|].
  apply N.log2_lt_pow2; [lia | exact H].
Qed.

Lemma lxor_lt_256 x y : x < 256 -> y < 256 -> N.lxor x y < 256.
Proof.
  intros Hx Hy. destruct (N.eq_dec (N.lxor x y) 0) as [->|Hz]; [reflexivity|].
  apply (proj2 (N.log2_lt_pow2 (N.lxor x y) 8 ltac:(lia))).
  eapply N.le_lt_trans; [apply N.log2_lxor|].
  apply N.max_lub_lt; now apply log2_lt_8.
Qed.

Lemma xor_bytes_ok : forall a b, bytes_ok a -> bytes_ok b -> bytes_ok (xor_bytes a b).
Proof.
  induction a as [|x a IH]; intros [|y b] Ha Hb; cbn [xor_bytes]; try constructor;
    inversion Ha; inversion Hb; subst.
  - now apply lxor_lt_256.
  - now apply IH.
Qed.

Lemma zeros_ok n : bytes_ok (zeros n).
Proof. unfold zeros, bytes_ok. apply Forall_forall. intros x Hx. apply repeat_spec in Hx. subst. reflexivity. Qed.

Lemma pbkdf2_F_ok : forall pw salt c i, bytes_ok (pbkdf2_F pw salt c i).
Proof.
  intros pw salt c i. unfold pbkdf2_F.
  apply (N.iter_invariant c _ (pbkdf2_step pw) (fun st => bytes_ok (snd st))).
  - intros [u acc] H. unfold pbkdf2_step. cbn [fst snd] in *.
    apply xor_bytes_ok; [assumption | apply hmac_ok].
  - apply zeros_ok.
Qed.

Lemma pbkdf2_blocks_S pw salt c n i :
  pbkdf2_blocks pw salt c (S n) i = pbkdf2_F pw salt c i ++ pbkdf2_blocks pw salt c n (i + 1).
Proof. reflexivity. Qed.

Lemma pbkdf2_blocks_length : forall pw salt c n i,
  length (pbkdf2_blocks pw salt c n i) = (32 * n)%nat.
Proof.
  intros pw salt c n. induction n as [|n IH]; intros i; [reflexivity|].
  rewrite pbkdf2_blocks_S, app_length, pbkdf2_F_length, IH. lia.
Qed.

Lemma pbkdf2_blocks_ok : forall pw salt c n i, bytes_ok (pbkdf2_blocks pw salt c n i).
Proof.
  intros pw salt c n. induction n as [|n IH]; intros i; [constructor|].
  rewrite pbkdf2_blocks_S. apply Forall_app; split; [apply pbkdf2_F_ok | apply IH].
Qed.

Lemma pbkdf2_length : forall pw salt c n, length (pbkdf2 pw salt c n) = n.
Proof.
  intros pw salt c n. unfold pbkdf2. rewrite firstn_length, pbkdf2_blocks_length. lia.
Qed.

Lemma pbkdf2_ok : forall pw salt c n, bytes_ok (pbkdf2 pw salt c n).
Proof.
  intros pw salt c n. unfold pbkdf2. apply bytes_ok_firstn, pbkdf2_blocks_ok.
Qed.

Lemma xor_zeros_l : forall t, xor_bytes (zeros (length t)) t = t.
Proof. induction t as [|x t IH]; [reflexivity|]. cbn [length zeros repeat xor_bytes]. rewrite N.lxor_0_l. f_equal. exact IH. Qed.

(* iteration count 1: F(P, S, 1, i) = U_1 = HMAC(P, S | INT(i)) *)
Lemma pbkdf2_F_1 : forall pw salt i, pbkdf2_F pw salt 1 i = hmac_sha256 pw (salt ++ be32 i).
Proof.
  intros pw salt i. unfold pbkdf2_F. cbn [N.iter Pos.iter]. unfold pbkdf2_step. cbn [fst snd].
  rewrite <- (hmac_length pw (salt ++ be32 i)) at 1. apply xor_zeros_l.
Qed.

Lemma pbkdf2_1_32 : forall pw salt,
  pbkdf2 pw salt 1 32 = hmac_sha256 pw (salt ++ [0; 0; 0; 1]).
Proof.
  intros pw salt. unfold pbkdf2. change ((32 + 31) / 32)%nat with 1%nat.
  rewrite pbkdf2_blocks_S. change (pbkdf2_blocks pw salt 1 0 _) with (@nil N).
  rewrite app_nil_r, pbkdf2_F_1. change (be32 1) with [0; 0; 0; 1].
  apply firstn_all2. rewrite hmac_length. apply Nat.le_refl.
Qed.

Lemma pbkdf2_1_64 : forall pw salt,
  pbkdf2 pw salt 1 64 =
  hmac_sha256 pw (salt ++ [0; 0; 0; 1]) ++ hmac_sha256 pw (salt ++ [0; 0; 0; 2]).
Proof.
  intros pw salt. unfold pbkdf2. change ((64 + 31) / 32)%nat with 2%nat.
  rewrite !pbkdf2_blocks_S. change (pbkdf2_blocks pw salt 1 0 _) with (@nil N).
  rewrite app_nil_r, !pbkdf2_F_1. change (be32 1) with [0; 0; 0; 1]. change (be32 (1 + 1)) with [0; 0; 0; 2].
  apply firstn_all2. rewrite app_length, !hmac_length. apply Nat.le_refl.
Qed.
