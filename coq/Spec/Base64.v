(* Spec/Base64.v — executable model of ct-codecs 1.1.3 base64, variant Original
   (standard alphabet, '=' padding), as reached through
     Base64::encode_to_string(bin)        and
     Base64::decode_to_vec(s, None)       (ignore = None).
   Definitions only; the theorems are in Spec/Base64Facts.v, the test vectors in Spec/Base64Kat.v.

   Text is a [list N] of character codes.  Rust works on u8; the decoder model accepts any N
   and treats everything outside the 64-character alphabet (so also '=', and any value
   >= 128 or >= 256) as "not a base64 character", which is what b64_char_to_byte's 0xff means.

   Machine integers: [acc] is a u16 in both loops.  It is only ever updated by
   [acc = (acc << k) + v] with v < 2^k, so the addition cannot overflow and the shift just
   drops high bits: modelled as [(acc * 2^k) mod 65536 + v].  Shifts right / masks are
   written with [/ 2^k] and [mod 2^k]. *)
From Kestrel Require Import Bytes.
Local Open Scope N_scope.

(* ---- alphabet -------------------------------------------------------------------------- *)

(* b64_byte_to_char: branch-free in Rust; the masks select exactly one of these arms.
   (x is always the result of [& 0x3f]; for x >= 64 every mask is 0 and the result is 0.) *)
Definition b64_char (x : N) : N :=
  if x <? 26 then x + 65            (* 'A' + x *)
  else if x <? 52 then x + 71       (* 'a' + (x - 26) *)
  else if x <? 62 then x - 4        (* '0' + (x - 52) *)
  else if x =? 62 then 43           (* '+' *)
  else if x =? 63 then 47           (* '/' *)
  else 0.

(* b64_char_to_byte: [None] stands for the Rust return value 0xff (anything that is not
   A-Z a-z 0-9 + /; in particular '=' = 61). *)
Definition b64_val (c : N) : option N :=
  if (65 <=? c) && (c <=? 90) then Some (c - 65)
  else if (97 <=? c) && (c <=? 122) then Some (c - 71)
  else if (48 <=? c) && (c <=? 57) then Some (c + 4)
  else if c =? 43 then Some 62
  else if c =? 47 then Some 63
  else None.

(* ---- encode ---------------------------------------------------------------------------- *)

(* inner loop   while acc_len >= 6 { acc_len -= 6; b64[b64_pos++] = char((acc >> acc_len) & 0x3f) }
   Each iteration lowers acc_len by 6, so [fuel = acc_len] iterations always suffice.
   Returns the characters written and the new acc_len. *)
Fixpoint enc_drain (fuel : nat) (acc acc_len : N) : list N * N :=
  match fuel with
  | O => ([], acc_len)
  | S f =>
    if 6 <=? acc_len then
      let acc_len := acc_len - 6 in
      let (o, al) := enc_drain f acc acc_len in
      (b64_char ((acc / 2 ^ acc_len) mod 64) :: o, al)
    else ([], acc_len)
  end.

(* for &v in bin { acc = (acc << 8) + v; acc_len += 8; <inner loop> }
   if acc_len > 0 { b64[b64_pos++] = char((acc << (6 - acc_len)) & 0x3f) }
   (acc_len < 6 after the inner loop, so [6 - acc_len] does not underflow.) *)
Fixpoint enc_loop (b : bytes) (acc acc_len : N) : list N :=
  match b with
  | [] =>
    if 0 <? acc_len then [b64_char (((acc * 2 ^ (6 - acc_len)) mod 65536) mod 64)] else []
  | v :: r =>
    let acc := (acc * 256) mod 65536 + v in
    let acc_len := acc_len + 8 in
    let (o, acc_len) := enc_drain (N.to_nat acc_len) acc acc_len in
    o ++ enc_loop r acc acc_len
  end.

(* b64_len as computed at the top of [encode] for a padded variant *)
Definition b64_len (bin_len : nat) : nat :=
  let nibbles := (bin_len / 3)%nat in
  let remainder := (bin_len - 3 * nibbles)%nat in
  (nibbles * 4 + (if Nat.eqb remainder 0 then 0 else 4))%nat.

(* encode: the loop above, then  while b64_pos < b64_len { b64[b64_pos++] = '=' }.
   encode_to_string allocates encoded_len(bin.len()) = b64_len + 1 bytes (for variant Original
   the bit-twiddling in encoded_len reduces to that), so [b64_maxlen < b64_len] is false and
   Error::Overflow can only come from [nibbles.checked_mul(4)] when bin.len() >= usize::MAX/4,
   which no allocated slice reaches.  String::from_utf8(..).unwrap() cannot panic because every
   output character is ASCII (Base64Facts.b64_encode_no_ws).  Hence encode_to_string always
   returns Ok of this list. *)
Definition b64_encode (b : bytes) : list N :=
  let body := enc_loop b 0 0 in
  body ++ repeat 61 (b64_len (length b) - length body).

(* ---- decode ---------------------------------------------------------------------------- *)

(* skip_padding with ignore = None: consume exactly padding_len '=' characters; any other
   character, or running out of input, is Error::InvalidInput ([None]).  Returns the rest. *)
Fixpoint skip_padding (s : list N) (padding_len : N) : option (list N) :=
  if padding_len =? 0 then Some s
  else match s with
       | [] => None
       | c :: r => if c =? 61 then skip_padding r (padding_len - 1) else None
       end.

(* Everything after the for-loop of [decode].  [premature] is [Some (b64[premature_end..])]
   (the offending character included) or [None] when the loop consumed all input.
   [Some []] means "no error": the bytes already written stand. *)
Definition dec_finish (acc acc_len : N) (premature : option (list N)) : option bytes :=
  (* if acc_len > 4 || (acc & ((1u16 << acc_len).wrapping_sub(1))) != 0 -> InvalidInput *)
  if (4 <? acc_len) || negb (acc mod 2 ^ acc_len =? 0) then None
  else
    let padding_len := acc_len / 2 in
    match premature with
    | Some rest =>
      (* variant Original has padding: remaining = skip_padding(&b64[premature_end..], ..)? *)
      match skip_padding rest padding_len with
      | None => None
      | Some remaining =>
        (* ignore = None: if !remaining.is_empty() -> InvalidInput *)
        match remaining with [] => Some [] | _ :: _ => None end
      end
    | None =>
      (* else if <padded variant> && padding_len != 0 -> InvalidInput *)
      if padding_len =? 0 then Some [] else None
    end.

(* The for-loop of [decode] with ignore = None:
     d = b64_char_to_byte(c); if d == 0xff { premature_end = Some(pos); break }
     acc = (acc << 6) + d; acc_len += 6;
     if acc_len >= 8 { acc_len -= 8; bin[bin_pos++] = (acc >> acc_len) as u8 }
   Bytes are produced in order; an error found later discards them (Rust returns Err).
   decode_to_vec gives [bin] the length of the input and the loop writes at most one byte per
   character consumed, so [bin_pos >= bin_maxlen] never holds: Error::Overflow cannot occur
   and is not modelled. *)
Fixpoint dec_loop (s : list N) (acc acc_len : N) : option bytes :=
  match s with
  | [] => dec_finish acc acc_len None
  | c :: r =>
    match b64_val c with
    | None => dec_finish acc acc_len (Some s)
    | Some d =>
      let acc := (acc * 64) mod 65536 + d in
      let acc_len := acc_len + 6 in
      if 8 <=? acc_len then
        let acc_len := acc_len - 8 in
        option_map (cons ((acc / 2 ^ acc_len) mod 256)) (dec_loop r acc acc_len)
      else dec_loop r acc acc_len
    end
  end.

(* Base64::decode_to_vec(s, None): [None] = Err(Error::InvalidInput). *)
Definition b64_decode (s : list N) : option bytes := dec_loop s 0 0.
