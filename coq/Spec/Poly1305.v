(* Spec/Poly1305.v — RFC 8439 section 2.5: the Poly1305 one-time authenticator.
   Definitions only; total on arbitrary lists of N. *)
From Kestrel Require Import Bytes.
Local Open Scope N_scope.

Definition poly1305_p : N := 2 ^ 130 - 5.

(* 2.5.1  clamp(r): r &= 0x0ffffffc0ffffffc0ffffffc0fffffff *)
Definition poly1305_clamp (r : N) : N := N.land r 0x0ffffffc0ffffffc0ffffffc0fffffff.

(* One step of the accumulator: read the (up to 16-byte) block as a little-endian number with
   one extra 0x01 byte appended ("add one bit beyond the number of octets"), add, multiply by r,
   reduce mod p. *)
Definition poly1305_step (r acc : N) (blk : bytes) : N :=
  ((acc + le_num (blk ++ [1])) * r) mod poly1305_p.

(* 2.5.1  key = r || s (16 bytes each, little-endian); tag = ((acc + s) mod 2^128) as 16 LE bytes.
   [chunks_of 16] is a single linear pass over the message. *)
Definition poly1305_mac (key msg : bytes) : bytes :=
  let r := poly1305_clamp (le_num (firstn 16 key)) in
  let s := le_num (firstn 16 (skipn 16 key)) in
  let acc := fold_left (poly1305_step r) (chunks_of 16 msg) 0 in
  le_bytes 16 ((acc + s) mod 2 ^ 128).
