(* Spec/ChaPolyKat.v — RFC 8439 test vectors, checked by computation. *)
From Kestrel Require Import Bytes.
From Kestrel.Spec Require Import ChaCha20 Poly1305 ChaPoly Hex.
From Coq Require Import String.
Local Open Scope string_scope.
Local Open Scope N_scope.
Local Open Scope list_scope.

Definition key_00_1f : bytes :=
  hx "000102030405060708090a0b0c0d0e0f101112131415161718191a1b1c1d1e1f".
Definition key_80_9f : bytes :=
  hx "808182838485868788898a8b8c8d8e8f909192939495969798999a9b9c9d9e9f".

Definition sunscreen : bytes := ascii_bytes
  "Ladies and Gentlemen of the class of '99: If I could offer you only one tip for the future, sunscreen would be it.".

(* 2.1.1  quarter round *)
Example kat_2_1_1 :
  quarter_round 0x11111111 0x01020304 0x9b8d6f43 0x01234567
  = (0xea2a92f4, 0xcb1cf8ce, 0x4581472e, 0x5881c4bb).
Proof. vm_compute. reflexivity. Qed.

(* 2.3.2  block function *)
Example kat_2_3_2 :
  chacha20_block key_00_1f 1 (hx "000000090000004a00000000")
  = hx "10f1e7e4d13b5915500fdd1fa32071c4
        c7d1f4c733c068030422aa9ac3d46c4e
        d2826446079faa0914c2d705d98b02a2
        b5129cd1de164eb9cbd083e8a2503c4e".
Proof. vm_compute. reflexivity. Qed.

(* 2.4.2  encryption *)
Example kat_2_4_2 :
  chacha20_encrypt key_00_1f 1 (hx "000000000000004a00000000") sunscreen
  = hx "6e2e359a2568f98041ba0728dd0d6981
        e97e7aec1d4360c20a27afccfd9fae0b
        f91b65c5524733ab8f593dabcd62b357
        1639d624e65152ab8f530c359f0861d8
        07ca0dbf500d6a6156a38e088a22b65e
        52bc514d16ccf806818ce91ab7793736
        5af90bbf74a35be6b40b8eedf2785e42
        874d".
Proof. vm_compute. reflexivity. Qed.

(* 2.4.2  and back *)
Example kat_2_4_2_decrypt :
  chacha20_encrypt key_00_1f 1 (hx "000000000000004a00000000")
    (chacha20_encrypt key_00_1f 1 (hx "000000000000004a00000000") sunscreen)
  = sunscreen.
Proof. vm_compute. reflexivity. Qed.

(* 2.5.2  Poly1305 *)
Example kat_2_5_2 :
  poly1305_mac (hx "85d6be7857556d337f4452fe42d506a80103808afb0db2fd4abff6af4149f51b")
               (ascii_bytes "Cryptographic Forum Research Group")
  = hx "a8061dc1305136c6c22b8baf0c0127a9".
Proof. vm_compute. reflexivity. Qed.

(* 2.6.2  Poly1305 key generation *)
Example kat_2_6_2 :
  poly_key_gen key_80_9f (hx "000000000001020304050607")
  = hx "8ad5a08b905f81cc815040274ab29471
        a833b637e3fd0da508dbb8e2fdd1a646".
Proof. vm_compute. reflexivity. Qed.

(* 2.8.2  AEAD *)
Definition aead_nonce : bytes := hx "070000004041424344454647".
Definition aead_ad : bytes := hx "50515253c0c1c2c3c4c5c6c7".
Definition aead_ct : bytes :=
  hx "d31a8d34648e60db7b86afbc53ef7ec2
      a4aded51296e08fea9e2b5a736ee62d6
      3dbea45e8ca9671282fafb69da92728b
      1a71de0a9e060b2905d6a5b67ecd3b36
      92ddbd7f2d778b8c9803aee328091b58
      fab324e4fad675945585808b4831d7bc
      3ff4def08e4b7a9de576d26586cec64b
      6116".
Definition aead_tag_2_8_2 : bytes := hx "1ae10b594f09e26a7e902ecbd0600691".

(* 2.8.2  the one-time Poly1305 key *)
Example kat_2_8_2_polykey :
  poly_key_gen key_80_9f aead_nonce
  = hx "7bac2b252db447af09b67a55a4e955840ae1d6731075d9eb2a9375783ed553ff".
Proof. vm_compute. reflexivity. Qed.

(* 2.8.2  the Poly1305 input *)
Example kat_2_8_2_macdata :
  aead_mac_data aead_ad aead_ct
  = aead_ad ++ hx "00000000" ++ aead_ct ++ hx "0000000000000000000000000000"
    ++ hx "0c00000000000000" ++ hx "7200000000000000".
Proof. vm_compute. reflexivity. Qed.

Example kat_2_8_2_seal :
  aead_seal key_80_9f aead_nonce aead_ad sunscreen = aead_ct ++ aead_tag_2_8_2.
Proof. vm_compute. reflexivity. Qed.

Example kat_2_8_2_open :
  aead_open key_80_9f aead_nonce aead_ad (aead_ct ++ aead_tag_2_8_2) = Some sunscreen.
Proof. vm_compute. reflexivity. Qed.

(* a one-bit change anywhere (tag, body or associated data) is rejected *)
Example kat_2_8_2_open_bad_tag :
  aead_open key_80_9f aead_nonce aead_ad
    (aead_ct ++ hx "1ae10b594f09e26a7e902ecbd0600690") = None.
Proof. vm_compute. reflexivity. Qed.
Example kat_2_8_2_open_bad_body :
  aead_open key_80_9f aead_nonce aead_ad
    (xor_bytes (aead_ct ++ aead_tag_2_8_2) [1] ++ skipn 1 (aead_ct ++ aead_tag_2_8_2)) = None.
Proof. vm_compute. reflexivity. Qed.
Example kat_2_8_2_open_bad_ad :
  aead_open key_80_9f aead_nonce (hx "50515253c0c1c2c3c4c5c6c6") (aead_ct ++ aead_tag_2_8_2) = None.
Proof. vm_compute. reflexivity. Qed.
