(* Spec/Concrete.v — the concrete instance of [prims] built from the Gallina RFC specifications.
   scrypt is a parameter here: Spec/Scrypt.v (RFC 7914) is plugged in by Run/*, or a table filled by
   the harness for the production cost parameter (N = 32768 cannot be evaluated inside Coq). *)
From Kestrel Require Import Bytes BytesFacts Outcome Prims.
From Kestrel.Spec Require Import Sha256 Hmac Hkdf Pbkdf2 HashFacts ChaCha20 Poly1305 ChaPoly ChaPolyFacts X25519.

Definition rfc_prims (scr : bytes -> bytes -> N -> N -> N -> nat -> bytes) : prims :=
  {| p_hash := sha256; p_hmac := hmac_sha256; p_hkdf := hkdf; p_dh := x25519;
     p_seal := aead_seal; p_open := aead_open; p_scrypt := scr |}.

Lemma rfc_aead_ok scr : aead_ok (rfc_prims scr).
Proof.
  constructor; cbn [p_open p_seal rfc_prims].
  - apply aead_open_seal.
  - apply aead_seal_length.
  - apply aead_open_length.
  - apply aead_open_inv.
Qed.

Lemma le_bytes_length n x : length (le_bytes n x) = n.
Proof. revert x; induction n as [|n IH]; intros x; cbn [le_bytes length]; [reflexivity|now rewrite IH]. Qed.

Lemma x25519_length k u : length (x25519 k u) = 32%nat.
Proof. unfold x25519. apply le_bytes_length. Qed.

Lemma rfc_hash_ok scr : (forall pw s n r q l, length (scr pw s n r q l) = l) -> hash_ok (rfc_prims scr).
Proof.
  intros Hs. constructor; cbn [p_hash p_hmac p_hkdf p_dh p_scrypt rfc_prims].
  - apply sha256_length.
  - apply hmac_length.
  - intros s i info n Hn. apply hkdf_length_le. exact Hn.
  - apply x25519_length.
  - exact Hs.
Qed.
