(* Spec/ScryptFullKat.v — complete scrypt (PBKDF2-HMAC-SHA256 envelope included) on known vectors, by vm_compute,
   on BOTH the RFC 7914 specification (Spec/Scrypt.v over the concrete Spec/Pbkdf2.v) and the transcription of
   scrypt.rs (Model/ScryptImpl.v).
     - RFC 7914 section 12, vector 1:  P = "", S = "", N = 16, r = 1, p = 1, dkLen = 64
     - the repository's small vector (src/crypto/src/scrypt.rs, SCRYPT_VECTORS[3]):
         P = "p", S = "s", N = 2, r = 1, p = 1, dkLen = 16
     - the repository's vector 0 (r > 1 together with p > 1): P = "password", S = "salt", N = 2, r = 10, p = 10, 32 *)
From Coq Require Import String.
From Kestrel Require Import Bytes Outcome.
From Kestrel.Spec Require Import Hex Pbkdf2 Scrypt ScryptConcrete.
From Kestrel.Model Require ScryptImpl.
Local Open Scope N_scope.

(* pbkdf2_1 (Spec/ScryptConcrete.v) = PBKDF2-HMAC-SHA256 with iteration count 1: the function both definitions
   are instantiated with; rfc_scrypt / impl_scrypt are these instantiations *)

Definition rfc7914_s12_v1 : bytes := hx
 "77d6576238657b203b19ca42c18a0497f16b4844e3074ae8dfdffa3fede21442
  fcd0069ded0948f8326a753a0fc81f17e8d3e0fb2e0d3628cf35e20c38d18906".

Example spec_rfc7914_s12_v1 : rfc_scrypt [] [] 16 1 1 64 = rfc7914_s12_v1.
Proof. vm_compute. reflexivity. Qed.

Example impl_rfc7914_s12_v1 : impl_scrypt [] [] 16 1 1 64 = Ok rfc7914_s12_v1.
Proof. vm_compute. reflexivity. Qed.

Definition repo_small : bytes := hx "48b0d2a8a3272611984c50ebd630af52".

Example spec_repo_small : rfc_scrypt (str "p") (str "s") 2 1 1 16 = repo_small.
Proof. vm_compute. reflexivity. Qed.

Example impl_repo_small : impl_scrypt (str "p") (str "s") 2 1 1 16 = Ok repo_small.
Proof. vm_compute. reflexivity. Qed.

Definition repo_v0 : bytes := hx "482c858e229055e62f41e0ec819a5ee18bdb87251a534f75acd95ac5e50aa15f".

Example spec_repo_v0 : rfc_scrypt (str "password") (str "salt") 2 10 10 32 = repo_v0.
Proof. vm_compute. reflexivity. Qed.

Example impl_repo_v0 : impl_scrypt (str "password") (str "salt") 2 10 10 32 = Ok repo_v0.
Proof. vm_compute. reflexivity. Qed.
