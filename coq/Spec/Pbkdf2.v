(* Spec/Pbkdf2.v — PBKDF2 with HMAC-SHA-256 (RFC 8018 section 5.2; hLen = 32).  Definitions only. *)
From Kestrel Require Import Bytes.
From Kestrel.Spec Require Import Sha256 Hmac.
Local Open Scope N_scope.

(* one step of the U chain: from (U_{j-1}, U_1 xor ... xor U_{j-1}) to (U_j, U_1 xor ... xor U_j) *)
Definition pbkdf2_step (pw : bytes) (st : bytes * bytes) : bytes * bytes :=
  let u := hmac_sha256 pw (fst st) in (u, xor_bytes (snd st) u).

(* F(P, S, c, i) = U_1 xor ... xor U_c, U_1 = PRF(P, S | INT(i)), U_j = PRF(P, U_{j-1}).
   The chain starts from "U_0" = S | INT(i) and the empty xor (32 zero bytes).
   (The RFC requires c >= 1; c = 0 gives 32 zero bytes here.) *)
Definition pbkdf2_F (pw salt : bytes) (c : N) (i : N) : bytes :=
  snd (N.iter c (pbkdf2_step pw) (salt ++ be32 i, zeros 32)).

(* T_i | T_{i+1} | ... | T_{i+n-1} *)
Fixpoint pbkdf2_blocks (pw salt : bytes) (c : N) (n : nat) (i : N) : bytes :=
  match n with
  | O => []
  | S n' => pbkdf2_F pw salt c i ++ pbkdf2_blocks pw salt c n' (i + 1)
  end.

(* DK = first dkLen bytes of T_1 | ... | T_l, l = ceil(dkLen / 32).
   (The RFC bound dkLen <= (2^32 - 1) * 32 is not checked; INT(i) is i mod 2^32.) *)
Definition pbkdf2 (pw salt : bytes) (c : N) (dklen : nat) : bytes :=
  firstn dklen (pbkdf2_blocks pw salt c ((dklen + 31) / 32) 1).
