(* Spec/Scrypt.v — scrypt as written in RFC 7914 sections 4, 5, 6, over byte strings,
   parametrised by the PBKDF2 function.  Definitions only; no proofs.

   [nat] is used only for structural quantities: r, p, block indices, lengths, and the cost
   parameter N as an iteration count.  All arithmetic on data is in [N]. *)
From Kestrel Require Import Bytes.
From Kestrel.Spec Require Import Salsa.
Local Open Scope N_scope.

(* ---- octets <-> 32-bit little-endian words (RFC 7914 section 3 uses the Salsa20 core
        on a 64-octet string read as sixteen little-endian words) ---- *)
Fixpoint bytes_to_words (b : bytes) : list N :=
  match b with
  | a :: b :: c :: d :: rest => dle32 [a; b; c; d] :: bytes_to_words rest
  | _ => []
  end.
Definition words_to_bytes (w : list N) : bytes := flat_map le32 w.

(* Salsa20/8 Core as a function from 64 octets to 64 octets *)
Definition salsa20_8_bytes (b : bytes) : bytes :=
  words_to_bytes (salsa20_8 (bytes_to_words b)).

(* B[i]: the i-th 64-octet block of B *)
Definition block64 (i : nat) (B : bytes) : bytes := firstn 64 (skipn (64 * i) B).

(* ---- section 4: scryptBlockMix ----
     1. X = B[2 * r - 1]
     2. for i = 0 to 2 * r - 1 do
          T = X xor B[i]
          X = Salsa (T)
          Y[i] = X
     3. B' = (Y[0], Y[2], ..., Y[2 * r - 2], Y[1], Y[3], ..., Y[2 * r - 1])        *)

(* the body of the step-2 loop; the state is (X, Y[0..i-1]) *)
Definition blockmix_step (B : bytes) (st : bytes * list bytes) (i : nat) : bytes * list bytes :=
  let '(X, Y) := st in
  let T := xor_bytes X (block64 i B) in
  let X' := salsa20_8_bytes T in
  (X', Y ++ [X']).

Definition scryptBlockMix (r : nat) (B : bytes) : bytes :=
  let X := block64 (2 * r - 1) B in
  let Y := snd (fold_left (blockmix_step B) (seq 0 (2 * r)) (X, [])) in
  concat (map (fun j => nth (2 * j) Y []) (seq 0 r)) ++
  concat (map (fun j => nth (2 * j + 1) Y []) (seq 0 r)).

(* ---- section 5: scryptROMix ----
     Integerify (B[0] ... B[2 * r - 1]) is the result of interpreting B[2 * r - 1]
     as a little-endian integer.

     1. X = B
     2. for i = 0 to N - 1 do   V[i] = X;  X = scryptBlockMix (X)
     3. for i = 0 to N - 1 do   j = Integerify (X) mod N
                                T = X xor V[j]
                                X = scryptBlockMix (T)
     4. B' = X                                                                       *)
Definition integerify (r : nat) (X : bytes) : N := le_num (block64 (2 * r - 1) X).

(* the body of the step-2 loop; the state is (X, V[0..i-1]) *)
Definition romix_fill_step (r : nat) (st : bytes * list bytes) (i : nat) : bytes * list bytes :=
  let '(X, V) := st in
  (scryptBlockMix r X, V ++ [X]).

(* the body of the step-3 loop *)
Definition romix_mix_step (r : nat) (NN : N) (V : list bytes) (X : bytes) (i : nat) : bytes :=
  let j := integerify r X mod NN in
  let T := xor_bytes X (nth (N.to_nat j) V []) in
  scryptBlockMix r T.

Definition scryptROMix (r : nat) (B : bytes) (NN : nat) : bytes :=
  let '(X, V) := fold_left (romix_fill_step r) (seq 0 NN) (B, []) in
  fold_left (romix_mix_step r (N.of_nat NN) V) (seq 0 NN) X.

(* ---- section 6: scrypt ----
     1. B[0] || ... || B[p - 1] = PBKDF2-HMAC-SHA256 (P, S, 1, p * 128 * r)
     2. for i = 0 to p - 1 do  B[i] = scryptROMix (r, B[i], N)
     3. DK = PBKDF2-HMAC-SHA256 (P, B[0] || ... || B[p - 1], 1, dkLen)              *)
Section WithPBKDF2.
  (* PBKDF2-HMAC-SHA256 with iteration count 1: password, salt, dkLen *)
  Variable pbkdf2 : bytes -> bytes -> nat -> bytes.

  Definition scrypt (pw salt : bytes) (NN r p : nat) (dklen : nat) : bytes :=
    let B := pbkdf2 pw salt (p * 128 * r)%nat in
    let Bi i := firstn (128 * r) (skipn (128 * r * i) B) in
    let B' := concat (map (fun i => scryptROMix r (Bi i) NN) (seq 0 p)) in
    pbkdf2 pw B' dklen.
End WithPBKDF2.
