(* Spec/Sha256.v — executable specification of SHA-256 (FIPS 180-4).
   32-bit words are N values kept below 2^32 by explicit masking.
   Definitions only; lemmas are in Spec/HashFacts.v, known-answer tests in Spec/HashKat.v.
   Intended for inputs satisfying [bytes_ok]; nothing here assumes it. *)
From Kestrel Require Import Bytes.
Local Open Scope N_scope.

(* ---- 32-bit word operations (FIPS 180-4 sections 2.2.2, 3.2) ---- *)
Definition mask32 (x : N) : N := N.land x 0xffffffff.
Definition add32 (a b : N) : N := mask32 (a + b).             (* addition modulo 2^32 *)
Definition not32 (x : N) : N := N.lxor x 0xffffffff.           (* complement of a 32-bit word *)
Definition shr (n x : N) : N := N.shiftr x n.                   (* SHR^n(x) *)
Definition rotr (n x : N) : N :=                                (* ROTR^n(x), 0 < n < 32, x < 2^32 *)
  N.lor (N.shiftr x n) (mask32 (N.shiftl x (32 - n))).

(* ---- section 4.1.2: the six logical functions ---- *)
Definition Ch (x y z : N) : N := N.lxor (N.land x y) (N.land (not32 x) z).
Definition Maj (x y z : N) : N := N.lxor (N.lxor (N.land x y) (N.land x z)) (N.land y z).
Definition bsig0 (x : N) : N := N.lxor (N.lxor (rotr 2 x) (rotr 13 x)) (rotr 22 x).
Definition bsig1 (x : N) : N := N.lxor (N.lxor (rotr 6 x) (rotr 11 x)) (rotr 25 x).
Definition ssig0 (x : N) : N := N.lxor (N.lxor (rotr 7 x) (rotr 18 x)) (shr 3 x).
Definition ssig1 (x : N) : N := N.lxor (N.lxor (rotr 17 x) (rotr 19 x)) (shr 10 x).

(* ---- section 4.2.2: the 64 round constants ---- *)
Definition K256 : list N :=
  [0x428a2f98; 0x71374491; 0xb5c0fbcf; 0xe9b5dba5; 0x3956c25b; 0x59f111f1; 0x923f82a4; 0xab1c5ed5;
   0xd807aa98; 0x12835b01; 0x243185be; 0x550c7dc3; 0x72be5d74; 0x80deb1fe; 0x9bdc06a7; 0xc19bf174;
   0xe49b69c1; 0xefbe4786; 0x0fc19dc6; 0x240ca1cc; 0x2de92c6f; 0x4a7484aa; 0x5cb0a9dc; 0x76f988da;
   0x983e5152; 0xa831c66d; 0xb00327c8; 0xbf597fc7; 0xc6e00bf3; 0xd5a79147; 0x06ca6351; 0x14292967;
   0x27b70a85; 0x2e1b2138; 0x4d2c6dfc; 0x53380d13; 0x650a7354; 0x766a0abb; 0x81c2c92e; 0x92722c85;
   0xa2bfe8a1; 0xa81a664b; 0xc24b8b70; 0xc76c51a3; 0xd192e819; 0xd6990624; 0xf40e3585; 0x106aa070;
   0x19a4c116; 0x1e376c08; 0x2748774c; 0x34b0bcb5; 0x391c0cb3; 0x4ed8aa4a; 0x5b9cca4f; 0x682e6ff3;
   0x748f82ee; 0x78a5636f; 0x84c87814; 0x8cc70208; 0x90befffa; 0xa4506ceb; 0xbef9a3f7; 0xc67178f2].

(* ---- the hash state: exactly eight words, by construction ---- *)
Record state := St { sa : N; sb : N; sc : N; sd : N; se : N; sf : N; sg : N; sh : N }.

(* section 5.3.3: initial hash value *)
Definition H0 : state :=
  St 0x6a09e667 0xbb67ae85 0x3c6ef372 0xa54ff53a 0x510e527f 0x9b05688c 0x1f83d9ab 0x5be0cd19.

(* ---- message schedule as a sliding window of sixteen words:
        at round t the window holds W_t .. W_{t+15} ---- *)
Record sched := Sched {
  w0 : N; w1 : N; w2 : N; w3 : N; w4 : N; w5 : N; w6 : N; w7 : N;
  w8 : N; w9 : N; w10 : N; w11 : N; w12 : N; w13 : N; w14 : N; w15 : N }.

(* W_{t+16} = ssig1(W_{t+14}) + W_{t+9} + ssig0(W_{t+1}) + W_t   (section 6.2.2 step 1) *)
Definition sched_next (w : sched) : sched :=
  let 'Sched a0 a1 a2 a3 a4 a5 a6 a7 a8 a9 a10 a11 a12 a13 a14 a15 := w in
  Sched a1 a2 a3 a4 a5 a6 a7 a8 a9 a10 a11 a12 a13 a14 a15
        (mask32 (ssig1 a14 + a9 + ssig0 a1 + a0)).

(* one round of section 6.2.2 step 3 *)
Definition round (k w : N) (s : state) : state :=
  let 'St a b c d e f g h := s in
  let t1 := mask32 (h + bsig1 e + Ch e f g + k + w) in
  let t2 := mask32 (bsig0 a + Maj a b c) in
  St (add32 t1 t2) a b c (add32 d t1) e f g.

Fixpoint rounds (ks : list N) (w : sched) (s : state) : state :=
  match ks with
  | [] => s
  | k :: ks' => rounds ks' (sched_next w) (round k (w0 w) s)
  end.

(* section 6.2.2: process one 512-bit block given as sixteen words *)
Definition compress (s : state) (w : sched) : state :=
  let t := rounds K256 w s in
  St (add32 (sa s) (sa t)) (add32 (sb s) (sb t)) (add32 (sc s) (sc t)) (add32 (sd s) (sd t))
     (add32 (se s) (se t)) (add32 (sf s) (sf t)) (add32 (sg s) (sg t)) (add32 (sh s) (sh t)).

(* ---- section 5.1.1: padding.  [n] is the byte length; k zero bytes with
        n + 1 + k + 8 = 0 (mod 64); then the 64-bit big-endian bit length ---- *)
Definition pad (m : bytes) : bytes :=
  let n := N.of_nat (length m) in
  m ++ 128 :: zeros (N.to_nat ((119 - n mod 64) mod 64)) ++ be64 (8 * n).

(* section 5.2.1: parse into big-endian 32-bit words (one linear pass) *)
Fixpoint words (l : bytes) : list N :=
  match l with
  | a :: b :: c :: d :: r => de32 [a; b; c; d] :: words r
  | _ => []
  end.

(* fold the compression function over sixteen-word blocks (one linear pass) *)
Fixpoint blocks (ws : list N) (s : state) : state :=
  match ws with
  | a0 :: a1 :: a2 :: a3 :: a4 :: a5 :: a6 :: a7 ::
    a8 :: a9 :: a10 :: a11 :: a12 :: a13 :: a14 :: a15 :: r =>
      blocks r (compress s (Sched a0 a1 a2 a3 a4 a5 a6 a7 a8 a9 a10 a11 a12 a13 a14 a15))
  | _ => s
  end.

(* the digest: the eight state words, big-endian *)
Definition serialize (s : state) : bytes :=
  be32 (sa s) ++ be32 (sb s) ++ be32 (sc s) ++ be32 (sd s) ++
  be32 (se s) ++ be32 (sf s) ++ be32 (sg s) ++ be32 (sh s).

Definition sha256 (m : bytes) : bytes := serialize (blocks (words (pad m)) H0).
