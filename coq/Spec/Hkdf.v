(* Spec/Hkdf.v — HKDF with HMAC-SHA-256 (RFC 5869; HashLen = 32).  Definitions only. *)
From Kestrel Require Import Bytes.
From Kestrel.Spec Require Import Sha256 Hmac.
Local Open Scope N_scope.

(* section 2.2: PRK = HMAC-Hash(salt, IKM); an absent salt is HashLen zero bytes *)
Definition hkdf_extract (salt ikm : bytes) : bytes :=
  hmac_sha256 (match salt with [] => zeros 32 | _ => salt end) ikm.

(* section 2.3: T(i) = HMAC-Hash(PRK, T(i-1) | info | i), T(0) = empty.
   [hkdf_blocks prk info n i tprev] = T(i) | T(i+1) | ... | T(i+n-1), with tprev = T(i-1) *)
Fixpoint hkdf_blocks (prk info : bytes) (n : nat) (i : N) (tprev : bytes) : bytes :=
  match n with
  | O => []
  | S n' => let t := hmac_sha256 prk (tprev ++ info ++ [i]) in
            t ++ hkdf_blocks prk info n' (i + 1) t
  end.

(* OKM = first L bytes of T(1) | ... | T(ceil(L/32)).  The RFC requires L <= 255*32;
   outside that range there is no output and this specification returns []. *)
Definition hkdf_expand (prk info : bytes) (len : nat) : bytes :=
  if Nat.ltb (255 * 32) len then []
  else firstn len (hkdf_blocks prk info ((len + 31) / 32) 1 []).

Definition hkdf (salt ikm info : bytes) (len : nat) : bytes :=
  hkdf_expand (hkdf_extract salt ikm) info len.
