(* Spec/ChaPoly.v — RFC 8439 sections 2.6 and 2.8: AEAD_CHACHA20_POLY1305.
   Definitions only; total on arbitrary lists of N. *)
From Kestrel Require Import Bytes.
From Kestrel.Spec Require Import ChaCha20 Poly1305.
Local Open Scope N_scope.

(* 2.6  one-time Poly1305 key: first 32 bytes of the ChaCha20 block with counter 0 *)
Definition poly_key_gen (key nonce : bytes) : bytes :=
  firstn 32 (chacha20_block key 0 nonce).

(* 2.8  pad16(x): zero bytes bringing |x| up to a multiple of 16 (none if already one) *)
Definition pad16 (x : bytes) : bytes := zeros ((16 - length x mod 16) mod 16).

Definition aead_mac_data (ad ct : bytes) : bytes :=
  ad ++ pad16 ad ++ ct ++ pad16 ct ++
  le64 (N.of_nat (length ad)) ++ le64 (N.of_nat (length ct)).

Definition aead_tag (key nonce ad ct : bytes) : bytes :=
  poly1305_mac (poly_key_gen key nonce) (aead_mac_data ad ct).

(* 2.8  output = ciphertext || 16-byte tag *)
Definition aead_seal (key nonce ad pt : bytes) : bytes :=
  let ct := chacha20_encrypt key 1 nonce pt in
  ct ++ aead_tag key nonce ad ct.

(* 2.8  decryption: recompute the tag over ad and the received body; release the plaintext only
   if the received tag is exactly equal to it *)
Definition aead_open (key nonce ad c : bytes) : option bytes :=
  if (length c <? 16)%nat then None else
  let body := firstn (length c - 16) c in
  let tag := skipn (length c - 16) c in
  if bytes_eqb tag (aead_tag key nonce ad body)
  then Some (chacha20_encrypt key 1 nonce body)
  else None.
