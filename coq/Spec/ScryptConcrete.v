(* Spec/ScryptConcrete.v — scrypt with the CONCRETE PBKDF2-HMAC-SHA256 of Spec/Pbkdf2.v plugged in.
   Definitions only.  Spec/Scrypt.v and Model/ScryptImpl.v are parametrised by the PBKDF2 function
   (password, salt, dkLen; iteration count 1 as RFC 7914 section 6 prescribes); here it is instantiated. *)
From Kestrel Require Import Bytes Outcome.
From Kestrel.Spec Require Import Pbkdf2 Scrypt.
From Kestrel.Model Require ScryptImpl.
Local Open Scope N_scope.

(* PBKDF2-HMAC-SHA256 (P, S, c = 1, dkLen) *)
Definition pbkdf2_1 (pw s : bytes) (n : nat) : bytes := pbkdf2 pw s 1 n.

(* RFC 7914 scrypt (P, S, N, r, p, dkLen) *)
Definition rfc_scrypt (pw salt : bytes) (NN r p dklen : nat) : bytes := Scrypt.scrypt pbkdf2_1 pw salt NN r p dklen.

(* the transcription of src/crypto/src/scrypt.rs::scrypt *)
Definition impl_scrypt (pw salt : bytes) (n r p dk_len : N) : outcome unit bytes :=
  ScryptImpl.scrypt pbkdf2_1 pw salt n r p dk_len.
