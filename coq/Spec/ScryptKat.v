(* Spec/ScryptKat.v — RFC 7914 test vectors (sections 8, 9, 10) by vm_compute. *)
From Coq Require Import String Ascii.
From Kestrel Require Import Bytes Outcome.
From Kestrel.Spec Require Import Salsa Scrypt.
From Kestrel.Model Require ScryptImpl.
Local Open Scope N_scope.

(* hex helper: ignores every character that is not a hex digit *)
Definition hexval (c : ascii) : option N :=
  let n := N_of_ascii c in
  if (48 <=? n) && (n <=? 57) then Some (n - 48)
  else if (97 <=? n) && (n <=? 102) then Some (n - 87)
  else if (65 <=? n) && (n <=? 70) then Some (n - 55)
  else None.
Fixpoint hex_go (s : string) (hi : option N) : bytes :=
  match s with
  | EmptyString => []
  | String c s' =>
      match hexval c, hi with
      | None, _ => hex_go s' hi
      | Some v, None => hex_go s' (Some v)
      | Some v, Some h => (16 * h + v) :: hex_go s' None
      end
  end.
Definition hex (s : string) : bytes := hex_go s None.

(* section 8 *)
Definition salsa_in : bytes := hex
 "7e 87 9a 21 4f 3e c9 86 7c a9 40 e6 41 71 8f 26
  ba ee 55 5b 8c 61 c1 b5 0d f8 46 11 6d cd 3b 1d
  ee 24 f3 19 df 9b 3d 85 14 12 1e 4b 5a c5 aa 32
  76 02 1d 29 09 c7 48 29 ed eb c6 8d b8 b8 c2 5e".
Definition salsa_out : bytes := hex
 "a4 1f 85 9c 66 08 cc 99 3b 81 ca cb 02 0c ef 05
  04 4b 21 81 a2 fd 33 7d fd 7b 1c 63 96 68 2f 29
  b4 39 31 68 e3 c9 e6 bc fe 6b c5 b7 a0 6d 96 ba
  e4 24 cc 10 2c 91 74 5c 24 ad 67 3d c7 61 8f 81".

Example rfc7914_s8_salsa20_8 : salsa20_8_bytes salsa_in = salsa_out.
Proof. vm_compute. reflexivity. Qed.

(* section 9 (r = 1) *)
Definition bm_in : bytes := hex
 "f7 ce 0b 65 3d 2d 72 a4 10 8c f5 ab e9 12 ff dd
  77 76 16 db bb 27 a7 0e 82 04 f3 ae 2d 0f 6f ad
  89 f6 8f 48 11 d1 e8 7b cc 3b d7 40 0a 9f fd 29
  09 4f 01 84 63 95 74 f3 9a e5 a1 31 52 17 bc d7
  89 49 91 44 72 13 bb 22 6c 25 b5 4d a8 63 70 fb
  cd 98 43 80 37 46 66 bb 8f fc b5 bf 40 c2 54 b0
  67 d2 7c 51 ce 4a d5 fe d8 29 c9 0b 50 5a 57 1b
  7f 4d 1c ad 6a 52 3c da 77 0e 67 bc ea af 7e 89".
Definition bm_out : bytes := hex
 "a4 1f 85 9c 66 08 cc 99 3b 81 ca cb 02 0c ef 05
  04 4b 21 81 a2 fd 33 7d fd 7b 1c 63 96 68 2f 29
  b4 39 31 68 e3 c9 e6 bc fe 6b c5 b7 a0 6d 96 ba
  e4 24 cc 10 2c 91 74 5c 24 ad 67 3d c7 61 8f 81
  20 ed c9 75 32 38 81 a8 05 40 f6 4c 16 2d cd 3c
  21 07 7c fe 5f 8d 5f e2 b1 a4 16 8f 95 36 78 b7
  7d 3b 3d 80 3b 60 e4 ab 92 09 96 e5 9b 4d 53 b6
  5d 2a 22 58 77 d5 ed f5 84 2c b9 f1 4e ef e4 25".

Example rfc7914_s9_blockmix : scryptBlockMix 1 bm_in = bm_out.
Proof. vm_compute. reflexivity. Qed.

(* section 10 (r = 1, N = 16); the input is the section 9 input *)
Definition romix_out : bytes := hex
 "79 cc c1 93 62 9d eb ca 04 7f 0b 70 60 4b f6 b6
  2c e3 dd 4a 96 26 e3 55 fa fc 61 98 e6 ea 2b 46
  d5 84 13 67 3b 99 b0 29 d6 65 c3 57 60 1f b4 26
  a0 b2 f4 bb a2 00 ee 9f 0a 43 d1 9b 57 1a 9c 71
  ef 11 42 e6 5d 5a 26 6f dd ca 83 2c e5 9f aa 7c
  ac 0b 9c f1 be 2b ff ca 30 0d 01 ee 38 76 19 c4
  ae 12 fd 44 38 f2 03 a0 e4 e1 c4 7e c3 14 86 1f
  4e 90 87 cb 33 39 6a 68 73 e8 f9 d2 53 9a 4b 8e".

Example rfc7914_s10_romix : scryptROMix 1 bm_in 16 = romix_out.
Proof. vm_compute. reflexivity. Qed.

(* ---- the Rust model on the same vectors ---- *)
Example impl_salsa_xor_s8 :
  ScryptImpl.salsa_xor (repeat 0 16) (bytes_to_words salsa_in) (repeat 0 16)
  = Ok (bytes_to_words salsa_out, bytes_to_words salsa_out).
Proof. vm_compute. reflexivity. Qed.

(* tmp ends as the last Salsa output, i.e. the last 64 octets of B' when r = 1 *)
Example impl_block_mix_s9 :
  ScryptImpl.block_mix (repeat 0 16) (bytes_to_words bm_in) (repeat 0 32) 1
  = Ok (bytes_to_words (skipn 64 bm_out), bytes_to_words bm_out).
Proof. vm_compute. reflexivity. Qed.

Example impl_block_mix_agrees_s9 :
  ScryptImpl.block_mix (repeat 0 16) (bytes_to_words bm_in) (repeat 0 32) 1
  = Ok (bytes_to_words (skipn 64 (scryptBlockMix 1 bm_in)), bytes_to_words (scryptBlockMix 1 bm_in)).
Proof. vm_compute. reflexivity. Qed.

Definition omap_fst4 {A B C D} (m : ScryptImpl.res (A * B * C * D)) : ScryptImpl.res A :=
  obind m (fun t => Ok (fst (fst (fst t)))).
Example impl_smix_s10 :
  omap_fst4 (ScryptImpl.smix bm_in 1 16 (repeat 0 512) (repeat 0 32) (repeat 0 32)) = Ok romix_out.
Proof. vm_compute. reflexivity. Qed.

Example impl_smix_agrees_s10 :
  omap_fst4 (ScryptImpl.smix bm_in 1 16 (repeat 0 512) (repeat 0 32) (repeat 0 32))
  = Ok (scryptROMix 1 bm_in 16).
Proof. vm_compute. reflexivity. Qed.

Example impl_salsa_xor_agrees_s8 :
  ScryptImpl.salsa_xor (repeat 0 16) (bytes_to_words salsa_in) (repeat 0 16)
  = Ok (salsa20_8 (bytes_to_words salsa_in), salsa20_8 (bytes_to_words salsa_in)).
Proof. vm_compute. reflexivity. Qed.
