(* Spec/Salsa.v — the Salsa20/8 core of RFC 7914 section 3, on sixteen 32-bit words.
   A word is an [N] below 2^32.  Definitions only; no proofs.

   RFC 7914 section 3:

     #define R(a,b) (((a) << (b)) | ((a) >> (32 - (b))))
     void salsa20_word_specification(uint32 out[16],uint32 in[16])
     {
       int i;
       uint32 x[16];
       for (i = 0;i < 16;++i) x[i] = in[i];
       for (i = 8;i > 0;i -= 2) {
         x[ 4] ^= R(x[ 0]+x[12], 7);  x[ 8] ^= R(x[ 4]+x[ 0], 9);
         ... (32 such assignments, listed in [double_round_steps]) ...
       }
       for (i = 0;i < 16;++i) out[i] = x[i] + in[i];
     }
*)
From Kestrel Require Import Bytes.
Local Open Scope N_scope.

Definition mask32 : N := 4294967295.

(* uint32 addition *)
Definition add32 (a b : N) : N := N.land (a + b) mask32.

(* R(a,b) on uint32: the left shift drops the bits that leave the word *)
Definition rotl32 (a b : N) : N :=
  N.land (N.lor (N.shiftl a b) (N.shiftr a (32 - b))) mask32.

(* x[i], and x with x[i] := v.  Out-of-range reads give 0, out-of-range writes do nothing;
   all indices used below are literals under 16. *)
Definition wget (x : list N) (i : nat) : N := nth i x 0.
Fixpoint wupd (x : list N) (i : nat) (v : N) : list N :=
  match x, i with
  | [], _ => []
  | _ :: t, O => v :: t
  | h :: t, S i' => h :: wupd t i' v
  end.

(* one assignment   x[a] ^= R(x[b]+x[c], k)   encoded as (a,b,c,k) *)
Definition qstep (x : list N) (s : nat * nat * nat * nat) : list N :=
  let '(a, b, c, k) := s in
  wupd x a (N.lxor (wget x a) (rotl32 (add32 (wget x b) (wget x c)) (N.of_nat k))).

(* the 32 assignments of the loop body, in the order the RFC writes them *)
Definition double_round_steps : list (nat * nat * nat * nat) :=
  [ ( 4, 0,12, 7); ( 8, 4, 0, 9); (12, 8, 4,13); ( 0,12, 8,18);
    ( 9, 5, 1, 7); (13, 9, 5, 9); ( 1,13, 9,13); ( 5, 1,13,18);
    (14,10, 6, 7); ( 2,14,10, 9); ( 6, 2,14,13); (10, 6, 2,18);
    ( 3,15,11, 7); ( 7, 3,15, 9); (11, 7, 3,13); (15,11, 7,18);
    ( 1, 0, 3, 7); ( 2, 1, 0, 9); ( 3, 2, 1,13); ( 0, 3, 2,18);
    ( 6, 5, 4, 7); ( 7, 6, 5, 9); ( 4, 7, 6,13); ( 5, 4, 7,18);
    (11,10, 9, 7); ( 8,11,10, 9); ( 9, 8,11,13); (10, 9, 8,18);
    (12,15,14, 7); (13,12,15, 9); (14,13,12,13); (15,14,13,18) ]%nat.

Definition double_round (x : list N) : list N := fold_left qstep double_round_steps x.

(* out[i] = x[i] + in[i] *)
Fixpoint add32_words (x y : list N) : list N :=
  match x, y with
  | a :: x', b :: y' => add32 a b :: add32_words x' y'
  | _, _ => []
  end.

(* for (i = 8; i > 0; i -= 2): four passes of the double round *)
Definition salsa20_8 (inp : list N) : list N :=
  add32_words (double_round (double_round (double_round (double_round inp)))) inp.
