(* Spec/HashKat.v — known-answer tests for the hash specifications, checked by computation.
   Sources: FIPS 180-4 / NIST example values (SHA-256), RFC 4231 (HMAC-SHA-256),
   RFC 5869 appendix A (HKDF-SHA-256), RFC 7914 section 11 (PBKDF2-HMAC-SHA-256). *)
From Kestrel Require Import Bytes.
From Kestrel.Spec Require Import Sha256 Hmac Hkdf Pbkdf2 Hex.
From Coq Require Import String.
Local Open Scope string_scope.
Local Open Scope N_scope.

(* ---------------- helper self-checks ---------------- *)
Example hx_ex : hx "00ff10Ab" = [0; 255; 16; 171].
Proof. vm_compute. reflexivity. Qed.
Example str_ex : str "abc" = [97; 98; 99].
Proof. vm_compute. reflexivity. Qed.
Example to_hex_ex : to_hex [0; 255; 16; 171] = "00ff10ab"%string.
Proof. vm_compute. reflexivity. Qed.

(* ---------------- SHA-256 (FIPS 180-4) ---------------- *)
Example sha256_abc :
  sha256 (str "abc") = hx "ba7816bf8f01cfea414140de5dae2223b00361a396177a9cb410ff61f20015ad".
Proof. vm_compute. reflexivity. Qed.

Example sha256_empty :
  sha256 [] = hx "e3b0c44298fc1c149afbf4c8996fb92427ae41e4649b934ca495991b7852b855".
Proof. vm_compute. reflexivity. Qed.

Example sha256_448 :
  sha256 (str "abcdbcdecdefdefgefghfghighijhijkijkljklmklmnlmnomnopnopq")
  = hx "248d6a61d20638b8e5c026930c3e6039a33ce45964ff2167f6ecedd419db06c1".
Proof. vm_compute. reflexivity. Qed.

Example sha256_896 :
  sha256 (str "abcdefghbcdefghicdefghijdefghijkefghijklfghijklmghijklmnhijklmnoijklmnopjklmnopqklmnopqrlmnopqrsmnopqrstnopqrstu")
  = hx "cf5b16a778af8380036ce59e7b0492370b249b11e8f07a51afac45037afee9d1".
Proof. vm_compute. reflexivity. Qed.

(* padding boundaries: 55, 56, 63, 64 bytes of 'a' (values from python3 hashlib) *)
Example sha256_a55 :
  sha256 (repeat 97 55) = hx "9f4390f8d30c2dd92ec9f095b65e2b9ae9b0a925a5258e241c9f1e910f734318".
Proof. vm_compute. reflexivity. Qed.
Example sha256_a56 :
  sha256 (repeat 97 56) = hx "b35439a4ac6f0948b6d6f9e3c6af0f5f590ce20f1bde7090ef7970686ec6738a".
Proof. vm_compute. reflexivity. Qed.
Example sha256_a63 :
  sha256 (repeat 97 63) = hx "7d3e74a05d7db15bce4ad9ec0658ea98e3f06eeecf16b4c6fff2da457ddc2f34".
Proof. vm_compute. reflexivity. Qed.
Example sha256_a64 :
  sha256 (repeat 97 64) = hx "ffe054fe7ae0cb6dc65c3af9b61d5209f439851db43d0ba5997337df154668eb".
Proof. vm_compute. reflexivity. Qed.

(* ---------------- HMAC-SHA-256 (RFC 4231) ---------------- *)
Example hmac_rfc4231_1 :
  hmac_sha256 (repeat 0x0b 20) (str "Hi There")
  = hx "b0344c61d8db38535ca8afceaf0bf12b881dc200c9833da726e9376c2e32cff7".
Proof. vm_compute. reflexivity. Qed.

Example hmac_rfc4231_2 :
  hmac_sha256 (str "Jefe") (str "what do ya want for nothing?")
  = hx "5bdcc146bf60754e6a042426089575c75a003f089d2739839dec58b964ec3843".
Proof. vm_compute. reflexivity. Qed.

Example hmac_rfc4231_3 :
  hmac_sha256 (repeat 0xaa 20) (repeat 0xdd 50)
  = hx "773ea91e36800e46854db8ebd09181a72959098b3ef8c122d9635514ced565fe".
Proof. vm_compute. reflexivity. Qed.

Example hmac_rfc4231_4 :
  hmac_sha256 (hx "0102030405060708090a0b0c0d0e0f10111213141516171819") (repeat 0xcd 50)
  = hx "82558a389a443c0ea4cc819899f2083a85f0faa3e578f8077a2e3ff46729665b".
Proof. vm_compute. reflexivity. Qed.

Example hmac_rfc4231_6 :
  hmac_sha256 (repeat 0xaa 131) (str "Test Using Larger Than Block-Size Key - Hash Key First")
  = hx "60e431591ee0b67f0d8a26aacbf5b77f8e0bc6213728c5140546040f0ee37f54".
Proof. vm_compute. reflexivity. Qed.

Example hmac_rfc4231_7 :
  hmac_sha256 (repeat 0xaa 131)
    (str "This is a test using a larger than block-size key and a larger than block-size data. The key needs to be hashed before being used by the HMAC algorithm.")
  = hx "9b09ffa71b942fcb27635fbcd5b0e944bfdc63644f0713938a7f51535c3a35e2".
Proof. vm_compute. reflexivity. Qed.

(* ---------------- HKDF-SHA-256 (RFC 5869 appendix A.1 - A.3) ---------------- *)
Example hkdf_rfc5869_1_prk :
  hkdf_extract (hx "000102030405060708090a0b0c") (repeat 0x0b 22)
  = hx "077709362c2e32df0ddc3f0dc47bba6390b6c73bb50f9c3122ec844ad7c2b3e5".
Proof. vm_compute. reflexivity. Qed.

Example hkdf_rfc5869_1 :
  hkdf (hx "000102030405060708090a0b0c") (repeat 0x0b 22) (hx "f0f1f2f3f4f5f6f7f8f9") 42
  = hx "3cb25f25faacd57a90434f64d0362f2a2d2d0a90cf1a5a4c5db02d56ecc4c5bf34007208d5b887185865".
Proof. vm_compute. reflexivity. Qed.

Definition tc2_ikm  := hx "000102030405060708090a0b0c0d0e0f101112131415161718191a1b1c1d1e1f202122232425262728292a2b2c2d2e2f303132333435363738393a3b3c3d3e3f404142434445464748494a4b4c4d4e4f".
Definition tc2_salt := hx "606162636465666768696a6b6c6d6e6f707172737475767778797a7b7c7d7e7f808182838485868788898a8b8c8d8e8f909192939495969798999a9b9c9d9e9fa0a1a2a3a4a5a6a7a8a9aaabacadaeaf".
Definition tc2_info := hx "b0b1b2b3b4b5b6b7b8b9babbbcbdbebfc0c1c2c3c4c5c6c7c8c9cacbcccdcecfd0d1d2d3d4d5d6d7d8d9dadbdcdddedfe0e1e2e3e4e5e6e7e8e9eaebecedeeeff0f1f2f3f4f5f6f7f8f9fafbfcfdfeff".

Example hkdf_rfc5869_2_prk :
  hkdf_extract tc2_salt tc2_ikm
  = hx "06a6b88c5853361a06104c9ceb35b45cef760014904671014a193f40c15fc244".
Proof. vm_compute. reflexivity. Qed.

Example hkdf_rfc5869_2 :
  hkdf tc2_salt tc2_ikm tc2_info 82
  = hx "b11e398dc80327a1c8e7f78c596a49344f012eda2d4efad8a050cc4c19afa97c59045a99cac7827271cb41c65e590e09da3275600c2f09b8367793a9aca3db71cc30c58179ec3e87c14c01d5c1f3434f1d87".
Proof. vm_compute. reflexivity. Qed.

Example hkdf_rfc5869_3_prk :
  hkdf_extract [] (repeat 0x0b 22)
  = hx "19ef24a32c717b167f33a91d6f648bdf96596776afdb6377ac434c1c293ccb04".
Proof. vm_compute. reflexivity. Qed.

Example hkdf_rfc5869_3 :
  hkdf [] (repeat 0x0b 22) [] 42
  = hx "8da4e775a563c18f715f802a063c5a31b8a11f5c5ee1879ec3454e5f3c738d2d9d201395faa4b61a96c8".
Proof. vm_compute. reflexivity. Qed.

(* range behaviour of this specification: L = 255*32 is the last valid length *)
Example hkdf_max_len : List.length (hkdf [] [] [] (255 * 32)) = (255 * 32)%nat.
Proof. vm_compute. reflexivity. Qed.
Example hkdf_over_len : hkdf [] [] [] (255 * 32 + 1) = [].
Proof. vm_compute. reflexivity. Qed.

(* ---------------- PBKDF2-HMAC-SHA-256 ---------------- *)
(* RFC 7914 section 11: P = "passwd", S = "salt", c = 1, dkLen = 64 *)
Example pbkdf2_rfc7914_1 :
  pbkdf2 (str "passwd") (str "salt") 1 64
  = hx "55ac046e56e3089fec1691c22544b605f94185216dde0465e68b9d57c20dacbc49ca9cccf179b645991664b39d77ef317c71b845b1e30bd509112041d3a19783".
Proof. vm_compute. reflexivity. Qed.

(* iteration count > 1 and a truncated final block (values from python3 hashlib.pbkdf2_hmac) *)
Example pbkdf2_c2 :
  pbkdf2 (str "password") (str "salt") 2 32
  = hx "ae4d0c95af6b46d32d0adff928f06dd02a303f8ef3c251dfd6e2d85a95474c43".
Proof. vm_compute. reflexivity. Qed.

Example pbkdf2_c3_len40 :
  pbkdf2 (str "passwordPASSWORDpassword") (str "saltSALTsaltSALTsaltSALTsaltSALTsalt") 3 40
  = hx "325651a5ca818d11f4331cb0c300d6f8b68790c75a09ebad494e74b3f649475856c392e03e00705f".
Proof. vm_compute. reflexivity. Qed.
