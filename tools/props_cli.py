"""props_cli - keyring- and CLI-level properties C12..C17 (registered into props.REGISTRY).

Part A (in-process): harness/clidrv with KESTREL_VERIF_DRIVER=1 against the Gallina runners of
coq/Run/RunKeyring.v (Model/KeyringText.v, Model/Keyring.v, Spec/Base64.v), plus direct oracles.
Part B (real processes): the clidrv binary run as the kestrel CLI; direct oracles only, with a
`model_expect(world, argv)` hook for a future CLI model."""
import base64, collections, hashlib, itertools, os, shutil, subprocess, tempfile, time
from concurrent.futures import ThreadPoolExecutor

import vlib
import props
from vlib import Case, hexs, unhex
from props import Prop, Ctx

NPROC = vlib.NPROC
VERSION = bytes([0x65, 0x67, 0x6B, 0x30])

# ------------------------------------------------------------------ text helpers
# char::is_whitespace (Unicode White_Space)
RUST_WS = set([0x20, 0x85, 0xA0, 0x1680, 0x2028, 0x2029, 0x202F, 0x205F, 0x3000]) | set(range(9, 14)) | set(range(0x2000, 0x200B))


def rust_trim(s):
    a, b = 0, len(s)
    while a < b and ord(s[a]) in RUST_WS:
        a += 1
    while b > a and ord(s[b - 1]) in RUST_WS:
        b -= 1
    return s[a:b]


def g_text(b):
    """UTF-8 bytes -> Gallina list of scalar values"""
    s = b.decode("utf-8")
    return "[" + "; ".join(str(ord(ch)) for ch in s) + "]" if s else "[]"


def b64_lenient(s):
    """bytes of text -> decoded bytes or None (standard alphabet, '=' padding required; trailing bits ignored)"""
    try:
        return base64.b64decode(s, validate=True)
    except Exception:
        return None


# ------------------------------------------------------------------ parse-error messages -> perr_kind code
PERR_PREFIX = "Failed to parse list of keys: "
PERR = [
    "Key must have a Name", "Key must have a PublicKey", "Key must have a Name and PublicKey",
    "Name found outside of [Key] section", "Duplicate Name found", "Name must be set to something", "Invalid Name",
    "PublicKey found outside of [Key] section", "Duplicate PublicKey found", "PublicKey must be set to something",
    "Malformed public key",
    "PrivateKey found outside of [Key] section", "Duplicate PrivateKey found", "PrivateKey must be set to something",
    "Malformed private key",
    "Invalid data found in configuration file", "No keys found in configuration file",
    "Found duplicate name: ", "Found duplicate public key: ",
]


def perr_code(msg):
    if not msg.startswith(PERR_PREFIX):
        return 199
    m = msg[len(PERR_PREFIX):]
    for i, t in enumerate(PERR):
        if (i >= 17 and m.startswith(t)) or m == t:
            return 101 + i
    return 199


TRY_MSG = {"Invalid Public Key length": 131, "Invalid Public Key format": 132,
           "Invalid Private Key length": 131, "Could not decode private key": 132}


# ------------------------------------------------------------------ drivers in parallel
def _drive(binp, lines, env, timeout):
    """like vlib.run_driver, with an environment"""
    res = {}
    pending = list(lines)
    guard = 0
    while pending and guard < 50:
        guard += 1
        rc, out = vlib.sh([binp], inp="\n".join(pending) + "\n", timeout=timeout, env=env)
        got = 0
        for l in out.splitlines():
            if not l or " " not in l:
                continue
            res[l.split()[0]] = l
            got += 1
        if got >= len(pending):
            break
        rid = pending[got].split()[0]
        res[rid] = "%s outcome=abort rc=%d" % (rid, rc)
        pending = pending[got + 1:]
    return res


def drive_par(binp, lines, env=None, timeout=900, min_shard=4):
    if not lines:
        return {}
    n = max(1, min(NPROC, len(lines) // min_shard))
    shards = [lines[i::n] for i in range(n)]
    res = {}
    with ThreadPoolExecutor(max_workers=n) as ex:
        for r in ex.map(lambda s: _drive(binp, s, env, timeout), shards):
            res.update(r)
    return res


DRV_ENV = {"KESTREL_VERIF_DRIVER": "1"}


def cli_ops(lines):
    """raw ops on the clidrv driver: list of 'op args' -> list of key/value dicts"""
    res = drive_par(vlib.CLIDRV, ["%d %s" % (i, l) for i, l in enumerate(lines)], env=DRV_ENV)
    out = []
    for i in range(len(lines)):
        kv = {}
        for p in res.get(str(i), "x outcome=missing").split()[1:]:
            k, _, v = p.partition("=")
            kv[k] = v
        out.append(kv)
    return out


def lib_ops(binp, lines):
    res = drive_par(binp, ["%d %s" % (i, l) for i, l in enumerate(lines)])
    out = []
    for i in range(len(lines)):
        kv = {}
        for p in res.get(str(i), "x outcome=missing").split()[1:]:
            k, _, v = p.partition("=")
            kv[k] = v
        out.append(kv)
    return out


# ------------------------------------------------------------------ cases of the in-process driver
class KCase(Case):
    """op + args.  Text arguments are UTF-8 bytes.  ops: kr_parse(text[, toks]) kr_get(text,name)
    kr_name_from_key(text,pk) pk_try(s) sk_try(s) pk_encode(pk) pk_decode(s) sk_lock(sk,pw,salt)
    sk_unlock(s,pw) valid_name(s) serialize_key(name,pk,sk) and the synthetic chpass_seq(locked,pw0,steps)"""
    synthetic = False

    def rust_line(self):
        a, op = self.a, self.op
        if op == "kr_parse":
            body = hexs(a["text"])
        elif op == "kr_get":
            body = "%s %s" % (hexs(a["text"]), hexs(a["name"]))
        elif op == "kr_name_from_key":
            body = "%s %s" % (hexs(a["text"]), hexs(a["pk"]))
        elif op in ("pk_try", "sk_try", "pk_decode", "valid_name"):
            body = hexs(a["s"])
        elif op == "pk_encode":
            body = hexs(a["pk"])
        elif op == "sk_lock":
            body = "%s %s %s" % (hexs(a["sk"]), hexs(a["pw"]), hexs(a["salt"]))
        elif op == "sk_unlock":
            body = "%s %s" % (hexs(a["s"]), hexs(a["pw"]))
        elif op == "serialize_key":
            body = "%s %s %s" % (hexs(a["name"]), hexs(a["pk"]), hexs(a["sk"]))
        elif op == "chpass_seq":
            body = "%s %s %s" % (hexs(a["locked"]), hexs(a["pw0"]), ",".join("%s:%s" % (p or "-", s) for p, s in a["steps"]))
        elif op == "parse":
            # argv: list of hex strings (complete argv incl. the program name)
            body = " ".join([str(len(a["argv"]))] + [(x or "-") for x in a["argv"]])
        else:
            raise ValueError(op)
        return "%s %s %s" % (self.id, op, body)

    def model_term(self):
        a, op = self.a, self.op
        gb = vlib.g_bytes
        if op == "kr_parse":
            if a.get("toks") is not None:
                return "run_kr_parse (lns [%s])" % "; ".join("tk%d" % t for t in a["toks"])
            return "run_kr_parse %s" % g_text(a["text"])
        if op == "kr_get":
            return "run_kr_get %s %s" % (g_text(a["text"]), g_text(a["name"]))
        if op == "kr_name_from_key":
            return "run_kr_name_from_key %s %s" % (g_text(a["text"]), g_text(a["pk"]))
        if op in ("pk_try", "sk_try", "pk_decode", "valid_name"):
            return "run_%s %s" % (op, g_text(a["s"]))
        if op == "pk_encode":
            return "run_pk_encode %s" % gb(a["pk"])
        if op == "sk_lock":
            return "run_sk_lock T %s %s %s" % (gb(a["sk"]), gb(a["pw"]), gb(a["salt"]))
        if op == "sk_unlock":
            return "run_sk_unlock T %s %s" % (g_text(a["s"]), gb(a["pw"]))
        if op == "serialize_key":
            return "run_serialize_key %s %s %s" % (g_text(a["name"]), g_text(a["pk"]), g_text(a["sk"]))
        if op == "parse":
            if a.get("voc") is not None:
                return "run_cli_parse (av0 :: [%s])" % "; ".join("av%d" % t for t in a["voc"])
            return "run_cli_parse [%s]" % "; ".join(g_text(bytes.fromhex(x)) for x in a["argv"])
        if op == "chpass_seq":
            steps = "; ".join("(%s, %s)" % (gb(bytes.fromhex(p)), gb(bytes.fromhex(s))) for p, s in a["steps"])
            return "run_chpass_seq T %s %s [%s]" % (g_text(a["locked"]), gb(a["pw0"]), steps)
        raise ValueError(op)

    def kdf_need(self):
        a, op = self.a, self.op
        if op == "sk_lock":
            return [(a["pw"], a["salt"])]
        if op == "sk_unlock":
            d = b64_lenient(a["s"])
            if d is not None and len(d) >= 36:
                return [(a["pw"], d[4:36])]
            return []
        if op == "chpass_seq":
            out = []
            d = b64_lenient(a["locked"])
            if d is not None and len(d) >= 36:
                out.append((a["pw0"], d[4:36]))
            for p, s in a["steps"]:
                out.append((bytes.fromhex(p), bytes.fromhex(s)))
            return out
        return []


def flat_entry(name, pub, priv):
    return name + b"\n" + pub + b"\n" + (b"N" if priv is None else b"S" + priv) + b"\n"


def kparse_result(c, line):
    parts = line.split()
    kv = {}
    for p in parts[1:]:
        k, _, v = p.partition("=")
        kv[k] = v
    o = kv.get("outcome", "badline")
    op = c.op
    code, out, entries = 999, b"", None
    msg = unhex(kv["msg"]).decode("utf-8", "replace") if "msg" in kv else ""
    extra = b""
    if op == "parse" and o == "ok":
        code, out, extra = parse_reply_obs(kv)
        o = "ok:" + kv.get("cmd", "?")
    elif o == "panic":
        code = 1
    elif o == "err" and kv.get("kind") == "ParseConfig":
        code = perr_code(msg)
    elif op == "kr_parse" and o == "ok":
        names = [unhex(x) for x in kv["names"].split(",")]
        pubs = [unhex(x) for x in kv["pubs"].split(",")]
        privs = [None if x == "none" else unhex(x) for x in kv["privs"].split(",")]
        entries = list(zip(names, pubs, privs))
        code, out = 0, b"".join(flat_entry(*e) for e in entries)
        if int(kv.get("n", "-1")) != len(entries):
            code = 997
    elif op == "kr_get" and o == "ok":
        e = (unhex(kv["name"]), unhex(kv["pub"]), None if kv["priv"] == "none" else unhex(kv["priv"]))
        entries = [e]
        code, out = 0, flat_entry(*e)
    elif op == "kr_name_from_key" and o == "ok":
        code, out = 0, unhex(kv["name"])
    elif op in ("kr_get", "kr_name_from_key") and o == "none":
        code = 5
    elif o == "err:TryFrom" or (op in ("pk_try", "sk_try") and o == "err"):
        code = TRY_MSG.get(msg, 139)
    elif op in ("pk_try", "sk_try") and o == "ok":
        code = 0
    elif o == "ok":
        code, out = 0, unhex(kv.get("out", "-"))
    elif op == "pk_decode" and o in ("err:Checksum", "err:Length"):
        code = 121 if o == "err:Checksum" else 122
    elif op == "sk_unlock" and o in ("err:Decrypt", "err:Length", "err:Format"):
        code = {"err:Decrypt": 123, "err:Length": 124, "err:Format": 125}[o]
    elif op == "serialize_key" and o in ("err:TryFromPk", "err:TryFromSk"):
        code = 133 if o == "err:TryFromPk" else 134
    return {"id": parts[0], "code": code, "outcome": o, "out": out, "consumed": 0, "trace": [], "extra": extra,
            "raw": line, "entries": entries, "msg": msg, "kv": kv}


PARSE_KIND = {"help": 21, "version": 22, "encrypt": 23, "decrypt": 24, "key_generate": 25, "key_change_pass": 26,
              "key_extract_pub": 27, "pass_encrypt": 28, "pass_decrypt": 29, "usage": 30, "argerr": 31}
PARSE_FIELDS = {"encrypt": ["?infile", "to", "from", "?outfile", "?keyring", "!env_pass"],
                "decrypt": ["?infile", "to", "?outfile", "?keyring", "!env_pass"],
                "key_generate": ["?outfile", "!env_pass"], "key_change_pass": ["private_key", "!env_pass"],
                "key_extract_pub": ["private_key", "!env_pass"], "pass_encrypt": ["?infile", "?outfile", "!env_pass"],
                "pass_decrypt": ["?infile", "?outfile", "!env_pass"]}


def parse_reply_obs(kv):
    """the driver's `parse` reply in the canonical form of Run/RunCli.v::parse_obs"""
    cmd = kv.get("cmd", "?")
    code = PARSE_KIND.get(cmd, 999)
    if cmd == "usage":
        return code, unhex(kv.get("msg", "-")), unhex(kv.get("full", "-"))
    if cmd == "argerr":
        return code, b"", unhex(kv.get("full", "-"))
    out = b""
    for f in PARSE_FIELDS.get(cmd, []):
        if f[0] == "?":
            v = kv.get(f[1:], "none")
            out += (b"N" if v == "none" else b"S" + unhex(v)) + b"\x00"
        elif f[0] == "!":
            out += kv.get(f[1:], "?").encode() + b"\x00"
        else:
            out += unhex(kv.get(f, "-")) + b"\x00"
    return code, out, b""


def run_impl_k(cases, timeout=900):
    real = [c for c in cases if not c.synthetic]
    for i, c in enumerate(cases):
        c.id = str(i + 1)
    res = drive_par(vlib.CLIDRV, [c.rust_line() for c in real], env=DRV_ENV, timeout=timeout)
    for c in real:
        c.result = kparse_result(c, res.get(c.id, "%s outcome=missing" % c.id))


def kdf_table_par(libdrv, cases):
    need, seen = [], set()
    for c in cases:
        for pw, salt in c.kdf_need():
            if (pw, salt) not in seen:
                seen.add((pw, salt))
                need.append((pw, salt))
    if not need:
        return []
    rs = lib_ops(libdrv, ["scrypt %s %s 32768 8 1 32" % (hexs(pw), hexs(salt)) for pw, salt in need])
    return [(pw, salt, unhex(r["out"])) for (pw, salt), r in zip(need, rs) if r.get("outcome") == "ok"]


def nocrash(r):
    if r["code"] == 1 or r["code"] >= 900:
        return ("a result or an error value, never a panic/abort", r["outcome"])
    return None


class KProp(Prop):
    """in-process keyring properties: implementation = clidrv driver, model = Run/RunKeyring.v"""
    run_modules = ("Run/RunLib.v", "Run/RunKeyring.v", "Run/RunCli.v")   # MODEL_IMPORT
    trusted_extra = ["harness/clidrv in-process driver (KESTREL_VERIF_DRIVER) and coq/Run/RunKeyring.v (observation rendering, UTF-8)"]

    def build(self, ctx):
        super().build(ctx)
        if ctx.harness_ok and not os.path.exists(vlib.CLIDRV):
            ctx.harness_ok = False
            ctx.broken.append({"kind": "correspondence", "what": "clidrv was not built"})

    def count(self, ctx, key, n=1):
        ctx.distribution[key] = ctx.distribution.get(key, 0) + n

    def run_kcases(self, ctx, cases, model=True, prelude="", tag=None):
        k_run_cases(ctx, cases, model, prelude, tag)

    def replay(self, ctx, payload):
        return k_replay(ctx, payload)


MODEL_IMPORT = " RunKeyring RunCli"


def k_run_cases(ctx, cases, model=True, prelude="", tag=None):
    """run cases on the clidrv driver (synthetic cases bring their own result), evaluate the direct oracles, compare with
    the model; fills ctx like Prop.run_cases.  Usable from any Prop (C09 calls it for the argv half)."""
    if True:
        if not cases:
            return
        run_impl_k(cases)
        ctx.evaluations += len(cases)
        dist = collections.Counter(ctx.distribution)
        seen = set()
        for c in cases:
            dist["op:" + c.op] += 1
            dist["outcome:%s" % ("ok" if c.result["code"] == 0 else "code%d" % c.result["code"])] += 1
            for t in c.tags:
                dist["gen:" + t] += 1
            line = c.rust_line().split(" ", 1)[1]
            if line not in seen:
                seen.add(line)
                if "trivial" not in c.tags:
                    ctx.distinct_nontrivial += 1
        ctx.distribution = dict(dist)
        for c in cases:
            for fn in ([nocrash] + ([c.expect_fn] if c.expect_fn else [])):
                ctx.oracle_checks += 1
                msg = fn(c.result)
                if msg:
                    ctx.violations.append({"input": c.full(), "expected": msg[0], "observed": msg[1],
                                           "finding_key": msg[2] if len(msg) > 2 else None})
                    break
        if model:
            table = kdf_table_par(ctx.bin, cases)
            tg = tag or ctx.pid
            log = vlib.run_model(cases, table, tg, extra_import=MODEL_IMPORT, prelude=prelude)
            bad = [c for c in cases if c.agree is not True]
            ctx.agreed += len(cases) - len(bad)
            if bad:
                shown = vlib.run_model(bad[:6], table, tg + "s", extra_import=MODEL_IMPORT, prelude=prelude, show=True)
                for c in bad[:20]:
                    ctx.disagreements.append({"input": c.full(), "implementation": c.result["raw"][:600],
                                              "implementation_code": c.result["code"],
                                              "model": shown.get(c.id, "model evaluation failed" if c.agree is None else "?")})
                ctx.broken.append({"kind": "correspondence",
                                   "what": "correspondence %s: model and implementation differ on %d of %d cases%s"
                                           % (ctx.pid, len(bad), len(cases), (" [" + log[-200:] + "]") if log else "")})
        if len(ctx.samples) < 6:
            step = max(1, len(cases) // 6)
            for c in cases[::step][:6 - len(ctx.samples)]:
                d = c.summary()
                d["implementation"] = c.result["outcome"]
                ctx.samples.append(d)


def k_replay(ctx, payload):
    if True:
        d = payload["input"]
        if d.get("kind") == "proc":
            return {"holds": None, "note": "process-level case: re-run the listed commands", "commands": d.get("commands")}
        a = {}
        for k, v in d.items():
            if k in ("op", "tags"):
                continue
            a[k] = bytes.fromhex(v) if isinstance(v, str) else v
        if d["op"] == "cli" and d.get("kvw"):
            tree = {k: bytes.fromhex(v) for k, v in d["files"].items()}
            tree.update({k: None for k in d.get("dirs", [])})
            c = KvwCase(d["label"], d["argv"], tree, cwd=d.get("cwd", ""), pw=None if d["pw"] is None else bytes.fromhex(d["pw"]),
                        npw=None if d["npw"] is None else bytes.fromhex(d["npw"]), keyring_env=d["keyring_env"], stdin=bytes.fromhex(d["stdin"]),
                        rnd=bytes.fromhex(d["rnd"]))
            root = tempfile.mkdtemp(prefix="kv_replay_", dir="/tmp")
            try:
                kvw_exec_cases([c], root)
            finally:
                shutil.rmtree(root, ignore_errors=True)
            c.id = "1"
            table = kdf_table_par(ctx.bin, [c])
            vlib.run_model([c], table, ctx.pid + "r", extra_import=MODEL_IMPORT, prelude=cli_prelude())
            return {"holds": bool(c.agree) and nocrash(c.result) is None, "implementation": c.result["raw"], "model_agrees": c.agree,
                    "model": model_expect_case(ctx, c), "expected": payload.get("expected")}
        if d["op"] == "cli":
            c = CliCase(d["label"], d["argv"], {k: bytes.fromhex(v) for k, v in d["files"].items()},
                        pw=None if d["pw"] is None else bytes.fromhex(d["pw"]), npw=None if d["npw"] is None else bytes.fromhex(d["npw"]),
                        keyring_env=d["keyring_env"], stdin=bytes.fromhex(d["stdin"]), rnd=bytes.fromhex(d["rnd"]), watch=d["watch"])
            root = tempfile.mkdtemp(prefix="kv_replay_", dir="/tmp")
            try:
                exec_cli_cases([c], root)
            finally:
                shutil.rmtree(root, ignore_errors=True)
            c.id = "1"
            table = kdf_table_par(ctx.bin, [c])
            vlib.run_model([c], table, ctx.pid + "r", extra_import=MODEL_IMPORT, prelude=cli_prelude())
            return {"holds": bool(c.agree) and nocrash(c.result) is None, "implementation": c.result["raw"], "model_agrees": c.agree,
                    "model": model_expect_case(ctx, c), "expected": payload.get("expected")}
        c = KCase(d["op"], **a)
        if c.op == "chpass_seq":
            return {"holds": None, "note": "synthetic history: re-run the check with the recorded seed"}
        run_impl_k([c])
        table = kdf_table_par(ctx.bin, [c])
        vlib.run_model([c], table, ctx.pid + "r", extra_import=MODEL_IMPORT)
        return {"holds": bool(c.agree) and nocrash(c.result) is None, "implementation": c.result["raw"][:1000],
                "model_agrees": c.agree, "expected": payload.get("expected")}


# =========================================================================== shared key material
def make_keys(ctx, n):
    """n key pairs: (sk, pk, encoded pk text) - X25519 by libdrv, encoding by the CLI's encode_public_key"""
    sks = [ctx.rbytes(32) for _ in range(n)]
    pks = [unhex(r["out"]) for r in lib_ops(ctx.bin, ["xpub " + hexs(k) for k in sks])]
    encs = [unhex(r["out"]) for r in cli_ops(["pk_encode " + hexs(p) for p in pks])]
    return list(zip(sks, pks, encs))


def lock_keys(items):
    """[(sk, pw, salt)] -> locked strings (text bytes)"""
    return [unhex(r["out"]) for r in cli_ops(["sk_lock %s %s %s" % (hexs(s), hexs(p), hexs(t)) for s, p, t in items])]


# =========================================================================== C17
WS_EXOTIC = ["\u0085", "\u00a0", "\u2028", "\u3000", "\t", "\r", " ", "\u000b", "\u2003"]
NOT_WS = ["\u200b", "\ufeff", "\u180e", "\u001c"]


def long_names():
    e, eu, sm = "\u00e9", "\u20ac", "\U0001F600"
    return [e * 63 + "a", e * 64, e * 64 + "a", e * 65, eu * 42 + "ab", eu * 42 + "abc", eu * 43, sm * 32, sm * 32 + "a",
            "a" * 127, "a" * 128, "a" * 129, "n" * 100 + e * 14, "n" * 100 + e * 14 + "x", e * 100]


class C17(KProp):
    id = "C17"
    rule = ("cases: EXHAUSTIVE sequences of line tokens {[Key], Name x2 (alice / Alice), PublicKey x2 valid + 1 malformed, PrivateKey 1 valid "
            "+ 1 malformed, comment, blank, junk} up to 5 lines (thorough 7), extended only below prefixes that have not "
            "already failed in the line loop (a failed prefix is kept once, plus a random sample of its extensions); random "
            "UTF-8 keyrings with exotic white space, line terminators, '=' placement, prefix look-alikes, names of 127/128/129 "
            "bytes; every single-character corruption of an encoded public key; lookups by name/key; serialize_key outputs "
            "parsed back; real 'key generate' processes (-o fresh file / -o existing keyring / standard output) whose prompt is answered "
            "with a name inside every kind of white space (each char::is_whitespace character, ASCII and not), blank-only answers, "
            "look-alikes that are not white space, blanks inside, 127..129-byte names inside white space, LF / CRLF / no line end / "
            "further lines: what was written (the Name and PublicKey lines) must parse back to exactly that, be found by name, and "
            "(sampled) encrypt and decrypt under the written name; 8 of these runs compared with the CLI model (trim = str::trim); "
            "every kr_parse case also against an independent reference reader of the format (tools/props_kvs.py::ref_parse); names that read like "
            "another field (another entry's PublicKey / PrivateKey text listed before or after, keywords, option-looking strings): lookups by "
            "name return exactly the section carrying the name, in process and through encrypt --to= / decrypt --to=; LARGE keyrings behind -k of "
            "the real program (contacts + comment blocks; the key under test first, last, and with the offsets 4 KiB, 8 KiB, 64 KiB, 1 MiB "
            "(thorough: 32 KiB, 128 KiB, 2 MiB, 4 MiB as well) falling inside its Name / PublicKey / PrivateKey value, inside a multi-byte "
            "character, between its lines, at its start / end, at the end of the file +-1): lookups by name (present, absent, the name a reader "
            "stopping at the offset would invent) and by key equal the reference reader's, the key under test encrypts and decrypts; the smaller "
            "texts (quick <= 16 KiB, thorough <= 136 KiB) also through the Gallina parser; "
            "encodings whose checksum differs in exactly ONE of its four bytes (each in turn), in every subset of them, rotated / reversed / computed "
            "over something else, through pk_decode; and through the real program: keyrings in which the PublicKey of the section a command USES "
            "(recipient of encrypt, SENDER of encrypt, recipient of decrypt) has such an encoding - error exit, nothing written (props_kvs.r6_c17_*); "
            "non-trivial = distinct driver lines other than the empty text")
    assumptions = ["ct-codecs base64 is specified in Spec/Base64.v and compared, not proved equal",
                   "well-formedness of key strings on acceptance is judged with Python's base64 (lenient on trailing bits)"]

    # ---------------- direct oracles
    @staticmethod
    def accepted_oracle(expect_entries=None):
        def f(r):
            if r["code"] != 0:
                if expect_entries is not None and expect_entries != "any":
                    return ("a keyring written by the tool parses back to the names and keys written", r["outcome"] + " " + r["msg"])
                return None
            es = r["entries"]
            names = [e[0] for e in es]
            pubs = [e[1] for e in es]
            if len(set(names)) != len(names):
                return ("accepted => names pairwise distinct", "names=%r" % names)
            if len(set(pubs)) != len(pubs):
                return ("accepted => public keys pairwise distinct", "pubs=%r" % pubs)
            for n in names:
                if not (1 <= len(n) <= 128):
                    return ("accepted => every name has 1..128 bytes", "name of %d bytes" % len(n))
            for p in pubs:
                d = b64_lenient(p)
                if d is None or len(d) != 36:
                    return ("accepted => every public key is the base64 of 36 bytes", "pub=%r" % p)
            for e in es:
                if e[2] is not None:
                    d = b64_lenient(e[2])
                    if d is None or len(d) != 84:
                        return ("accepted => a private key, where present, is the base64 of 84 bytes", "priv=%r" % e[2])
            if expect_entries not in (None, "any") and es != expect_entries:
                return ("accepted => the entries are exactly the sections written, in order: %r" % (expect_entries,), "entries=%r" % (es,))
            return None
        return f

    # ---------------- exhaustive token sequences
    def token_cases(self, ctx, maxlen):
        rng = ctx.rng
        K = self.K
        # the two names differ ONLY in the case of one letter: names are compared byte for byte
        toks = [b"[Key]", b"Name = alice", b"Name = Alice", b"PublicKey = " + K["P1"], b"PublicKey = " + K["P2"],
                b"PublicKey = " + K["PBAD"], b"PrivateKey = " + K["S1"], b"PrivateKey = " + K["SBAD"],
                b"# comment", b"", b"junk"]
        self.toks = toks
        field = {1: ("n", b"alice"), 2: ("n", b"Alice"), 3: ("p", K["P1"]), 4: ("p", K["P2"]), 6: ("s", K["S1"])}

        def sections(seq):
            """what an ACCEPTED sequence must contain: None if it cannot be accepted under the property"""
            out, cur = [], None
            for t in seq:
                if t == 0:
                    if cur is not None:
                        out.append(cur)
                    cur = {}
                elif t in (5, 7, 10):
                    return None
                elif t in field:
                    if cur is None:
                        return None
                    k, v = field[t]
                    if k in cur:
                        return None
                    cur[k] = v
            if cur is None:
                return None
            out.append(cur)
            if any("n" not in s or "p" not in s for s in out):
                return None
            return [(s["n"], s["p"], s.get("s")) for s in out]

        def oracle(seq):
            want = sections(seq)
            base = self.accepted_oracle("any" if want is None else want)

            def f(r):
                if r["code"] == 0 and want is None:
                    return ("accepted only if every section has one Name and one well-formed PublicKey, private keys are "
                            "well-formed, nothing lies outside a section", "accepted entries=%r" % (r["entries"],))
                if r["code"] != 0:
                    return None      # rejection is judged by the model comparison, the property states 'only if'
                return base(r)
            return f
        STEP_ALWAYS = set(range(104, 117))
        AMBIG = {101, 102, 118, 119}
        alive = [()]
        cases = []
        dead_pool = []
        for L in range(1, maxlen + 1):
            level = []
            for pre in alive:
                for t in range(len(toks)):
                    seq = pre + (t,)
                    text = b"".join(toks[i] + b"\n" for i in seq)
                    level.append(KCase("kr_parse", text=text, toks=list(seq), oracle=oracle(seq), tags=["tokens-len%d" % L]))
            run_impl_k(level)
            nxt = []
            for c in level:
                code = c.result["code"]
                seq = tuple(c.a["toks"])
                dead = code in STEP_ALWAYS or (code in AMBIG and seq[-1] == 0) or code in (1, 999) or code >= 900
                if dead:
                    dead_pool.append(seq)
                else:
                    nxt.append(seq)
            alive = nxt
            cases += level
            self.count(ctx, "tokens:alive-after-len%d" % L, len(alive))
        # a sample of extensions of failed prefixes: same error expected (decided by the model comparison)
        for seq in rng.sample(dead_pool, min(len(dead_pool), 400 if ctx.thorough() else 150)):
            ext = seq + tuple(rng.randrange(len(toks)) for _ in range(rng.randint(1, 2)))
            text = b"".join(toks[i] + b"\n" for i in ext)
            cases.append(KCase("kr_parse", text=text, toks=list(ext), oracle=oracle(ext), tags=["tokens-dead-ext"]))
        # lookups on accepted sequences
        acc = [c for c in cases if c.result and c.result["code"] == 0]
        self.count(ctx, "tokens:accepted", len(acc))
        look = []
        for c in rng.sample(acc, min(len(acc), 600 if ctx.thorough() else 120)):
            look += self.lookup_cases(c.a["text"], c.result["entries"], [b"alice", b"Alice", b"ALICE", b"carol"], [K["P1"], K["P2"], K["P3"]])
        return cases, look

    def lookup_cases(self, text, entries, names, pubs):
        out = []
        for n in names:
            hit = [e for e in entries if e[0] == n]

            def f(r, hit=hit, n=n):
                if hit:
                    if r["code"] != 0 or r["entries"] != hit[:1] or len(hit) != 1:
                        return ("lookup by name returns the unique entry %r" % (hit,), r["raw"][:200])
                elif r["code"] != 5:
                    return ("lookup of an absent name finds nothing", r["raw"][:200])
                return None
            out.append(KCase("kr_get", text=text, name=n, oracle=f, tags=["lookup-name-" + ("present" if hit else "absent")]))
        for p in pubs:
            hit = [e for e in entries if e[1] == p]

            def g(r, hit=hit):
                if hit:
                    if r["code"] != 0 or r["out"] != hit[0][0] or len(hit) != 1:
                        return ("lookup by public key returns the unique owner %r" % hit[0][0], r["raw"][:200])
                elif r["code"] != 5:
                    return ("lookup of an absent public key finds nothing", r["raw"][:200])
                return None
            out.append(KCase("kr_name_from_key", text=text, pk=p, oracle=g, tags=["lookup-key-" + ("present" if hit else "absent")]))
        return out

    # ---------------- random texts
    def rand_text(self, ctx):
        """a keyring skeleton of 1..3 sections with deviations (spelling look-alikes, '=' placement, exotic white space,
        malformed values, duplicates, stray lines, line terminators) applied at a per-text noise level q"""
        rng = ctx.rng
        K = self.K
        pick = rng.choice
        q = pick([0.0, 0.15, 0.4, 1.0])

        def alt(normal, alts, p):
            return pick(alts) if rng.random() < p * q else normal

        def ws():
            # white space around tokens never changes the meaning: always exercised
            return "".join(pick(WS_EXOTIC) for _ in range(rng.randint(1, 2))) if rng.random() < 0.25 else ""

        def sep():
            return pick([" = ", " = ", "=", " =", "= ", "\t=\t", "\u00a0=\u3000"]) if rng.random() < 0.5 * q + 0.2 else \
                alt(" = ", ["", " ", " == ", " : "], 0.15)
        odd_names = ["a\u00a0b", "x=y", "#n", "d\te", "", "[Key]", "Name", "z\u200b"] + self.longs
        pubs = [K["P1"], K["P2"], K["P3"]]
        badpubs = [K["PBAD"], K["P1"][:-1], K["P1"] + b"=", K["P1"][:20] + b" " + K["P1"][20:], b"",
                   K["P1"].replace(b"/", b"_").replace(b"+", b"-"), K["P1"][:-1] + b"!", K["P1"] + K["P1"][:4], K["S1"]]
        privs = [K["S1"], K["S2"]]
        badprivs = [K["SBAD"], K["S1"][:-1], K["S1"] + b"=", b"", K["P1"], K["S1"][:50] + b"\xc3\xa9" + K["S1"][51:]]
        lines = []
        nsec = rng.randint(1, 3)
        used_n, used_p = [], []
        if rng.random() < 0.15 * q:
            lines.append(pick(["Name = early", "PublicKey = " + K["P1"].decode(), "PrivateKey = " + K["S1"].decode(), "x"]))
        for si in range(nsec):
            lines.append(ws() + alt("[Key]", ["[Key]x", "[Key] # c", "[Ke\ty]", "[key]", "[Key", "\ufeff[Key]", "[ Key ]", "[Key][Key]"], 0.25) + ws())
            fields = []
            if rng.random() >= 0.1 * q:
                nm = pick(odd_names) if rng.random() < 0.3 * q + 0.05 else pick(["alice", "Bob B", "carol", "dave", "erin"])
                if nm in used_n and rng.random() >= 0.2 * q:
                    nm = nm + str(si)
                used_n.append(nm)
                fields.append(ws() + alt("Name", ["Named", "Names", "name", "NAME", "Nam\te", "Name "], 0.3) + sep() + ws() + nm + ws())
            if rng.random() >= 0.1 * q:
                pk = (pick(badpubs) if rng.random() < 0.15 * q else pick(pubs)).decode("utf-8")
                if pk in used_p and rng.random() >= 0.2 * q:
                    free = [p.decode() for p in pubs if p.decode() not in used_p]
                    pk = free[0] if free else pk
                used_p.append(pk)
                fields.append(ws() + alt("PublicKey", ["PublicKeyring", "Publickey", "PublicKey2", "Public Key"], 0.3) + sep() + ws() + pk + ws())
            if rng.random() < 0.6:
                sk = (pick(badprivs) if rng.random() < 0.2 * q else pick(privs)).decode("utf-8")
                fields.append(ws() + alt("PrivateKey", ["PrivateKeys", "Privatekey", "Private"], 0.3) + sep() + ws() + sk + ws())
            if rng.random() < 0.1 * q and fields:
                fields.append(pick(fields))
            rng.shuffle(fields)
            for f in fields:
                if rng.random() < 0.2:
                    lines.append(pick(["# c", " #x", "#[Key]", "", "   ", "\t", "\u3000", "#Name = q", "\u0085"]) if rng.random() >= 0.3 * q
                                 else pick(["\u200b", "junk", "=", "\u180e"]))
                lines.append(f)
        text = ""
        for i, l in enumerate(lines):
            last = i == len(lines) - 1
            term = pick(["\n"] * 6 + ["\r\n"] * 3 + ["\n\n"]) if rng.random() >= 0.2 * q else pick(["\r", "\n\r", "\u2028", "\u0085"])
            if last and rng.random() < 0.4:
                term = pick(["", "\r", "\r\n"])
            text += l + term
        return text.encode("utf-8")

    def random_cases(self, ctx, n):
        cases = []
        for _ in range(n):
            cases.append(KCase("kr_parse", text=self.rand_text(ctx), oracle=self.accepted_oracle(), tags=["random-text"]))
        for t in (b"", b"\n", b"\r\n", b"[Key]", b"[Key]\n", b"\xef\xbb\xbf[Key]\nName = a\nPublicKey = " + self.K["P1"] + b"\n"):
            cases.append(KCase("kr_parse", text=t, oracle=self.accepted_oracle(), tags=["edge-text"] + (["trivial"] if not t else [])))
        # duplicate names / public keys across two and three sections, every combination
        K = self.K
        for a, b, c3 in itertools.product([b"alice", b"Alice", b"Bob B"], [b"alice", b"Alice", b"Bob B"], [None, b"alice", b"carol"]):
            for p, q, r3 in itertools.product([K["P1"], K["P2"]], [K["P1"], K["P2"]], [K["P1"], K["P3"]]):
                secs = [(a, p, K["S1"]), (b, q, None)] + ([(c3, r3, None)] if c3 else [])
                text = b"\n".join(key_block(*e) for e in secs)
                distinct = len(set(e[0] for e in secs)) == len(secs) and len(set(e[1] for e in secs)) == len(secs)
                cases.append(KCase("kr_parse", text=text, oracle=self.accepted_oracle(secs if distinct else None),
                                   tags=["dup-sections-" + ("distinct" if distinct else "duplicate")]))
        # names that differ only in case (ASCII and non-ASCII) are DIFFERENT names: both entries are kept, a lookup returns the
        # entry whose name matches exactly and nothing for a third spelling
        for pair in ([b"alice", b"Alice"], [b"Alice", b"alice"], ["\u00e9".encode(), "\u00c9".encode()], [b"Bob B", b"bob b"],
                     ["stra\u00dfe".encode(), "STRASSE".encode()], [b"alice", b"Alice", b"ALICE"], ["\u01c6".encode(), "\u01c5".encode(), "\u01c4".encode()]):
            pubs = [K["P1"], K["P2"], K["P3"]][:len(pair)]
            secs = [(n, p, K["S1"] if i == 0 else None) for i, (n, p) in enumerate(zip(pair, pubs))]
            text = b"\n".join(key_block(*e) for e in secs)
            cases.append(KCase("kr_parse", text=text, oracle=self.accepted_oracle(secs), tags=["case-pair"]))
            third = pair[0].decode().swapcase().encode() if pair[0].decode().swapcase().encode() not in pair else pair[0] + b"x"
            for c in self.lookup_cases(text, secs, list(pair) + [third, pair[0].decode().upper().encode()], pubs):
                c.tags = ["case-pair-" + c.tags[0]]
                cases.append(c)
        # names at the length bound, inside a keyring and through valid_key_name
        for nm in self.longs + ["", "a", "a\tb", "\t", " a ", "a\nb"]:
            b = nm.encode("utf-8")

            def vn(r, b=b):
                if r["code"] == 0 and r["out"] == b"\x01" and not (1 <= len(b) <= 128):
                    return ("a valid name has 1..128 bytes", "valid_name accepted %d bytes" % len(b))
                return None
            cases.append(KCase("valid_name", s=b, oracle=vn, tags=["name-bound"]))
            if "\n" not in nm:
                text = b"[Key]\nName = " + b + b"\nPublicKey = " + self.K["P1"] + b"\n"
                cases.append(KCase("kr_parse", text=text, oracle=self.accepted_oracle(), tags=["name-bound"]))
        return cases

    # ---------------- public key encodings
    def pk_cases(self, ctx):
        rng = ctx.rng
        out = []
        pks = [bytes(32), b"\xff" * 32, bytes([1]) + bytes(31)] + [ctx.rbytes(32) for _ in range(20 if ctx.thorough() else 6)]
        encs = [unhex(r["out"]) for r in cli_ops(["pk_encode " + hexs(p) for p in pks])]
        for pk, e in zip(pks, encs):
            def enc_or(r, pk=pk):
                d = b64_lenient(r["out"]) if r["code"] == 0 else None
                if d is None or d != pk + hashlib.sha256(pk).digest()[:4]:
                    return ("encoding = base64(key || first 4 bytes of SHA-256(key))", r["raw"][:200])
                return None
            out.append(KCase("pk_encode", pk=pk, oracle=enc_or, tags=["pk-encode"]))
            out.append(KCase("pk_decode", s=e, oracle=(lambda r, pk=pk: None if r["code"] == 0 and r["out"] == pk else
                                                          ("pk_decode(pk_encode(k)) = k", r["raw"][:200])), tags=["pk-roundtrip"]))
            out.append(KCase("pk_try", s=e, oracle=(lambda r: None if r["code"] == 0 else ("an encoded key is well-formed", r["raw"][:200])),
                             tags=["pk-roundtrip"]))
        ALPH = b"ABCDEFGHIJKLMNOPQRSTUVWXYZabcdefghijklmnopqrstuvwxyz0123456789+/"
        targets = encs[3:] if ctx.thorough() else encs[3:5]
        for e in targets:
            for pos in range(len(e)):
                reps = set()
                i = ALPH.index(bytes([e[pos]]))
                reps.add(ALPH[(i + 1) % 64])
                reps.add(ALPH[i ^ 32])
                reps.add(ALPH[rng.randrange(64)])
                reps.add(ord("="))
                reps.add(ord("-"))
                reps.discard(e[pos])
                for rch in sorted(reps):
                    bad = e[:pos] + bytes([rch]) + e[pos + 1:]

                    def refused(r):
                        if r["code"] == 0:
                            return ("a corrupted encoded public key is refused (format, length or checksum)", r["raw"][:200])
                        return None
                    out.append(KCase("pk_decode", s=bad, oracle=refused, tags=["pk-corrupt"]))
                    out.append(KCase("pk_try", s=bad, tags=["pk-corrupt"]))
        # usable only if the checksum matches: random 36-byte blobs
        for _ in range(200 if ctx.thorough() else 40):
            blob = ctx.rbytes(36)
            if rng.random() < 0.3:
                blob = blob[:32] + hashlib.sha256(blob[:32]).digest()[:4]
            if rng.random() < 0.2:
                blob = ctx.rbytes(rng.choice([0, 1, 31, 32, 33, 35, 37, 48]))
            s = base64.b64encode(blob)

            def ck(r, blob=blob):
                good = len(blob) == 36 and hashlib.sha256(blob[:32]).digest()[:4] == blob[32:]
                if r["code"] == 0 and not (good and r["out"] == blob[:32]):
                    return ("an encoded key is usable only if its checksum matches", r["raw"][:200])
                if good and r["code"] != 0:
                    return ("a key with a matching checksum decodes", r["raw"][:200])
                return None
            out.append(KCase("pk_decode", s=s, oracle=ck, tags=["pk-blob"]))
        return out

    # ---------------- what the tool writes parses back
    def writeback_cases(self, ctx, n):
        rng = ctx.rng
        K = self.K
        pool = ["alice", "Bob B", "a=b", "=x", "# not a comment", "[Key]", "Name", "PublicKey = x", "a\rb", "x\u00a0y", "\u001cabc",
                "caf\u00e9 \u2603", "\U0001F600", "a  b", "tr\u200b"] + [x for x in self.longs if len(x.encode()) <= 128]
        keys = self.extra_keys
        ser, metas = [], []
        for _ in range(n):
            k = rng.randint(1, min(3, len(keys)))
            nms = []
            while len(nms) < k:
                c = rng.choice(pool) if rng.random() < 0.7 else "".join(
                    rng.choice(["a", "B", " ", "=", "#", "\u00e9", "\u3000", "[", "]", "\u2028", "z", "\r", "\u0085", "\U0001F511"]) for _ in range(rng.randint(1, 40)))
                c = rust_trim(c.replace("\n", "").replace("\t", ""))
                if c and len(c.encode()) <= 128 and c not in nms:
                    nms.append(c)
            ks = rng.sample(keys, k)
            metas.append([(nm.encode(), enc, S) for nm, (enc, S) in zip(nms, ks)])
        flat = [e for m in metas for e in m]
        blocks = [unhex(r["out"]) if r.get("outcome") == "ok" else None
                  for r in cli_ops(["serialize_key %s %s %s" % (hexs(a), hexs(b), hexs(c)) for a, b, c in flat])]
        cases = []
        i = 0
        for m in metas:
            bl = blocks[i:i + len(m)]
            i += len(m)
            if any(b is None for b in bl):
                continue
            text = b"\n".join(bl)      # gen_key prefixes a newline when it appends
            cases.append(KCase("kr_parse", text=text, oracle=self.accepted_oracle(list(m)), tags=["writeback"]))
            cases.append(KCase("serialize_key", name=m[0][0], pk=m[0][1], sk=m[0][2], tags=["writeback"]))
            cases += self.lookup_cases(text, list(m), [m[0][0], b"nobody"], [m[-1][1], K["P3"]])[:4]
        return cases

    # ---------------- what `key generate` writes for a name AS TYPED AT ITS PROMPT parses back (real processes)
    def prompt_answers(self, ctx):
        """answers to the name prompt: a name with every kind of white space (char::is_whitespace, ASCII and not) before / after it,
        blank-only answers, zero-width / format look-alikes at the ends, blanks inside, the 128-byte limit reached only after trimming"""
        rng = ctx.rng
        bases = ["carol", "erin", "k\u00e9y", "\u5c71\u7530", "Bob B", "x=y"]
        A = []
        for ws in UNI_WS + ASCII_WS + ["\t"]:
            forms = [ws + "%s", "%s" + ws, ws + "%s" + ws]
            for f in (forms if ctx.thorough() else [rng.choice(forms)]):
                A.append(("white space U+%04X around the name" % ord(ws), f % rng.choice(bases)))
        for z in UNI_NOT_WS:
            A.append(("U+%04X (not white space) at the ends" % ord(z), rng.choice([z + "%s", "%s" + z, z + "%s" + z]) % rng.choice(bases)))
        for b_ in ["\u3000", "\u00a0\u2003", " \t ", "\u0085", "\u2028\u2029", "", "\u200a\u205f\u202f\u1680", "\u200b", "\ufeff"]:
            A.append(("blank-only answer", b_))
        for n_ in blank_names(rng, 12 if ctx.thorough() else 5):
            A.append(("blanks inside, white space around", pad_ws(rng, n_)))
        e = "\u00e9"
        for core in ("e" * 128, e * 64, "e" * 129, e * 64 + "a", "e" * 127):
            A.append(("%d-byte name inside white space" % len(core.encode("utf-8")), pad_ws(rng, core, UNI_WS)))
        return A

    def prompt_writeback(self, ctx):
        rng = ctx.rng
        ks = make_keys(ctx, 1)
        old = key_block(b"old1", ks[0][2], lock_keys([(ks[0][0], b"oldpw", ctx.rbytes(32))])[0])
        ends = [b"\n", b"\r\n", b"", b"\nnext line\n"]
        jobs = []
        for i, (what, typed) in enumerate(self.prompt_answers(ctx)):
            jobs.append({"i": i, "what": what, "typed": typed, "stdin": typed.encode("utf-8") + ends[i % len(ends)], "mode": ["fresh", "existing", "stdout"][i % 3],
                         "pw": rng.choice([b"", b"pw", "p\u00e4ss \u2713".encode("utf-8")]), "use": ctx.thorough() or i % 3 == 0, "pt": ctx.rbytes(50)})
        w = World(prefix="kv_c17_")

        def one(j):
            f = "kr%d.txt" % j["i"]
            before = b""
            if j["mode"] == "existing":
                before = old
                w.write(f, old)
            r = gen_key_fed(w, [j["stdin"]], j["pw"], outfile=None if j["mode"] == "stdout" else f)
            after = w.read(f) if j["mode"] != "stdout" else (r.out if r.rc == 0 else None)
            if j["mode"] == "stdout" and r.rc == 0:
                w.write(f, r.out)                        # kestrel key generate > F
            j.update(run=r, before=before, after=after, f=f)
            return j
        try:
            with ThreadPoolExecutor(max_workers=NPROC) as ex:
                jobs = list(ex.map(one, jobs))
            ctx.evaluations += len(jobs)
            ops, idx = [], []
            for j in jobs:
                j["written"] = None
                if j["run"].rc == 0 and j["after"] is not None and j["after"].startswith(j["before"]):
                    new = j["after"][len(j["before"]):]
                    nl = [l[len(b"Name = "):] for l in new.split(b"\n") if l.startswith(b"Name = ")]
                    pl_ = [l[len(b"PublicKey = "):] for l in new.split(b"\n") if l.startswith(b"PublicKey = ")]
                    if len(nl) == 1 and len(pl_) == 1:
                        j["written"] = (nl[0], pl_[0])
                        idx.append(j)
                        ops += ["kr_parse " + hexs(j["after"]), "kr_get %s %s" % (hexs(j["after"]), hexs(nl[0]))]
            res = cli_ops(ops)
            for k, j in enumerate(idx):
                j["parse"], j["get"] = res[2 * k], res[2 * k + 1]

            def use(j):
                # the key is usable under the name that was written: it signs and receives a message
                if j["written"] is None or not j["use"]:
                    return None
                try:
                    nm = j["written"][0].decode("utf-8")
                except UnicodeDecodeError:
                    return None
                w.write("pt%d" % j["i"], j["pt"])
                e = w.run(["encrypt", "pt%d" % j["i"], "-t", nm, "-f", nm, "-o", "ct%d" % j["i"], "-k", j["f"], "--env-pass"], env=env_pw(j["pw"]))
                d = w.run(["decrypt", "ct%d" % j["i"], "-t", nm, "-o", "out%d" % j["i"], "-k", j["f"], "--env-pass"], env=env_pw(j["pw"]))
                return (e, d, w.read("out%d" % j["i"]))
            with ThreadPoolExecutor(max_workers=NPROC) as ex:
                used = list(ex.map(use, jobs))
            for j, u in zip(jobs, used):
                r = j["run"]
                sc = "C17 key generate (%s), prompt answered with %s: %r + %r" % (
                    {"fresh": "-o F, F absent", "existing": "-o F, F holds one key", "stdout": "to standard output"}[j["mode"]], j["what"],
                    j["typed"], j["stdin"][len(j["typed"].encode("utf-8")):])
                self.count(ctx, "prompt:" + ("look-alike, not white space, at the ends" if "not white space" in j["what"] else j["what"].split(" U+")[0].split("-byte")[-1].strip()))
                self.count(ctx, "prompt:" + ("accepted" if r.rc == 0 else "refused"))
                exp = typed_name_expect(j["stdin"])

                def bad(expected, observed, runs=(r,)):
                    ctx.violations.append({"input": {"kind": "proc", "scenario": sc, "commands": [x.describe() for x in runs],
                                                     "name_by_str_trim": exp[1] if exp[0] == "ok" else "refused: " + exp[1]},
                                           "expected": expected, "observed": observed, "finding_key": None})
                ctx.oracle_checks += 1
                if r.rc not in (0, 1):
                    bad("key generation succeeds or reports an error (exit 0 / 1)", "exit %d: %r" % (r.rc, r.errtext()[-200:]))
                    continue
                if r.rc != 0:
                    continue                     # refused: nothing was written (C13 looks at the output path)
                if j["written"] is None:
                    bad("an accepted name: the tool writes one [Key] section with one Name and one PublicKey line behind the earlier contents",
                        "written: %r" % (j["after"] if j["after"] is None else j["after"][len(j["before"]):][:200]))
                    continue
                name, pub = j["written"]
                pr, g = j["parse"], j["get"]
                ctx.oracle_checks += 3
                if pr.get("outcome") != "ok":
                    bad("every keyring the tool itself writes parses (the tool wrote 'Name = %s')" % name.decode("utf-8", "replace"),
                        "the parser refuses it: %s" % unhex(pr.get("msg", "-")).decode("utf-8", "replace"))
                    continue
                names = [unhex(x) for x in pr["names"].split(",")]
                pubs = [unhex(x) for x in pr["pubs"].split(",")]
                want = ([b"old1"] if j["mode"] == "existing" else []) + [name]
                if names != want or pubs[-1] != pub:
                    bad("the keyring the tool wrote parses back to the names and keys that were written: names %r, last public key %r" % (want, pub),
                        "names %r, last public key %r" % (names, pubs[-1]))
                    continue
                if g.get("outcome") != "ok" or unhex(g.get("pub", "-")) != pub:
                    bad("a lookup by the written name %r finds the written key" % name, "kr_get: %s" % g.get("outcome"))
                    continue
                if u is not None:
                    e, d, out = u
                    ctx.oracle_checks += 1
                    if not (e.rc == 0 and d.rc == 0 and out == j["pt"]):
                        bad("the generated key is usable under the name that was written (encrypt to / from it, decrypt)",
                            "exit %d/%d, plaintext equal: %s, stderr %r" % (e.rc, d.rc, out == j["pt"], (e.errtext() + d.errtext())[-200:]), runs=(r, e, d))
            self.count(ctx, "proc:runs", w.nruns)
        finally:
            w.close()
        # the same prompt against the CLI model (Model/Cli.v::ask_user_stdin = trim (take_line stdin), is_ws = char::is_whitespace):
        # which answers are accepted, and the exact bytes written
        model_cli_part(ctx, self.prompt_model_cases)

    def prompt_model_cases(self, ctx, mw, root):
        rng = ctx.rng
        A = self.prompt_answers(ctx)
        pick = [a for a in A if a[0].startswith("white space U+") and int(a[0][len("white space U+"):][:4], 16) > 127]
        sel = rng.sample(pick, 4 if not ctx.thorough() else 10) + [a for a in A if a[0] == "blank-only answer"][:(2 if not ctx.thorough() else 9)] \
            + [a for a in A if "-byte name" in a[0]][:(2 if not ctx.thorough() else 5)]
        ends = [b"\n", b"\r\n", b"", b"\nnext line\n"]
        out = []
        for i, (what, typed) in enumerate(sel):
            fs = {"F": mw.block["alice"]} if i % 2 else {}
            out.append(CliCase("generate into F (%s), prompt answered with %s" % ("one key" if fs else "absent", what), ["key", "generate", "-o", "F", "--env-pass"],
                               fs, pw=rng.choice([b"pw", b""]), stdin=typed.encode("utf-8") + ends[i % 4], rnd=ctx.rbytes(64), watch=["F"],
                               tags=["model:prompt-" + what.split(" U+")[0].split("-byte ")[-1]], oracle=no_stray))
        return out

    def setup(self, ctx):
        ks = make_keys(ctx, 6)
        S = lock_keys([(ks[0][0], b"pw", ctx.rbytes(32)), (ks[1][0], b"", ctx.rbytes(32)), (ks[3][0], b"x", ctx.rbytes(32)),
                       (ks[4][0], b"y", ctx.rbytes(32)), (ks[5][0], b"z", ctx.rbytes(32))])
        self.K = {"P1": ks[0][2], "P2": ks[1][2], "P3": ks[2][2], "PBAD": ks[0][2][:-4], "S1": S[0], "S2": S[1], "SBAD": S[0][:-4]}
        self.extra_keys = [(ks[3][2], S[2]), (ks[4][2], S[3]), (ks[5][2], S[4])]
        self.longs = long_names()

    def prelude(self):
        return "".join("Definition tk%d : list N := %s.\n" % (i, g_text(t)) for i, t in enumerate(self.toks))

    def explore(self, ctx):
        self.setup(ctx)
        maxlen = int(os.environ.get("VERIF_C17_MAXLEN", "7" if ctx.thorough() else "5"))
        import props_kvs
        tok, look = self.token_cases(ctx, maxlen)
        # every kr_parse case is also judged against an independent reference reader of the format (props_kvs.ref_parse); the same
        # cases are compared with the Gallina parser, which ties the reference reader used for LARGE keyrings below to the model
        for c in tok:
            if c.op == "kr_parse":
                c.expect_fn = props_kvs.ref_oracle_on_case(c)
        self.run_kcases(ctx, tok, prelude=self.prelude(), tag="C17t")
        rest = look + self.random_cases(ctx, 4000 if ctx.thorough() else 500) + self.pk_cases(ctx) \
            + self.writeback_cases(ctx, 300 if ctx.thorough() else 60) + props_kvs.r6_c17_checksum_cases(self, ctx)
        for c in rest:
            if c.op == "kr_parse":
                c.expect_fn = props_kvs.ref_oracle_on_case(c)
        # lookups on accepted random texts
        self.run_kcases(ctx, rest, tag="C17r")
        acc = [c for c in rest if c.op == "kr_parse" and c.result["code"] == 0 and "random-text" in c.tags]
        self.count(ctx, "random-text:accepted", len(acc))
        more = []
        for c in acc[: (400 if ctx.thorough() else 80)]:
            es = c.result["entries"]
            more += self.lookup_cases(c.a["text"], es, [es[0][0], es[-1][0] + b"x"], [es[-1][1]] + [p for p in (self.K["P1"], self.K["P2"], self.K["P3"]) if all(e[1] != p for e in es)][:1])
        self.run_kcases(ctx, more, tag="C17l")
        # names that read like another field of the file; keyrings larger than any reader's buffer, behind -k of the real program
        props_kvs.c17_name_family(self, ctx)
        props_kvs.c17_large(self, ctx)
        # each of the four checksum bytes, for every section a command uses (recipient AND sender of encrypt, recipient of decrypt)
        props_kvs.r6_c17_checksum_commands(self, ctx)
        self.prompt_writeback(ctx)
        ctx.search_note = "direct oracle over all %d cases" % ctx.evaluations


props.REGISTRY[C17.id] = C17()


# =========================================================================== C15
LOCK_PASSWORDS = [b"", b"a", b"hackme", b"p\xc3\xa4ssw\xc3\xb6rd\xe2\x9c\x93", b"\x00\xff", b"x" * 65, b"y" * 200,
                  b"alice", b" lead and trail ", "\U0001F511\u00e9".encode("utf-8") * 5]
BOUNDARY_PASSWORDS = [b"k" * 63, b"k" * 64, b"k" * 65, bytes(range(1, 65)), b"trail ", "wide\u3000".encode("utf-8"), b" lead", b"tab\t", b"nl\n"]
B64 = b"ABCDEFGHIJKLMNOPQRSTUVWXYZabcdefghijklmnopqrstuvwxyz0123456789+/"


def must_fail(what):
    def f(r):
        if r["code"] == 0 or r["code"] == 1 or r["code"] >= 900:
            return (what + ": unlocking fails with an error (never succeeds, never panics)", r["raw"][:200])
        return None
    return f


def hmac_key(pw):
    """RFC 2104 key preparation: passwords with the same image give the same PBKDF2/scrypt output"""
    k = hashlib.sha256(pw).digest() if len(pw) > 64 else pw
    return k.ljust(64, b"\x00")


def py_scrypt(pw, salt):
    try:
        return hashlib.scrypt(pw, salt=salt, n=32768, r=8, p=1, dklen=32, maxmem=64 * 1024 * 1024)
    except Exception:
        return None


# ---- C15: an INDEPENDENT writer of the documented locked-key format: RFC 7914 scrypt by OpenSSL (hashlib), RFC 8439
# ChaCha20-Poly1305 written out here; nothing of the implementation under test takes part in building these strings
def c15_chacha_block(key, counter, nonce):
    """RFC 8439 section 2.3"""
    import struct
    M = 0xFFFFFFFF
    st = list(struct.unpack("<4I", b"expand 32-byte k")) + list(struct.unpack("<8I", key)) + [counter & M] + list(struct.unpack("<3I", nonce))
    x = list(st)

    def qr(a, b, c, d):
        x[a] = (x[a] + x[b]) & M
        x[d] ^= x[a]
        x[d] = ((x[d] << 16) | (x[d] >> 16)) & M
        x[c] = (x[c] + x[d]) & M
        x[b] ^= x[c]
        x[b] = ((x[b] << 12) | (x[b] >> 20)) & M
        x[a] = (x[a] + x[b]) & M
        x[d] ^= x[a]
        x[d] = ((x[d] << 8) | (x[d] >> 24)) & M
        x[c] = (x[c] + x[d]) & M
        x[b] ^= x[c]
        x[b] = ((x[b] << 7) | (x[b] >> 25)) & M
    for _ in range(10):
        qr(0, 4, 8, 12), qr(1, 5, 9, 13), qr(2, 6, 10, 14), qr(3, 7, 11, 15)
        qr(0, 5, 10, 15), qr(1, 6, 11, 12), qr(2, 7, 8, 13), qr(3, 4, 9, 14)
    return struct.pack("<16I", *[(a + b) & M for a, b in zip(x, st)])


def c15_poly1305(key, msg):
    """RFC 8439 section 2.5"""
    r = int.from_bytes(key[:16], "little") & 0x0FFFFFFC0FFFFFFC0FFFFFFC0FFFFFFF
    s = int.from_bytes(key[16:32], "little")
    acc, p = 0, (1 << 130) - 5
    for i in range(0, len(msg), 16):
        acc = (acc + int.from_bytes(msg[i:i + 16] + b"\x01", "little")) * r % p
    return ((acc + s) & ((1 << 128) - 1)).to_bytes(16, "little")


def c15_aead_seal(key, nonce, ad, pt):
    """RFC 8439 section 2.8: ciphertext || tag"""
    ks = b"".join(c15_chacha_block(key, 1 + i, nonce) for i in range((len(pt) + 63) // 64))
    ct = bytes(a ^ b for a, b in zip(pt, ks))
    pad = lambda b: b"\x00" * (-len(b) % 16)
    mac = ad + pad(ad) + ct + pad(ct) + len(ad).to_bytes(8, "little") + len(ct).to_bytes(8, "little")
    return ct + c15_poly1305(c15_chacha_block(key, 0, nonce)[:32], mac)


C15_RFC8439_KAT = (bytes(range(0x80, 0xa0)), bytes.fromhex("070000004041424344454647"), bytes.fromhex("50515253c0c1c2c3c4c5c6c7"),
                   b"Ladies and Gentlemen of the class of '99: If I could offer you only one tip for the future, sunscreen would be it.",
                   "d31a8d34648e60db7b86afbc53ef7ec2", "1ae10b594f09e26a7e902ecbd0600691")


def c15_ref_blob(sk, pw, salt):
    """the 84 bytes a conforming implementation writes for (key, password, salt); None when OpenSSL's scrypt is unavailable"""
    k = py_scrypt(pw, salt)
    if k is None:
        return None
    return VERSION + salt + c15_aead_seal(k, bytes(12), VERSION, sk)


def c15_salt_shapes(ctx, sk):
    """(label, salt): salts a random generator practically never draws but any conforming writer may use"""
    rng = ctx.rng
    c = rng.randrange(1, 255)
    pos = rng.randrange(32)
    one = bytearray(32)
    one[pos] = rng.randrange(1, 256)
    hole = bytearray(ctx.rbytes(32))
    hole[pos] = 0
    shapes = [("zero", bytes(32)), ("ff", b"\xff" * 32), ("const", bytes([c]) * 32), ("last-bit", bytes(31) + b"\x01"),
              ("first-bit", b"\x80" + bytes(31)), ("first-byte", bytes([rng.randrange(1, 256)]) + bytes(31)),
              ("zero-head", bytes(16) + ctx.rbytes(16)), ("zero-tail", ctx.rbytes(16) + bytes(16)),
              ("ascending", bytes(range(32))), ("version-x8", VERSION * 8), ("salt-is-key", sk),
              ("one-byte", bytes(one)), ("one-zero-byte", bytes(hole)), ("random", ctx.rbytes(32))]
    if ctx.thorough():
        shapes += [("const", bytes([b]) * 32) for b in (0x01, 0x20, 0x30, 0x7f, 0x80, 0xfe)]
        shapes += [("one-bit", (1 << rng.randrange(256)).to_bytes(32, "big")) for _ in range(6)]
        shapes += [("zero-words", b"".join(bytes(4) if rng.random() < 0.6 else ctx.rbytes(4) for _ in range(8))) for _ in range(4)]
        shapes += [("ascii", bytes(rng.choice(b"0123456789abcdef") for _ in range(32)))]
    return shapes


def c15_envable(p):
    """can this password be handed to the process in KESTREL_PASSWORD?"""
    try:
        p.decode("utf-8")
    except UnicodeDecodeError:
        return False
    return b"\x00" not in p


def c15_other_password(rng, p):
    for _ in range(20):
        q = rng.choice([p + b"x", p[:-1], rng.choice(LOCK_PASSWORDS), rng.choice(BOUNDARY_PASSWORDS), p.swapcase()])
        if hmac_key(q) != hmac_key(p):
            return q
    return p + b"\x01"


def c15_foreign_cases(self, ctx):
    """locked strings built by the independent writer.  Returns (cases, foreign) with foreign = [(label, sk, pw, salt, blob)]"""
    rng = ctx.rng
    cases, foreign = [], []
    key, nonce, ad, pt, c0, tag = C15_RFC8439_KAT
    kat = c15_aead_seal(key, nonce, ad, pt)
    if kat[:16].hex() != c0 or kat[-16:].hex() != tag:
        ctx.broken.append({"kind": "machinery", "what": "C15 reference writer: RFC 8439 self-test of the Python AEAD failed"})
        return cases, foreign
    if py_scrypt(b"", bytes(32)) is None:
        self.count(ctx, "foreign-writer:SKIPPED-no-openssl-scrypt")
        return cases, foreign
    # passwords: any byte string; the three most special salts get passwords that can also travel through the environment
    pool = LOCK_PASSWORDS + BOUNDARY_PASSWORDS
    envable = [p for p in pool if c15_envable(p)]
    sk0 = ctx.rbytes(32)
    shapes = c15_salt_shapes(ctx, sk0)
    for i, (label, salt) in enumerate(shapes):
        sk = sk0 if label == "salt-is-key" else ctx.rbytes(32)
        pw = rng.choice(envable if i < 3 else pool)
        foreign.append((label, sk, pw, salt, c15_ref_blob(sk, pw, salt)))
    # the all-zero salt always comes with a second, fully degenerate triple: zero key, empty password
    foreign.append(("zero", bytes(32), b"", bytes(32), c15_ref_blob(bytes(32), b"", bytes(32))))
    for label, sk, pw, salt, blob in foreign:
        R = base64.b64encode(blob)
        tg = ["foreign", "foreign-salt-" + label]
        cases.append(KCase("sk_try", s=R, tags=tg,
                           oracle=(lambda r: None if r["code"] == 0 else
                                   ("a string in the documented format (written by a conforming implementation) is a well-formed private key", r["raw"][:200]))))
        cases.append(KCase("sk_unlock", s=R, pw=pw, tags=tg,
                           oracle=(lambda r, sk=sk, salt=salt: None if r["code"] == 0 and r["out"] == sk else
                                   ("a key locked by a conforming implementation (salt %s) unlocks with its password to the original key %s"
                                    % (salt.hex(), sk.hex()), r["raw"][:200]))))
        cases.append(KCase("sk_lock", sk=sk, pw=pw, salt=salt, tags=tg,
                           oracle=(lambda r, R=R: None if r["code"] == 0 and r["out"] == R else
                                   ("lock(key, pw, salt) is the string a conforming implementation writes: %s" % R.decode(), r["raw"][:300]))))
        cases.append(KCase("sk_unlock", s=R, pw=c15_other_password(rng, pw), tags=tg + ["wrong-password"], oracle=must_fail("another password")))
    # a special salt with ONE bit changed (ciphertext and tag untouched) is a changed blob
    for label, sk, pw, salt, blob in ([f for f in foreign if f[0] in ("zero", "ff", "const", "one-byte")][:4] if not ctx.thorough() else foreign):
        fb = props.flip(blob, 32 + rng.randrange(256))
        cases.append(KCase("sk_unlock", s=base64.b64encode(fb), pw=pw, tags=["foreign", "foreign-salt-flip"], oracle=must_fail("a changed salt bit")))
    return cases, foreign


def c15_length_cases(self, ctx, foreign):
    """blobs of every length around 84 made from conforming 84-byte blobs: cut short, and followed / preceded by zero,
    0xFF, random and copied bytes.  Only the 84-byte blob itself is a locked key."""
    rng = ctx.rng
    cases = []
    bases = [f for f in foreign if f[0] == "random"][:1] + ([f for f in foreign if f[0] == "zero"][:1] if ctx.thorough() else [])
    for label, sk, pw, salt, blob in bases:
        variants = []          # (tag, bytes)
        cuts = [0, 1, 2, 3, 4, 5, 35, 36, 37, 52, 67, 68, 69, 82, 83] + [rng.randrange(6, 82) for _ in range(3)]
        if ctx.thorough():
            cuts = list(range(84))
        for n in cuts:
            variants.append(("cut", blob[:n]))
        for n in (1, 2, 16, 48, 83):
            variants.append(("cut-front", blob[84 - n:]))
        grows = [1, 2, 3, 4, 16, 84] + [rng.randrange(5, 120) for _ in range(2)]
        if ctx.thorough():
            grows = list(range(1, 100)) + [168, 252]
        for k in grows:
            fills = [("zero", bytes(k)), ("ff", b"\xff" * k), ("random", ctx.rbytes(k)), ("copy-head", (blob * 4)[:k]),
                     ("copy-tail", (blob * 4)[-k:])]
            if not ctx.thorough() and k not in (1, 2, 84):
                fills = rng.sample(fills, 2)
            for fl, x in fills:
                variants.append(("grow-" + fl, blob + x))
        # a conforming blob as the TAIL of a longer string (every salt differs here: kept few)
        for k in ([1, 84] + [rng.randrange(2, 84)]) if not ctx.thorough() else [1, 2, 3, 4, 36, 84]:
            variants.append(("grow-front", (ctx.rbytes(k) if k != 84 else blob) + blob))
        # positive control: the 84-byte blob itself
        Rb = base64.b64encode(blob)
        cases.append(KCase("sk_unlock", s=Rb, pw=pw, tags=["foreign-len", "foreign-len-84"],
                           oracle=(lambda r, sk=sk: None if r["code"] == 0 and r["out"] == sk else
                                   ("the 84-byte string itself unlocks", r["raw"][:200]))))
        seen = set()
        for tg, b in variants:
            if len(b) == 84 or b in seen:
                continue
            seen.add(b)
            forms = [base64.b64encode(b)]
            if len(b) % 3 and rng.random() < 0.3:
                forms.append(forms[0].rstrip(b"="))
            for m in forms:
                tags = ["foreign-len", "foreign-len-" + tg, "foreign-len-%s" % ("short" if len(b) < 84 else "long")]
                cases.append(KCase("sk_try", s=m, tags=tags,
                                   oracle=(lambda r, n=len(b): None if r["code"] != 0 else
                                           ("only base64 strings of exactly 84 bytes are well-formed private keys (this one has %d)" % n, r["raw"][:200]))))
                cases.append(KCase("sk_unlock", s=m, pw=pw, tags=tags, oracle=must_fail("a string of %d bytes instead of 84" % len(b))))
        # the same strings as the PrivateKey of a keyring entry: the parser against the model (Malformed private key)
        pub = c15_enc_pub(ctx.rbytes(32))
        for b in [blob, blob + b"\x00", blob + ctx.rbytes(rng.randrange(2, 90)), blob + blob, blob[:83], blob[:rng.randrange(1, 83)]]:
            cases.append(KCase("kr_parse", text=key_block(b"zed", pub, base64.b64encode(b)), tags=["foreign-len", "foreign-len-keyring"]))
    return cases


def c15_enc_pub(pk):
    return base64.b64encode(pk + hashlib.sha256(pk).digest()[:4])


def c15_proc_checks(self, ctx, foreign):
    """the real process on strings of the independent writer: key extract-pub / change-pass, and a keyring that holds them"""
    rng = ctx.rng
    ok_utf8 = [f for f in foreign if c15_envable(f[2])]
    special = [f for f in ok_utf8 if f[0] in ("zero", "ff", "const")]
    rest = [f for f in ok_utf8 if f[0] not in ("zero", "ff", "const")]
    picks = special + (rest if ctx.thorough() else rng.sample(rest, min(2, len(rest))))
    if not picks:
        return
    pks = [unhex(r.get("out", "-")) for r in lib_ops(ctx.bin, ["xpub " + hexs(f[1]) for f in picks])]
    w = World(prefix="kv_c15_")
    try:
        jobs = []          # (kind, f, pk, argv, env, extra)
        for f, pk in zip(picks, pks):
            label, sk, pw, salt, blob = f
            R = base64.b64encode(blob).decode()
            jobs.append(("extract", f, pk, ["key", "extract-pub", R, "--env-pass"], env_pw(pw), None))
        # strings of other lengths with the RIGHT password
        label, sk, pw, salt, blob = picks[-1] if rest else picks[0]
        pk_last = pks[-1] if rest else pks[0]
        odd = [blob + b"\x00", blob + ctx.rbytes(2), blob + blob, blob + ctx.rbytes(rng.randrange(3, 60)), blob[:83], blob[:rng.randrange(36, 83)],
               ctx.rbytes(1) + blob]
        for b in odd:
            S = base64.b64encode(b).decode()
            jobs.append(("extract-odd", (label, sk, pw, salt, b), pk_last, ["key", "extract-pub", S, "--env-pass"], env_pw(pw), None))
            jobs.append(("chpass-odd", (label, sk, pw, salt, b), pk_last, ["key", "change-pass", S, "--env-pass"], env_pw(pw, b"a new password"), None))
        # keyrings: a conforming foreign key (special salt) as sender and recipient; an over-long one as sender
        f0, pk0 = picks[0], pks[0]
        w.write("pt", ctx.rbytes(300))
        w.write("kr_foreign", key_block(b"zed", c15_enc_pub(pk0), base64.b64encode(f0[4])))
        jobs.append(("kr-enc", f0, pk0, ["encrypt", "pt", "-t", "zed", "-f", "zed", "-o", "ct", "-k", "kr_foreign", "--env-pass"], env_pw(f0[2]), None))
        for i, tail in enumerate([b"\x00", f0[4], ctx.rbytes(rng.randrange(2, 40))]):
            w.write("kr_long%d" % i, key_block(b"zed", c15_enc_pub(pk0), base64.b64encode(f0[4] + tail)))
            jobs.append(("kr-enc-odd", f0, pk0, ["encrypt", "pt", "-t", "zed", "-f", "zed", "-o", "ct_long%d" % i, "-k", "kr_long%d" % i, "--env-pass"],
                         env_pw(f0[2]), ("ct_long%d" % i, len(tail))))
        with ThreadPoolExecutor(max_workers=NPROC) as ex:
            runs = list(ex.map(lambda j: w.run(j[3], env=j[4]), jobs))
        for (kind, f, pk, argv, env, extra), r in zip(jobs, runs):
            label, sk, pw, salt, blob = f
            ctx.evaluations += 1
            self.count(ctx, "gen:foreign-proc-" + kind)
            desc = [r.describe()]
            if kind == "extract":
                want = b"PublicKey = " + c15_enc_pub(pk) + b"\n"
                proc_judge(ctx, r.rc == 0 and r.out == want, "extract-pub of a key locked by a conforming implementation (salt %s, key %s)" % (salt.hex(), sk.hex()),
                           desc, "exit 0 and stdout %r" % want, "exit %d stdout %r" % (r.rc, r.out[:200]))
            elif kind in ("extract-odd", "chpass-odd"):
                leaked = b"PublicKey" in r.out or b"PrivateKey" in r.out
                proc_judge(ctx, r.rc == 1 and not leaked, "a private-key string of %d bytes (84 expected) with the right password" % len(blob),
                           desc, "an error exit and no key on stdout", "exit %d stdout %r" % (r.rc, r.out[:200]))
            elif kind == "kr-enc":
                proc_judge(ctx, r.rc == 0 and w.read("ct") is not None, "encrypt with a sender key locked by a conforming implementation (salt %s)" % salt.hex(),
                           desc, "exit 0 and a ciphertext", "exit %d" % r.rc)
                if r.rc == 0:
                    d = w.run(["decrypt", "ct", "-t", "zed", "-o", "back", "-k", "kr_foreign", "--env-pass"], env=env_pw(pw))
                    ctx.evaluations += 1
                    proc_judge(ctx, d.rc == 0 and w.read("back") == w.read("pt"), "decrypt with a recipient key locked by a conforming implementation (salt %s)" % salt.hex(),
                               desc + [d.describe()], "exit 0 and the plaintext", "exit %d" % d.rc)
            elif kind == "kr-enc-odd":
                outf, extra_n = extra
                proc_judge(ctx, r.rc == 1 and w.read(outf) is None, "a keyring whose PrivateKey carries %d bytes after the 84th, used as the sender key with the right password" % extra_n,
                           desc, "an error exit and no output file", "exit %d, output file %s" % (r.rc, "written" if w.read(outf) is not None else "absent"))
    finally:
        w.close()


class C15(KProp):
    id = "C15"
    rule = ("cases: lock/unlock round trips for 19 (key, password, salt) triples (empty, 63/64/65/200-byte, non-UTF-8 and non-ASCII "
            "passwords, passwords with leading/trailing white space, all-zero/all-ff keys and salts); each locked string against other passwords; single-bit flips of the "
            "84-byte blob (quick: one random bit of every byte, thorough: all 672) re-encoded; strings of every length 0..130, "
            "URL-safe alphabet, padding and non-canonical variants through EncodedSk::try_from and unlock; layout oracle: "
            "decoded string = 65 67 6B 30 || salt || ChaCha20-Poly1305(scrypt(pw, salt, 32768, 8, 1), nonce 0, ad = version) "
            "recomputed with Python's scrypt and the library's seal; strings of an independent writer (OpenSSL scrypt + RFC 8439 AEAD "
            "written in Python): salts of special shape (all-zero, all-ff, constant, one bit / one byte set, half zero, equal to the key, ...) "
            "through try_from / unlock / lock (string equality both ways) / wrong password / one salt bit flipped; conforming blobs cut to "
            "every kind of shorter length and followed or preceded by zero / ff / random / copied bytes (85, 86, .. 168 ..) through try_from, "
            "unlock with the right password and the keyring parser; the real process (key extract-pub, key change-pass, encrypt/decrypt with "
            "a keyring holding such strings) on them; changes to SEVERAL bytes of the 84: the same / different / cancelling masks on two, three, four "
            "version bytes, every permutation of the version bytes, two bits / two equal masks / two exchanged bytes / reversal / rotation inside every "
            "field, one bit in each of two fields, fields exchanged; strings of 112 characters or 112 bytes with ONE character outside base64 (letters "
            "and digits of other scripts, fullwidth forms, marks, blanks, format characters, NUL) through try_from / unlock / the keyring parser / the "
            "real program; sequences of unlock attempts in ONE driver process: k = 1..8 refused attempts (wrong passwords, damaged strings), then the "
            "right password (props_kvs.r6_c15_*); non-trivial = all")
    assumptions = ["scrypt at N=32768 is not evaluated in Coq: the model takes the key from a table filled by the implementation's "
                   "scrypt (cross-checked here against Python hashlib.scrypt = OpenSSL)",
                   "AEAD unforgeability is not proved; tamper evidence is observed on every flipped bit"]

    def explore(self, ctx):
        rng = ctx.rng
        triples = []
        keys = [bytes(32), b"\xff" * 32] + [ctx.rbytes(32) for _ in range(8)]
        salts = [ctx.rbytes(32) for _ in range(8)] + [bytes(32), b"\xff" * 32]
        for i in range(10):
            triples.append((keys[i], LOCK_PASSWORDS[i], salts[i]))
        # the HMAC block boundary (RFC 2104 hashes keys LONGER than 64 bytes) and white space at the ends of a password
        for pw in BOUNDARY_PASSWORDS:
            triples.append((ctx.rbytes(32), pw, ctx.rbytes(32)))
        locks = [KCase("sk_lock", sk=k, pw=p, salt=s, tags=["lock"]) for k, p, s in triples]
        run_impl_k(locks)
        # layout oracle: scrypt by Python, AEAD by the library's seal (tied to RFC 8439 by C19)
        pykeys = [py_scrypt(p, s) for _, p, s in triples]
        implkeys = [unhex(r.get("out", "-")) for r in lib_ops(ctx.bin, ["scrypt %s %s 32768 8 1 32" % (hexs(p), hexs(s)) for _, p, s in triples])]
        self.count(ctx, "scrypt-vs-python", len([k for k in pykeys if k is not None]))
        seals = lib_ops(ctx.bin, ["seal %s %s %s %s" % (hexs(pk_ or ik), "00" * 12, VERSION.hex(), hexs(k))
                                  for (k, _, _), pk_, ik in zip(triples, pykeys, implkeys)])
        cases = []
        for c, (k, p, s), sl, pyk, ik in zip(locks, triples, seals, pykeys, implkeys):
            want = VERSION + s + unhex(sl.get("out", "-"))

            def layout(r, want=want, pyk=pyk, ik=ik):
                if pyk is not None and pyk != ik:
                    return ("the library's scrypt(pw, salt, 32768, 8, 1, 32) equals RFC 7914 scrypt (OpenSSL)", "scrypt=" + ik.hex())
                d = b64_lenient(r["out"]) if r["code"] == 0 else None
                if d is None or d != want or base64.b64encode(want) != r["out"]:
                    return ("locked string = base64(65 67 6B 30 || salt || AEAD(scrypt key, nonce 0, ad = version)) = %s"
                            % base64.b64encode(want).decode(), r["raw"][:300])
                return None
            c.expect_fn = layout
            cases.append(c)
            S = c.result["out"]
            if c.result["code"] != 0:
                continue
            cases.append(KCase("sk_unlock", s=S, pw=p, tags=["roundtrip"],
                               oracle=(lambda r, k=k: None if r["code"] == 0 and r["out"] == k else
                                       ("unlock(lock(key, pw, salt), pw) = key", r["raw"][:200]))))
            cases.append(KCase("sk_try", s=S, tags=["roundtrip"],
                               oracle=(lambda r: None if r["code"] == 0 else ("a locked string is well-formed", r["raw"][:200]))))
            others = [p + b"\x01", p[:-1] if p.rstrip(b"\x00") else b" ", p.swapcase() if p.swapcase() != p else p + p,
                      rng.choice(LOCK_PASSWORDS), p + b"\x00"]
            for q in (others if ctx.thorough() else others[:2] + others[4:]):
                if hmac_key(q) != hmac_key(p):
                    cases.append(KCase("sk_unlock", s=S, pw=q, oracle=must_fail("another password"), tags=["wrong-password"]))
                elif q != p:
                    # RFC 2104: HMAC pads its key with zero bytes (and hashes keys over 64 bytes), so PBKDF2/scrypt derive
                    # the SAME key for p and p || 00: the documented format itself makes these passwords equivalent
                    same = py_scrypt(q, s) == py_scrypt(p, s)
                    self.count(ctx, "hmac-equivalent-password:openssl-derives-same-key" if same else "hmac-equivalent-password:UNCONFIRMED")
                    cases.append(KCase("sk_unlock", s=S, pw=q, tags=["hmac-equivalent-password"],
                                       oracle=(lambda r, k=k, same=same: (
                                           # KNOWN FINDING: the property says "with any other password unlocking fails"; a
                                           # different password with the same RFC 2104 key image unlocks (documented format)
                                           ("with any other password unlocking fails", "a different password with the same HMAC key image unlocks: "
                                            + r["raw"][:120], "hmac-key-hashing") if (r["code"] == 0 and r["out"] == k) else
                                           (None if not same else
                                            ("a password that RFC 7914 scrypt maps to the same key unlocks (conforming format)", r["raw"][:200]))))))
        # bit flips
        flips = []
        for ti in ([0, 5] if ctx.thorough() else [5]):
            c = locks[ti]
            if c.result["code"] != 0:
                continue
            blob = b64_lenient(c.result["out"])
            bits = range(84 * 8) if ctx.thorough() and ti == 5 else [8 * i + rng.randrange(8) for i in range(84)]
            for bit in bits:
                fb = props.flip(blob, bit)
                part = "version" if bit < 32 else "salt" if bit < 36 * 8 else "ciphertext" if bit < 68 * 8 else "tag"
                flips.append(KCase("sk_unlock", s=base64.b64encode(fb), pw=triples[ti][1], oracle=must_fail("a changed bit"),
                                   tags=["flip", "flip-" + part]))
        cases += flips
        # malformed strings
        S = locks[5].result["out"]
        pw = triples[5][1]
        mal = []
        for n in range(0, 131):
            mal.append(bytes(rng.choice(B64) for _ in range(n)))
        for n in (0, 1, 2, 3, 35, 36, 83, 85, 86, 87, 168):
            mal.append(base64.b64encode(ctx.rbytes(n)))
        blob = b64_lenient(S)
        mal += [S[:-1], S[:-1] + b"=", S[:-2] + b"==", S + b"=", S + b"==", S + b"A", S + b"AA==", S + b"\n", b" " + S, S[:56] + b"\n" + S[56:],
                S.replace(b"+", b"-").replace(b"/", b"_"), base64.urlsafe_b64encode(blob), S[:-4], S[4:], S + S,
                base64.b64encode(blob + b"\x00"), base64.b64encode(blob + b"\x00")[:-2] + b"B=", base64.b64encode(blob + b"\x00\x00")[:-2] + b"C=",
                base64.b64encode(blob + b"\x00").rstrip(b"="), base64.b64encode(blob[:83]), base64.b64encode(blob[:83])[:-2] + b"/=",
                S[:60] + "\u00e9".encode() + S[61:], S[:10] + b"=" + S[11:], b"=" * 112, b"ZWdrMA==", base64.b64encode(VERSION + bytes(80)),
                base64.b64encode(b"egk1" + blob[4:]), base64.b64encode(b"\x65\x67\x6b\x10" + blob[4:])]
        for m in mal:
            def tryor(r, m=m):
                d = b64_lenient(m)
                if r["code"] == 0 and (d is None or len(d) != 84):
                    return ("only base64 strings of 84 bytes are well-formed private keys", r["raw"][:200])
                return None
            cases.append(KCase("sk_try", s=m, oracle=tryor, tags=["malformed"]))
            if m != S:
                cases.append(KCase("sk_unlock", s=m, pw=pw, oracle=must_fail("a string of another length/alphabet"), tags=["malformed"]))
        # strings of an INDEPENDENT writer: salts of special shape; every length around 84; the real process on them
        fcases, foreign = c15_foreign_cases(self, ctx)
        cases += fcases
        if foreign:
            cases += c15_length_cases(self, ctx, foreign)
        # changes to SEVERAL bytes (pairs, equal masks, permutations, exchanges); 112-character strings with characters of other scripts
        import props_kvs
        r6 = [(locks[i].result["out"], triples[i][1], triples[i][0]) for i in (1, 5) if locks[i].result["code"] == 0]
        for S6, pw6, sk6 in (r6 if ctx.thorough() else r6[:1]):
            cases += props_kvs.r6_c15_cases(self, ctx, S6, pw6, sk6)
        self.run_kcases(ctx, cases)
        if foreign:
            c15_proc_checks(self, ctx, foreign)
        # what the process did before has no influence: refused attempts, then the right password, in ONE driver process
        props_kvs.r6_c15_sequences(self, ctx)
        if r6:
            props_kvs.r6_c15_proc(self, ctx, *r6[0])
        ctx.search_note = "direct oracle over all %d cases" % ctx.evaluations


# =========================================================================== C16 (in-process part)
# passwords whose ends are white space: nothing may trim them (they travel through environment variables in the CLI)
WS_PASSWORDS = [b"trail ", "wide\u3000".encode("utf-8"), b" lead", b"tab\t", b" ", "\u00a0nbsp\u00a0".encode("utf-8"), b"two  "]
CH_PASSWORDS = [b"", b"a", "p\u00e4ss \u2713 \U0001F511".encode("utf-8"), b"L" * 100, b"hackme", b"A", b"k" * 64] + WS_PASSWORDS


def inproc_histories(self, ctx, nh):
    """sk_lock -> repeated unlock + lock under new (password, salt), as change-pass does; vs change_pass_seq"""
    rng = ctx.rng
    H = []
    for h in range(nh):
        n = 1 + h % 4
        pws = [rng.choice(CH_PASSWORDS) for _ in range(n + 1)]
        if h % 5 == 4:
            pws[-1] = pws[0]                 # the newest password equals an earlier one
        H.append({"sk": ctx.rbytes(32), "pws": pws, "salts": [ctx.rbytes(32) for _ in range(n + 1)], "strs": [], "cases": []})
    first = [KCase("sk_lock", sk=h["sk"], pw=h["pws"][0], salt=h["salts"][0], tags=["history-lock"]) for h in H]
    run_impl_k(first)
    for h, c in zip(H, first):
        h["strs"].append(c.result["out"] if c.result["code"] == 0 else None)
        h["cases"].append(c)
    for step in range(1, 5):
        act = [h for h in H if len(h["pws"]) > step and h["strs"][-1] is not None]
        un = [KCase("sk_unlock", s=h["strs"][-1], pw=h["pws"][step - 1], tags=["history-unlock"],
                    oracle=(lambda r, k=h["sk"]: None if r["code"] == 0 and r["out"] == k else
                            ("every string of the history unlocks with its password to the original key", r["raw"][:200]))) for h in act]
        run_impl_k(un)
        lk = []
        for h, c in zip(act, un):
            h["cases"].append(c)
            sk = c.result["out"] if c.result["code"] == 0 and len(c.result["out"]) == 32 else None
            if sk is None:
                h["strs"].append(None)
                lk.append(None)
                continue
            lk.append(KCase("sk_lock", sk=sk, pw=h["pws"][step], salt=h["salts"][step], tags=["history-lock"]))
        run_impl_k([c for c in lk if c is not None])
        for h, c in zip(act, lk):
            if c is not None:
                h["cases"].append(c)
                h["strs"].append(c.result["out"] if c.result["code"] == 0 else None)
    cases = []
    for h in H:
        cases += h["cases"]
        if any(s is None for s in h["strs"]):
            continue
        last, lastpw = h["strs"][-1], h["pws"][-1]
        cases.append(KCase("sk_unlock", s=last, pw=lastpw, tags=["history-final"],
                           oracle=(lambda r, k=h["sk"]: None if r["code"] == 0 and r["out"] == k else
                                   ("the newest string unlocks with the newest password to the original key", r["raw"][:200]))))
        for q in set(h["pws"][:-1]):
            if q == lastpw:
                continue
            cases.append(KCase("sk_unlock", s=last, pw=q, tags=["history-old-password"],
                               oracle=must_fail("an earlier password that differs from the newest")))
        # the whole history against the model's change_pass_seq
        syn = KCase("chpass_seq", locked=h["strs"][0], pw0=h["pws"][0],
                    steps=[[p.hex(), s.hex()] for p, s in zip(h["pws"][1:], h["salts"][1:])], tags=["history-seq", "len%d" % (len(h["pws"]) - 1)])
        syn.synthetic = True
        out = b"".join(s + b"\n" for s in h["strs"][1:])
        syn.result = {"id": None, "code": 0, "outcome": "ok", "out": out, "consumed": 0, "trace": [], "extra": b"",
                      "raw": "synthetic " + out.decode(), "entries": None, "msg": ""}

        def salts_ok(r, h=h):
            ds = [b64_lenient(s) for s in h["strs"]]
            got = [d[4:36] for d in ds]
            if got != h["salts"]:
                return ("every re-lock embeds the salt it was given", "salts=%r" % [g.hex() for g in got])
            return None
        syn.expect_fn = salts_ok
        cases.append(syn)
    return cases


# =========================================================================== real processes
class Run:
    def __init__(self, argv, env, stdin, rc, out, err):
        self.argv, self.env, self.stdin, self.rc, self.out, self.err = argv, env, stdin, rc, out, err

    def errtext(self):
        return self.err.decode("utf-8", "replace")

    def error_lines(self):
        """the meaningful part of stderr: the Error: message and the sender report"""
        t = self.errtext()
        i = t.find("Error: ")
        cls = []
        for l in t.splitlines():
            if l.startswith(("Success.", "Caution.", "Unknown key:")):
                cls.append(l)
        if i >= 0:
            cls.append(t[i:].rstrip("\n"))
        return tuple(cls)

    def describe(self, world=None):
        d = {"argv": ["kestrel"] + [a if isinstance(a, str) else os.fsdecode(a) for a in self.argv],
             "env": self.env, "exit": self.rc, "stderr": self.errtext()[-400:]}
        if self.stdin is not None:
            d["stdin"] = self.stdin if isinstance(self.stdin, str) else ("%d bytes: %s" % (len(self.stdin), self.stdin[:64].hex()))
        return d


class World:
    """a scratch directory and the CLI binary; every process runs without a controlling terminal, with stdin
    redirected and a timeout"""

    def __init__(self, prefix="kv_cli_"):
        self.dir = tempfile.mkdtemp(prefix=prefix, dir="/tmp")
        self.bin = vlib.CLIDRV
        self.nruns = 0
        self.log = []

    def p(self, name):
        return os.path.join(self.dir, name)

    def write(self, name, data):
        with open(self.p(name), "wb") as f:
            f.write(data)
        return self.p(name)

    def read(self, name):
        try:
            with open(self.p(name), "rb") as f:
                return f.read()
        except FileNotFoundError:
            return None

    def run(self, argv, env=None, stdin=None, timeout=120):
        """stdin: None (= /dev/null), bytes, or ('file', path)"""
        e = {"PATH": "/usr/bin:/bin", "HOME": self.dir, "LANG": "C.UTF-8"}
        if env:
            e.update(env)
        kw = {}
        fh = None
        if stdin is None:
            kw["stdin"] = subprocess.DEVNULL
        elif isinstance(stdin, tuple):
            fh = open(os.path.join(self.dir, stdin[1]), "rb")
            kw["stdin"] = fh
        else:
            kw["input"] = stdin
        _mx = mx_begin(self, "run", argv, env, stdin)
        try:
            pr = subprocess.run([self.bin] + list(argv), env=e, stdout=subprocess.PIPE, stderr=subprocess.PIPE,
                                start_new_session=True, timeout=timeout, cwd=self.dir, **kw)
            rc, out, err = pr.returncode, pr.stdout, pr.stderr
        except subprocess.TimeoutExpired as ex:
            rc, out, err = 124, ex.stdout or b"", (ex.stderr or b"") + b"\n[timeout]"
        finally:
            if fh:
                fh.close()
        self.nruns += 1
        r = Run(list(argv), dict(env or {}), ("<" + stdin[1]) if isinstance(stdin, tuple) else stdin, rc, out, err)
        mx_end(_mx, rc, out, err)
        return r

    def close(self):
        shutil.rmtree(self.dir, ignore_errors=True)


def env_pw(pw, new=None):
    e = {"KESTREL_PASSWORD": pw.decode("utf-8") if isinstance(pw, bytes) else pw}
    if new is not None:
        e["KESTREL_NEW_PASSWORD"] = new.decode("utf-8") if isinstance(new, bytes) else new
    return e


DECOY_NEW_PASSWORD = b"a DIFFERENT new password"   # KESTREL_NEW_PASSWORD belongs to change-pass only: nothing else may read it


def gen_key(world, name, pw, outfile=None, rand=None, decoy=False):
    """kestrel key generate; name: str.  Returns the Run.  decoy: KESTREL_NEW_PASSWORD is set as well, to another value"""
    argv = ["key", "generate"] + (["-o", outfile] if outfile else []) + ["--env-pass"]
    env = env_pw(pw, DECOY_NEW_PASSWORD if decoy else None)
    if rand is not None:
        env["KESTREL_VERIF_RANDOM"] = rand.hex()
    return world.run(argv, env=env, stdin=name.encode("utf-8") + b"\n")


def key_block(name, pub, priv=None):
    return b"[Key]\nName = " + name + b"\nPublicKey = " + pub + b"\n" + (b"PrivateKey = " + priv + b"\n" if priv else b"")


def parse_block(text):
    """fields of a single [Key] block the tool printed (name, pub, priv) as bytes"""
    d = {}
    for l in text.split(b"\n"):
        k, sep, v = l.partition(b" = ")
        if sep:
            d[k] = v
    return d.get(b"Name"), d.get(b"PublicKey"), d.get(b"PrivateKey")


class ProcProp(KProp):
    """process-level property: direct oracles on every run; the runs are RECORDED (World.mx_log) and compared with the CLI model
    afterwards in one batch (mx_compare)"""

    def model_expect(self, world, argv, env=None, stdin=None):
        """per-run hook of the direct checks: None (one coqc per run would cost seconds).  The CLI model (Model/CliGlue.v) is
        evaluated in BATCHES: on the recorded runs of the matrices themselves (mx_compare) and on the model's own case sets
        (model_cli_part / model_expect_case; see c12_model_cases etc.)."""
        return None

    def viol(self, ctx, scenario, commands, expected, observed, key=None):
        ctx.violations.append({"input": {"kind": "proc", "scenario": scenario, "commands": commands},
                               "expected": expected, "observed": observed, "finding_key": key})

    def judge(self, ctx, ok, scenario, runs, expected, observed, key=None):
        ctx.oracle_checks += 1
        if not ok:
            self.viol(ctx, scenario, [r.describe() for r in runs], expected, observed, key)
        return ok

    def pmap(self, fn, items):
        with ThreadPoolExecutor(max_workers=NPROC) as ex:
            return list(ex.map(fn, items))

    def sample(self, ctx, d):
        if len(ctx.samples) < 8:
            ctx.samples.append(d)


def secret_forms(sk):
    b = base64.b64encode(sk)
    return [("raw bytes", sk), ("hex", sk.hex().encode()), ("HEX", sk.hex().upper().encode()),
            ("base64", b[:42]), ("base64url", base64.urlsafe_b64encode(sk)[:42])]


# =========================================================================== C16
PROC_PASSWORDS = [b"", b"a", "p\u00e4ss \u2713 \U0001F511".encode("utf-8"), b"L" * 100] + WS_PASSWORDS


# ---- C16 in its surroundings: the key commands on a terminal / a pipe / a file, passwords by variable or typed, and under a
# KESTREL_KEYRING variable that names all sorts of things.  The references are independent of the implementation: RFC 7748 X25519
# written out here, RFC 7914 scrypt by OpenSSL (hashlib), RFC 8439 from the C15 section above.
def c16_x25519_pub(sk):
    """RFC 7748 section 5: X25519(k, 9)"""
    p = 2 ** 255 - 19
    kb = bytearray(sk)
    kb[0] &= 248
    kb[31] &= 127
    kb[31] |= 64
    k = int.from_bytes(kb, "little")
    x1, x2, z2, x3, z3, swap = 9, 1, 0, 9, 1, 0
    for t in range(254, -1, -1):
        kt = (k >> t) & 1
        swap ^= kt
        if swap:
            x2, x3, z2, z3 = x3, x2, z3, z2
        swap = kt
        a, b = (x2 + z2) % p, (x2 - z2) % p
        aa, bb = a * a % p, b * b % p
        e = (aa - bb) % p
        c, dd = (x3 + z3) % p, (x3 - z3) % p
        da, cb = dd * a % p, c * b % p
        x3, z3 = (da + cb) ** 2 % p, x1 * (da - cb) ** 2 % p
        x2, z2 = aa * bb % p, e * (aa + 121665 * e) % p
    if swap:
        x2, x3, z2, z3 = x3, x2, z3, z2
    return (x2 * pow(z2, p - 2, p) % p).to_bytes(32, "little")


C16_X25519_KAT = ("77076d0a7318a57d3c16c17251b26645df4c2f87ebc0992ab177fba51db92c2a", "8520f0098930a754748b7ddcb43ef75a0dbf3a0d26381af4eba4a98eaa9b4e6a")


def c16_ref_unlock(S, pw):
    """the documented unlock of a PrivateKey string, independent of the implementation -> ('ok', key) | ('refused', why) |
    ('unavailable', why) when OpenSSL's scrypt is missing"""
    try:
        blob = base64.b64decode(S, validate=True)
    except Exception:
        return ("refused", "not base64")
    if len(blob) != 84 or blob[:4] != VERSION:
        return ("refused", "%d bytes / version %r" % (len(blob), blob[:4]))
    k = py_scrypt(pw, blob[4:36])
    if k is None:
        return ("unavailable", "hashlib.scrypt")
    sk = bytes(a ^ b for a, b in zip(blob[36:68], c15_chacha_block(k, 1, bytes(12))))
    if c15_aead_seal(k, bytes(12), VERSION, sk) != blob[36:]:
        return ("refused", "authentication fails")
    return ("ok", sk)


def c16_unlock(S, pw):
    r = c16_ref_unlock(S, pw)
    if r[0] == "unavailable":                    # fall back on the in-process building block (compared with the model elsewhere)
        u = cli_ops(["sk_unlock %s %s" % (hexs(S), hexs(pw))])[0]
        return ("ok", unhex(u.get("out", "-"))) if u.get("outcome") == "ok" else ("refused", u.get("outcome", "?"))
    return r


def c16_ptyrun(job):
    """tools/ptyrun.py in a process of its own: ONE command with its three streams wired to a pseudo-terminal / pipes / files"""
    import json, sys
    try:
        p = subprocess.run([sys.executable, os.path.join(vlib.VERIF, "tools", "ptyrun.py")], input=json.dumps(job).encode(),
                           stdout=subprocess.PIPE, stderr=subprocess.PIPE, timeout=float(job.get("timeout", 120)) + 30)
        d = json.loads(p.stdout.decode() or "{}")
    except (subprocess.TimeoutExpired, ValueError) as e:
        d = {"rc": 125, "error": repr(e)[:200]}
    d.setdefault("rc", 125)
    for k in ("stdout", "stderr", "pty"):
        d[k] = bytes.fromhex(d.get(k, ""))
    return d


C16_STREAMS = ["pty", "pipe", "file"]
C16_DELIVER = ["env", "typed-at-dev-tty", "typed-on-stdin"]     # --env-pass | prompt on the controlling terminal | no controlling terminal: prompt on stderr, read from stdin (a terminal)
C16_KEYRING_ENVS = ["unset", "right-section", "wrong-section", "wrong-then-right-section", "stale-string", "public-only", "unrelated",
                    "missing-file", "a-directory", "junk", "not-utf8", "empty-file", "empty-value"]
C16_TYPEABLE = [b"", b"a", "p\u00e4ss \u2713 \U0001F511".encode("utf-8"), b"L" * 100, b"hackme", b"Tr0ub4dor&3"] + WS_PASSWORDS


def c16_keyring_env(kind, d, tag, me, other, cur, stale):
    """what KESTREL_KEYRING names in this run -> (value | None, text of the file | None).
    me = (name, PublicKey text); other = (name, PublicKey text, PrivateKey text); cur = the string the command is given"""
    path = os.path.join(d, "keyring_%s.txt" % tag)
    mine = lambda priv: key_block(me[0], me[1], priv)
    oth = key_block(other[0], other[1], other[2])
    text = None
    if kind == "unset":
        return None, None
    if kind == "right-section":
        text = oth + b"\n" + mine(cur)
    elif kind == "wrong-section":                         # the string pasted under ANOTHER contact's section
        text = key_block(other[0], other[1], cur) + b"\n" + mine(None)
    elif kind == "wrong-then-right-section":
        text = key_block(other[0], other[1], cur) + b"\n" + mine(cur)
    elif kind == "stale-string":                          # the keyring still lists an earlier string of the same key
        text = mine(stale) + b"\n" + oth
    elif kind == "public-only":
        text = mine(None) + b"\n" + oth
    elif kind == "unrelated":
        text = oth
    elif kind == "junk":
        text = b"this is not a keyring\nPrivateKey = " + cur + b"\n"
    elif kind == "not-utf8":
        text = mine(cur) + b"# caf\xe9\n"
    elif kind == "empty-file":
        text = b""
    elif kind == "missing-file":
        return os.path.join(d, "no_such_keyring_%s" % tag), None
    elif kind == "a-directory":
        return d, None
    elif kind == "empty-value":
        return "", None
    else:
        raise ValueError(kind)
    with open(path, "wb") as f:
        f.write(text)
    return path, text


def c16_surr_run(d, tag, cmd, S, pw, new, surr, me, other, stale):
    """one `key change-pass` / `key extract-pub` run in the surroundings `surr` = dict(stdout, stderr, deliver, keyring, decoy,
    stdin, envpass_first) -> record"""
    prompting = surr["deliver"] != "env"
    argv = ["key", cmd] + ((["--env-pass", S.decode()] if surr.get("envpass_first") else [S.decode(), "--env-pass"]) if not prompting else [S.decode()])
    env = {"PATH": "/usr/bin:/bin", "HOME": d, "LANG": "C.UTF-8"}
    typed = []
    if prompting:
        typed = [pw.decode("utf-8")] + ([new.decode("utf-8")] * 2 if cmd == "change-pass" else [])
        if surr.get("decoy") is not None:               # variables that nothing may read without --env-pass
            env.update(env_pw(surr["decoy"], DECOY_NEW_PASSWORD))
    else:
        env.update(env_pw(pw, new if cmd == "change-pass" else (DECOY_NEW_PASSWORD if surr.get("decoy") is not None else None)))
    kval, ktext = c16_keyring_env(surr["keyring"], d, tag, me, other, S, stale)
    if kval is not None:
        env["KESTREL_KEYRING"] = kval
    sin = "pty" if prompting else surr.get("stdin", "null")
    # (a controlling terminal that none of the child's descriptors keeps open would hang up at once: only together with stdin)
    job = {"argv": [vlib.CLIDRV] + argv, "env": env, "cwd": d, "ctty": surr["deliver"] == "typed-at-dev-tty" or (bool(surr.get("ctty")) and sin == "pty"),
           "stdin": sin, "stdout": surr["stdout"], "stderr": surr["stderr"],
           "stdout_path": os.path.join(d, "stdout_%s" % tag), "stderr_path": os.path.join(d, "stderr_%s" % tag), "typed": typed, "timeout": 90}
    res = c16_ptyrun(job)

    def stream(name):
        if job[name] == "pipe":
            return res[name]
        if job[name] == "pty":
            return res["pty"]
        try:
            with open(job[name + "_path"], "rb") as f:
                return f.read()
        except OSError:
            return b""
    return {"cmd": cmd, "S": S, "pw": pw, "new": new, "surr": surr, "job": job, "res": res, "out": stream("stdout"), "err": stream("stderr"),
            "keyring_text": ktext, "tag": tag}


def c16_surr_describe(R):
    j, res = R["job"], R["res"]
    d = {"argv": ["kestrel"] + j["argv"][1:], "env": {k: v for k, v in j["env"].items() if k.startswith("KESTREL_")},
         "streams": {"standard_input": "pseudo-terminal" if j["stdin"] == "pty" else "/dev/null", "standard_output": j["stdout"], "standard_error": j["stderr"],
                     "controlling_terminal": "the pseudo-terminal (/dev/tty opens)" if j["ctty"] else "none"},
         "typed_at_the_prompts": j["typed"], "exit": res.get("rc"), "stdout": R["out"][-300:].decode("utf-8", "replace"),
         "stderr": R["err"][-300:].decode("utf-8", "replace"), "driver": "tools/ptyrun.py"}
    if R["keyring_text"] is not None:
        d["file_named_by_KESTREL_KEYRING"] = R["keyring_text"].decode("utf-8", "replace")
    elif "KESTREL_KEYRING" in j["env"]:
        d["KESTREL_KEYRING_names"] = R["surr"]["keyring"]
    if res.get("error"):
        d["driver_error"] = res["error"]
    return d


def c16_printed(R, label):
    """the strings printed after `label = ` on the standard-output stream (a terminal's transcript also holds prompts)"""
    import re
    return re.findall(label + rb" = ([A-Za-z0-9+/=]*)", R["out"].replace(b"\r\n", b"\n"))


class C16(ProcProp):
    id = "C16"
    rule = ("cases: in-process histories sk_lock -> 1..4 x (unlock, lock under a new password and salt) compared with the "
            "model's change_pass_seq, newest string/newest password, every earlier password; process histories key generate "
            "-> 1..4 key change-pass (KESTREL_PASSWORD / KESTREL_NEW_PASSWORD over '', 'a', unicode, 100-byte, and passwords with "
            "leading / trailing space, TAB, U+00A0, U+3000 - each used as a new password) interleaved "
            "with extract-pub, a wrong old password, and an encrypt/decrypt with the re-locked key; runs with an injected "
            "random stream compared byte for byte with lock_private_key/serialize_key; secrets searched in every output; "
            "surroundings part (tools/ptyrun.py): 3 (thorough 8) histories from a GIVEN key (locked by an independent writer) whose change-pass / "
            "extract-pub runs have standard output and standard error on a pseudo-terminal, a pipe or a file (each history has both commands "
            "with standard output on the terminal), the passwords given by variable, typed at /dev/tty, or typed on standard input without a "
            "controlling terminal (with decoy KESTREL_* variables that nothing may read), and KESTREL_KEYRING unset / naming a keyring that lists "
            "the very PrivateKey string under the right section, under ANOTHER contact's section, under both, an earlier string of the key, only "
            "the public key, other keys, a missing file, a directory, junk, a non-UTF-8 file, an empty file, the empty string (13 kinds, each "
            "swept for extract-pub right / wrong password and change-pass); judged from the string and the passwords alone with an independent "
            "unlock (OpenSSL scrypt, RFC 8439 written out) and an independent RFC 7748 X25519: the printed PrivateKey unlocks under the NEW "
            "password to the original key, not under the old one, with a salt not seen before in the history; extract-pub prints the public key "
            "of the private key; a wrong / earlier password gives exit 1 and no key, whatever the surroundings; "
            "RELATED passwords (P0 = the UTF-8 of P1 read as ISO-8859-1 / Windows-1252, once or twice; composed / decomposed; one byte per character; "
            "fullwidth; case; eszett; UTF-16; a trailing blank) as earlier / newest password in process and through the real program, where the SAME "
            "change-pass command is issued a second time on the newest string (refused) and on the first string (succeeds with a third salt), a wrong "
            "old password is given while the requested new password is the current one, and extract-pub / encrypt / decrypt get the earlier password "
            "(props_kvs.r6_c16_*); non-trivial = all")
    assumptions = ["fresh salts come from the operating system's generator: distinctness is observed per history, not proved",
                   "the CLI process is judged by direct oracles and compared with the CLI model: every run of the process histories that has a UTF-8 "
                   "environment (quick 71 of 100; salts and generated keys recovered from the output; evidence model-compared:histories, "
                   "model-skipped:*) and 16 change-pass / extract-pub / generate runs of the model's own case set; its building blocks lock/unlock/encode "
                   "are compared with the model in-process"]

    def explore(self, ctx):
        cases = inproc_histories(self, ctx, 20 if ctx.thorough() else 8)
        # passwords that are related spellings of one another (mojibake, composed / decomposed, fullwidth, case ...)
        import props_kvs
        cases += props_kvs.r6_c16_inproc(self, ctx)
        self.run_kcases(ctx, cases)
        self.proc_histories(ctx, 24 if ctx.thorough() else 8)
        # ... through the real program, and the same change-pass command issued twice
        props_kvs.r6_c16_proc(self, ctx)
        t_su = time.time()
        self.surround_part(ctx)
        ctx.distribution["seconds:surroundings-part"] = round(time.time() - t_su, 1)
        # the process against the CLI model (change-pass / extract-pub / generate to stdout)
        model_cli_part(ctx, lambda ctx, mw, root: c16_model_cases(ctx, mw))
        ctx.search_note = "direct oracle over all %d cases" % ctx.evaluations

    def proc_histories(self, ctx, nh):
        rng = ctx.rng
        w = World()
        w.mx_log = []          # every process run below is recorded and compared with the CLI model in one batch (mx_compare)
        try:
            plans = []
            for h in range(nh):
                n = 1 + h % 4
                pws = [rng.choice(PROC_PASSWORDS) for _ in range(n + 1)]
                # every white-space password is used as a NEW password and as a generation password in the first histories
                pws[1] = WS_PASSWORDS[h % len(WS_PASSWORDS)]
                if h % 2 == 1:
                    pws[0] = WS_PASSWORDS[(h // 2 + 3) % len(WS_PASSWORDS)]
                if h % 4 == 3:
                    pws[-1] = pws[0]
                plans.append({"h": h, "name": rng.choice(["alice", "Bob B", "k\u00e9y \U0001F511", "n" * 128]) , "pws": pws,
                              "wrong": rng.choice([b"wrong", b"Wrong ", b"w"]), "rt": ctx.thorough() or h < 3,
                              "inject": (h % 3 == 2), "rand": [ctx.rbytes(64)] + [ctx.rbytes(32) for _ in range(n)],
                              "pt": ctx.rbytes(rng.choice([0, 10, 70000]))})
            recs = self.pmap(lambda pl: self.one_history(w, pl), plans)
            self.judge_histories(ctx, w, recs)
            some = [rec["strs"][0].decode() for rec in recs if rec.get("ok") and rec["strs"]]
            if some:
                nonutf8_password_checks(ctx, w, "keys", locked=some[0])
            ctx.evaluations += w.nruns
            self.count(ctx, "proc:runs", w.nruns)
        finally:
            w.close()
        mx_compare(ctx, w, mx_matrix({"run": "histories", "nonutf8": "non-utf8-env", "setup": "no"}))

    def one_history(self, w, pl):
        runs, strs, pubs = [], [], []
        inj = pl["inject"]
        r = gen_key(w, pl["name"], pl["pws"][0], rand=pl["rand"][0] if inj else None, decoy=(pl["h"] % 2 == 1))
        runs.append(("generate", r))
        name, pub, s0 = parse_block(r.out)
        rec = {"plan": pl, "runs": runs, "strs": strs, "pubs": pubs, "gen_pub": pub, "gen_name": name, "ok": r.rc == 0 and s0 is not None}
        if not rec["ok"]:
            return rec
        strs.append(s0)
        for i in range(1, len(pl["pws"])):
            env = env_pw(pl["pws"][i - 1], pl["pws"][i])
            if inj:
                env["KESTREL_VERIF_RANDOM"] = pl["rand"][i].hex()
            if i == 1:
                rw = w.run(["key", "change-pass", strs[-1].decode(), "--env-pass"], env=env_pw(pl["wrong"], pl["pws"][i]))
                runs.append(("change-pass-wrong", rw))
                rx = w.run(["key", "extract-pub", "--env-pass", strs[-1].decode()], env=env_pw(pl["pws"][0]))
                runs.append(("extract-pub", rx))
                pubs.append(rx.out)
            r = w.run(["key", "change-pass", strs[-1].decode(), "--env-pass"], env=env)
            runs.append(("change-pass", r))
            if r.rc != 0 or not r.out.startswith(b"PrivateKey = ") or not r.out.endswith(b"\n"):
                rec["ok"] = False
                return rec
            strs.append(r.out[len(b"PrivateKey = "):-1])
        rx = w.run(["key", "extract-pub", strs[-1].decode(), "--env-pass"], env=env_pw(pl["pws"][-1]))
        runs.append(("extract-pub", rx))
        pubs.append(rx.out)
        rxw = w.run(["key", "extract-pub", strs[-1].decode(), "--env-pass"], env=env_pw(pl["wrong"]))
        runs.append(("extract-pub-wrong", rxw))
        if pl["rt"]:
            h = pl["h"]
            r2 = gen_key(w, "peer", b"peerpw", outfile="peer%d.txt" % h)
            runs.append(("generate", r2))
            kr = key_block(name, pub, strs[-1]) + b"\n" + (w.read("peer%d.txt" % h) or b"")
            w.write("kr%d.txt" % h, kr)
            w.write("pt%d" % h, pl["pt"])
            e = w.run(["encrypt", "pt%d" % h, "-t", "peer", "-f", pl["name"], "-o", "ct%d" % h, "-k", "kr%d.txt" % h, "--env-pass"],
                      env=env_pw(pl["pws"][-1]))
            runs.append(("encrypt", e))
            d = w.run(["decrypt", "ct%d" % h, "-t", "peer", "-o", "out%d" % h, "-k", "kr%d.txt" % h, "--env-pass"], env=env_pw(b"peerpw"))
            runs.append(("decrypt", d))
            e2 = w.run(["encrypt", "pt%d" % h, "-t", pl["name"], "-f", "peer", "-o", "ct%db" % h, "-k", "kr%d.txt" % h, "--env-pass"],
                       env=env_pw(b"peerpw"))
            runs.append(("encrypt", e2))
            d2 = w.run(["decrypt", "ct%db" % h, "-t", pl["name"], "-o", "out%db" % h, "-k", "kr%d.txt" % h, "--env-pass"], env=env_pw(pl["pws"][-1]))
            runs.append(("decrypt", d2))
            rec["rt"] = (e, d, w.read("out%d" % h), e2, d2, w.read("out%db" % h))
        return rec

    def judge_histories(self, ctx, w, recs):
        # everything the driver has to tell us, in one batch
        ops = []
        for rec in recs:
            rec["i0"] = len(ops)
            if not rec["ok"]:
                continue
            pws = rec["plan"]["pws"]
            for s, p in zip(rec["strs"], pws):
                ops.append("sk_unlock %s %s" % (hexs(s), hexs(p)))
            for p in pws[:-1]:
                ops.append("sk_unlock %s %s" % (hexs(rec["strs"][-1]), hexs(p)))
        res = cli_ops(ops)
        for rec in recs:
            pl = rec["plan"]
            sc = "C16 history %d (%d password changes)" % (pl["h"], len(pl["pws"]) - 1)
            allruns = [r for _, r in rec["runs"]]
            self.count(ctx, "proc:history-len%d" % (len(pl["pws"]) - 1))
            if not self.judge(ctx, rec["ok"], sc, allruns, "key generate / change-pass succeed (exit 0) and print a key",
                              "exit codes %r" % [r.rc for r in allruns]):
                continue
            n = len(rec["strs"])
            un = res[rec["i0"]:rec["i0"] + n]
            old = res[rec["i0"] + n:rec["i0"] + 2 * n - 1]
            sks = [unhex(u.get("out", "-")) if u.get("outcome") == "ok" else None for u in un]
            self.judge(ctx, all(k is not None and k == sks[0] and len(k) == 32 for k in sks), sc, allruns,
                       "every string of the history unlocks with the password it was made under to one and the same key",
                       "unlock results %r" % [u.get("outcome") for u in un])
            for p, o in zip(pl["pws"][:-1], old):
                same = p == pl["pws"][-1]
                self.judge(ctx, (o.get("outcome") == "ok") == same and (same or o.get("outcome", "").startswith("err")), sc, allruns,
                           "an earlier password %s on the newest string" % ("still works when equal to the newest" if same else "fails"),
                           "password %r: %s" % (p[:20], o.get("outcome")))
            salts = [b64_lenient(s)[4:36] for s in rec["strs"] if b64_lenient(s)]
            if not pl["inject"]:
                self.judge(ctx, len(set(salts)) == len(rec["strs"]), sc, allruns, "every change uses a new salt", "salts %r" % [s.hex() for s in salts])
            want_pub = b"PublicKey = " + (rec["gen_pub"] or b"?") + b"\n"
            self.judge(ctx, all(p == want_pub for p in rec["pubs"]), sc, allruns,
                       "extract-pub prints the PublicKey line written at generation: %r" % want_pub, "printed %r" % rec["pubs"])
            for kind, r in rec["runs"]:
                if kind in ("change-pass-wrong", "extract-pub-wrong"):
                    self.judge(ctx, r.rc == 1 and r.out == b"" and "Error:" in r.errtext(), sc, [r],
                               "a wrong password: exit 1, an Error: message, nothing on stdout", "exit %d stdout=%r" % (r.rc, r.out[:80]))
                elif kind != "decrypt" or True:
                    pass
            sk = sks[0]
            if sk is not None and len(sk) == 32:
                rec["sk"] = sk
                for kind, r in rec["runs"]:
                    for what, needle in secret_forms(sk):
                        for stream, data in (("stdout", r.out), ("stderr", r.err)):
                            if kind == "decrypt" and stream == "stdout":
                                continue
                            ctx.oracle_checks += 1
                            if needle in data:
                                self.viol(ctx, sc, [r.describe()], "the raw private key never appears in any output",
                                          "%s of the private key found in %s of %s" % (what, stream, kind))
            if "rt" in rec:
                e, d, out, e2, d2, out2 = rec["rt"]
                self.judge(ctx, e.rc == 0 and d.rc == 0 and out == pl["pt"] and ("Success. File from: " + pl["name"]) in d.errtext(), sc, [e, d],
                           "the re-locked key encrypts as sender under the newest password; the peer decrypts and sees the sender's name",
                           "exit %d/%d, plaintext equal: %s, stderr %r" % (e.rc, d.rc, out == pl["pt"], d.errtext()[-120:]))
                self.judge(ctx, e2.rc == 0 and d2.rc == 0 and out2 == pl["pt"], sc, [e2, d2],
                           "the re-locked key decrypts as recipient under the newest password",
                           "exit %d/%d, plaintext equal: %s" % (e2.rc, d2.rc, out2 == pl["pt"]))
        # byte-exactness of the injected runs against the in-process building blocks
        inj = [rec for rec in recs if rec["ok"] and rec["plan"]["inject"] and "sk" in rec]
        ops, idx = [], []
        for rec in inj:
            pl = rec["plan"]
            sk, salt0 = pl["rand"][0][:32], pl["rand"][0][32:]
            idx.append(len(ops))
            ops.append("sk_lock %s %s %s" % (hexs(sk), hexs(pl["pws"][0]), hexs(salt0)))
            for i in range(1, len(pl["pws"])):
                ops.append("sk_lock %s %s %s" % (hexs(sk), hexs(pl["pws"][i]), hexs(pl["rand"][i])))
        res = cli_ops(ops)
        pubs = lib_ops(ctx.bin, ["xpub " + hexs(rec["plan"]["rand"][0][:32]) for rec in inj])
        encs = cli_ops(["pk_encode " + p.get("out", "00") for p in pubs])
        for rec, i0, enc in zip(inj, idx, encs):
            pl = rec["plan"]
            want = [unhex(r.get("out", "-")) for r in res[i0:i0 + len(pl["pws"])]]
            self.count(ctx, "proc:injected-random-history")
            self.judge(ctx, rec["strs"] == want and rec["sk"] == pl["rand"][0][:32] and rec["gen_pub"] == unhex(enc.get("out", "-")),
                       "C16 history %d with injected random stream" % pl["h"], [r for _, r in rec["runs"]],
                       "generate draws the key then the salt, change-pass draws the salt; the printed strings equal lock_private_key "
                       "on those values and the public key is the X25519 public key of the private key", "strings %r vs %r" % (rec["strs"], want))

    # ---- the key commands in their surroundings: standard output / error on a terminal, a pipe, a file; passwords by variable,
    # typed at /dev/tty, typed on standard input; KESTREL_KEYRING unset / naming a keyring that lists the very string (under the
    # right section, under another contact's section, both), an earlier string, other keys, no file, a directory, junk ...
    # What is printed must depend on the string and the password ONLY.
    def surr(self, rng, **fixed):
        s = {"stdout": rng.choice(C16_STREAMS), "stderr": rng.choice(C16_STREAMS), "deliver": rng.choice(C16_DELIVER),
             "keyring": rng.choice(C16_KEYRING_ENVS), "stdin": rng.choice(["null", "pty"]), "ctty": rng.random() < 0.3,
             "envpass_first": rng.random() < 0.5, "decoy": None}
        s.update(fixed)
        return s

    def surr_lock(self, sk, pw, salt):
        blob = c15_ref_blob(sk, pw, salt)
        if blob is None:
            return unhex(cli_ops(["sk_lock %s %s %s" % (hexs(sk), hexs(pw), hexs(salt))])[0]["out"])
        return base64.b64encode(blob)

    def surr_wrong(self, rng, p, earlier=()):
        c = [q for q in list(earlier) + [p + b"x", p[:-1] if p else b"w", b"nonsense", b"", p.swapcase(), p + b" "] if hmac_key(q) != hmac_key(p) and c15_envable(q)]
        return rng.choice(c)

    def surround_part(self, ctx):
        rng = ctx.rng
        full = ctx.thorough()
        if c16_x25519_pub(bytes.fromhex(C16_X25519_KAT[0])).hex() != C16_X25519_KAT[1]:
            raise RuntimeError("C16: the reference X25519 does not reproduce the RFC 7748 vector")
        w = World(prefix="kv_c16s_")
        try:
            osk = ctx.rbytes(32)
            other = (b"other contact", c15_enc_pub(c16_x25519_pub(osk)), self.surr_lock(osk, b"other pw", ctx.rbytes(32)))
            nh = 8 if full else 3
            plans = []
            for h in range(nh):
                n = (1 + h % 4) if full else (2, 3, 2)[h % 3]
                pws = [rng.choice(C16_TYPEABLE)]
                for i in range(n):
                    q = rng.choice(C16_TYPEABLE)
                    if q == pws[-1] and rng.random() < 0.8:
                        q = q + b"+"
                    pws.append(q)
                if h % 4 == 2 and hmac_key(pws[0]) != hmac_key(pws[-2]):
                    pws[-1] = pws[0]                     # a password that comes back
                sk = ctx.rbytes(32)
                steps = []
                for i in range(1, n + 1):
                    # every history has a change-pass and an extract-pub whose standard output is a terminal; the three ways of giving
                    # the passwords rotate
                    steps.append({"change": self.surr(rng, stdout=C16_STREAMS[(h + i - 1) % 3], deliver=C16_DELIVER[(2 * h + i) % 3]),
                                  "extract": self.surr(rng, stdout=C16_STREAMS[(h + i) % 3], deliver=C16_DELIVER[(h + i) % 3]),
                                  "wrong": self.surr(rng, stdout=C16_STREAMS[(h + i + 1) % 3]),
                                  # step 1: a wrong OLD password for change-pass; later steps: extract-pub with the password before the last change
                                  "wrong_pw": self.surr_wrong(rng, pws[i - 1], pws[max(0, i - 2):i - 1])})
                plans.append({"h": h, "name": rng.choice([b"alice", b"Bob B", "kéy".encode("utf-8")]), "sk": sk, "pub": c15_enc_pub(c16_x25519_pub(sk)),
                              "pws": pws, "S0": self.surr_lock(sk, pws[0], ctx.rbytes(32)), "stale0": self.surr_lock(sk, b"an earlier password", ctx.rbytes(32)),
                              "steps": steps, "final": self.surr(rng, stdout=C16_STREAMS[h % 3]), "other": other})
            recs = self.pmap(lambda pl: self.surr_history(w, pl), plans)
            for rec in recs:
                self.surr_judge_history(ctx, rec)
            # ---- the sweep over what KESTREL_KEYRING names, on the newest string of each history
            jobs = []
            done = [rec for rec in recs if rec["complete"]]
            for k, kind in enumerate(C16_KEYRING_ENVS):
                for rec in (done if full else done[k % max(1, len(done)):][:1]):
                    pl = rec["plan"]
                    S, p = rec["strs"][-1], pl["pws"][-1]
                    stale = rec["strs"][-2]
                    base = {"rec": rec, "S": S, "stale": stale}
                    fast = lambda **kw: self.surr(rng, keyring=kind, deliver=rng.choice(["env", "env", "env"] + C16_DELIVER), **kw)
                    jobs.append(dict(base, cmd="extract-pub", pw=p, new=None, role="extract", surr=fast()))
                    jobs.append(dict(base, cmd="extract-pub", pw=self.surr_wrong(rng, p, pl["pws"][:-1]), new=None, role="extract-wrong", surr=fast()))
                    jobs.append(dict(base, cmd="change-pass", pw=p, new=rng.choice(C16_TYPEABLE) + b"!", role="change", surr=fast()))
                    if full or kind in ("right-section", "wrong-section", "wrong-then-right-section", "stale-string"):
                        jobs.append(dict(base, cmd="extract-pub", pw=self.surr_wrong(rng, p, pl["pws"][:-1]), new=None, role="extract-wrong", surr=fast(stdout="pty")))
                        jobs.append(dict(base, cmd="change-pass", pw=self.surr_wrong(rng, p, pl["pws"][:-1]), new=b"never used", role="change-wrong", surr=fast()))
                        jobs.append(dict(base, cmd="extract-pub", pw=p, new=None, role="extract", surr=fast(stdout=rng.choice(["pty", "file"]))))
            for i, j in enumerate(jobs):
                j["i"] = i
                if j["surr"]["deliver"] != "env" and rng.random() < 0.5:     # variables nothing may read without --env-pass
                    j["surr"]["decoy"] = j["rec"]["plan"]["pws"][-1] if j["role"].endswith("wrong") else b"decoy: not the password"

            def sweep_one(j):
                pl = j["rec"]["plan"]
                R = c16_surr_run(w.dir, "s%d" % j["i"], j["cmd"], j["S"], j["pw"], j["new"], j["surr"], (pl["name"], pl["pub"]), pl["other"], j["stale"])
                R["role"], R["h"] = j["role"], pl["h"]
                return R
            for j, R in zip(jobs, self.pmap(sweep_one, jobs)):
                pl = j["rec"]["plan"]
                self.count(ctx, "surroundings:keyring-variable:%s:%s" % (j["surr"]["keyring"], j["role"]))
                self.surr_judge_run(ctx, R, pl, j["rec"]["strs"], "C16 surroundings, KESTREL_KEYRING %s" % j["surr"]["keyring"])
            nr = sum(len(rec["runs"]) for rec in recs) + len(jobs)
            ctx.evaluations += nr
            self.count(ctx, "proc:runs", nr)
            self.sample(ctx, {"gen": "surroundings", "histories": nh, "runs": nr, "streams": "stdout/stderr in {terminal, pipe, file}",
                              "passwords": C16_DELIVER, "KESTREL_KEYRING": C16_KEYRING_ENVS})
        finally:
            w.close()

    def surr_history(self, w, pl):
        d = os.path.join(w.dir, "h%d" % pl["h"])
        os.mkdir(d)
        runs, strs = [], [pl["S0"]]
        seq = itertools.count()

        def go(cmd, pw, new, surr, role):
            surr = dict(surr)
            if surr["deliver"] != "env" and surr.get("decoy") is None and (pl["h"] + len(runs)) % 2 == 0:
                surr["decoy"] = pl["pws"][len(strs) - 1] if role.endswith("wrong") else b"decoy: not the password"
            R = c16_surr_run(d, "%d_%d" % (pl["h"], next(seq)), cmd, strs[-1], pw, new, surr, (pl["name"], pl["pub"]), pl["other"],
                             strs[-2] if len(strs) > 1 else pl["stale0"])
            R["role"], R["h"] = role, pl["h"]
            runs.append(R)
            return R
        for i, st in enumerate(pl["steps"], 1):
            old, new = pl["pws"][i - 1], pl["pws"][i]
            go("extract-pub", old, None, st["extract"], "extract")
            if i == 1:
                go("change-pass", st["wrong_pw"], new, st["wrong"], "change-wrong")
            else:
                go("extract-pub", st["wrong_pw"], None, st["wrong"], "extract-wrong")
            R = go("change-pass", old, new, st["change"], "change")
            got = c16_printed(R, b"PrivateKey")
            if R["res"].get("rc") != 0 or len(got) != 1 or got[0] == strs[-1]:
                break
            strs.append(got[0])
        complete = len(strs) == len(pl["pws"])
        if complete:
            go("extract-pub", pl["pws"][-1], None, pl["final"], "extract")
        return {"plan": pl, "runs": runs, "strs": strs, "complete": complete}

    def surr_judge_history(self, ctx, rec):
        pl = rec["plan"]
        sc = "C16 surroundings, history %d (%d password changes)" % (pl["h"], len(pl["pws"]) - 1)
        for R in rec["runs"]:
            self.count(ctx, "surroundings:%s:stdout=%s,passwords=%s" % (R["cmd"], R["surr"]["stdout"], R["surr"]["deliver"]))
            self.count(ctx, "surroundings:keyring-variable:%s:%s" % (R["surr"]["keyring"], R["role"]))
            # the strings of the history known when R ran: everything up to R's own input
            upto = rec["strs"][:rec["strs"].index(R["S"]) + 1] if R["S"] in rec["strs"] else rec["strs"]
            self.surr_judge_run(ctx, R, pl, upto, sc)
        desc = [c16_surr_describe(R) for R in rec["runs"] if R["role"] == "change"]
        if rec["complete"]:
            salts = [base64.b64decode(s)[4:36] for s in rec["strs"]]
            ctx.oracle_checks += 1
            if len(set(salts)) != len(salts):
                self.viol(ctx, sc, desc, "every change uses a new salt", "salts %r" % [s.hex() for s in salts])
            for p in pl["pws"][:-1]:
                same = hmac_key(p) == hmac_key(pl["pws"][-1])
                u = c16_unlock(rec["strs"][-1], p)
                ctx.oracle_checks += 1
                if (u[0] == "ok") != same:
                    self.viol(ctx, sc, desc, "an earlier password %s on the newest string" % ("still works when equal to the newest" if same else "fails"),
                              "password %r: %s" % (p[:20], u[0]))

    def surr_judge_run(self, ctx, R, pl, known_strs, sc):
        """one run judged from the string, the password(s) and the key alone"""
        res, role, surr = R["res"], R["role"], R["surr"]
        sc = "%s: key %s, standard output %s, standard error %s, passwords %s, KESTREL_KEYRING %s" % (
            sc, R["cmd"], surr["stdout"], surr["stderr"], surr["deliver"], surr["keyring"])
        desc = [c16_surr_describe(R)]
        rc = res.get("rc")
        out = R["out"].replace(b"\r\n", b"\n")
        strict = surr["stdout"] != "pty"            # a terminal's transcript also holds the prompts
        privs, pubs = c16_printed(R, b"PrivateKey"), c16_printed(R, b"PublicKey")

        def J(ok, expected, observed):
            ctx.oracle_checks += 1
            if not ok:
                self.viol(ctx, sc, desc, expected, observed)
            return ok
        shown = "exit %s, standard output %r, standard error %r %s" % (rc, out[-200:], R["err"][-200:], res.get("error", ""))
        if role.endswith("wrong"):
            J(rc == 1 and not privs and not pubs and (not strict or out == b"") and b"Error:" in R["err"],
              "a password that does not unlock the string (%r): exit 1, an Error: message, no key on standard output" % R["pw"][:24], shown)
        elif role == "extract":
            want = b"PublicKey = " + pl["pub"] + b"\n"
            J(rc == 0 and pubs == [pl["pub"]] and not privs and (not strict or out == want),
              "extract-pub with the password of the string prints the X25519 public key of the private key in the keyring encoding: %r" % want, shown)
        else:
            ok = J(rc == 0 and len(privs) == 1 and not pubs and (not strict or out == b"PrivateKey = " + privs[0] + b"\n"),
                   "change-pass with the password of the string succeeds and prints one PrivateKey line", shown)
            if ok:
                X = privs[0]
                u = c16_unlock(X, R["new"])
                J(u == ("ok", pl["sk"]), "the printed string unlocks with the NEW password %r to the original private key" % R["new"][:24],
                  "printed %r: %s%s" % (X, u[0], "" if u[0] != "ok" else " (another key)") + ("; it is the string that was given" if X == R["S"] else ""))
                if hmac_key(R["pw"]) != hmac_key(R["new"]):
                    uo = c16_unlock(X, R["pw"])
                    J(uo[0] != "ok", "the old password %r no longer unlocks the printed string" % R["pw"][:24], "it unlocks it")
                try:
                    salt = base64.b64decode(X)[4:36]
                except Exception:
                    salt = None
                J(salt is not None and salt not in [base64.b64decode(s)[4:36] for s in known_strs], "the change uses a new salt",
                  "salt %s, salts so far %r" % (salt.hex() if salt else None, [base64.b64decode(s)[4:36].hex() for s in known_strs]))
        for what, needle in secret_forms(pl["sk"]):
            for stream, data in (("standard output", R["out"]), ("standard error", R["err"]), ("the terminal", res["pty"])):
                ctx.oracle_checks += 1
                if needle in data:
                    self.viol(ctx, sc, desc, "the raw private key never appears in any output", "%s of the private key found on %s" % (what, stream))


props.REGISTRY[C15.id] = C15()
props.REGISTRY[C16.id] = C16()


# =========================================================================== C14
GEN_NAMES = ["alice", "Bob B", "carol", "dave", "k\u00e9y \U0001F511", "x=y", "# hash", "e" * 128, "\u00fc" * 64, "z z z", "[Key]", "Name = n"]


# ---- the key-name prompt: what is typed, how it reaches the program, what name results ------------------------------
import select as _select, time as _time

# char::is_whitespace blanks other than the ASCII ones, and blank-LOOKING characters that are NOT white space for Rust
UNI_WS = ["\u0085", "\u00a0", "\u1680", "\u2000", "\u2001", "\u2002", "\u2003", "\u2004", "\u2005", "\u2006", "\u2007", "\u2008",
          "\u2009", "\u200a", "\u2028", "\u2029", "\u202f", "\u205f", "\u3000"]
ASCII_WS = [" ", "\r", "\u000b", "\u000c"]            # TAB is refused inside a name, LF ends the line
UNI_NOT_WS = ["\u200b", "\ufeff", "\u180e", "\u2060", "\u00ad", "\u001c", "\u001f", "\u200e", "\u2800"]


def typed_name_expect(data):
    """the name `key generate` works with when its standard input carries `data` (commands.rs::ask_user_stderr = read_line +
    str::trim, then valid_key_name; Model/Cli.v::ask_user_stdin): the FIRST line only - up to the first LF or the end of input -
    decoded as UTF-8 and trimmed of char::is_whitespace characters.  -> ('ok', name) | ('refused', why)"""
    line = data.split(b"\n", 1)[0]
    try:
        s = line.decode("utf-8")
    except UnicodeDecodeError:
        return ("refused", "the line is not UTF-8")
    n = rust_trim(s)
    if not n:
        return ("refused", "empty name")
    if len(n.encode("utf-8")) > 128:
        return ("refused", "name of %d bytes" % len(n.encode("utf-8")))
    if "\t" in n:
        return ("refused", "TAB inside the name")
    return ("ok", n)


def run_fed(world, argv, env, chunks, gap=0.1, prompt=b"Key name: ", timeout=120):
    """like World.run with stdin a PIPE that is fed the way a slow writer feeds it: the program is started, the feeder waits until
    the prompt has appeared on stderr (the program is then at, or about to enter, its read of stdin), then performs ONE write(2) per
    chunk, `gap` seconds apart, and closes the pipe.  A reader that takes a line sees the same line however it is cut."""
    e = {"PATH": "/usr/bin:/bin", "HOME": world.dir, "LANG": "C.UTF-8"}
    if env:
        e.update(env)
    _mx = mx_begin(world, "fed", argv, env, b"".join(chunks))
    pr = subprocess.Popen([world.bin] + list(argv), env=e, stdin=subprocess.PIPE, stdout=subprocess.PIPE, stderr=subprocess.PIPE,
                          start_new_session=True, cwd=world.dir, bufsize=0)
    seen = b""
    t0 = _time.time()
    fd = pr.stderr.fileno()
    while prompt and prompt not in seen and _time.time() - t0 < 20:
        r, _, _ = _select.select([fd], [], [], 0.5)
        if r:
            b = os.read(fd, 4096)
            if not b:
                break
            seen += b
    try:
        for i, ch in enumerate(chunks):
            if i:
                _time.sleep(gap)
            if ch:
                os.write(pr.stdin.fileno(), ch)
    except (BrokenPipeError, OSError):
        pass                      # the program has finished with its input and gone
    try:
        pr.stdin.close()
    except OSError:
        pass
    pr.stdin = None
    try:
        out, err = pr.communicate(timeout=timeout)
        rc = pr.returncode
    except subprocess.TimeoutExpired:
        pr.kill()
        out, err = pr.communicate()
        rc, err = 124, (err or b"") + b"\n[timeout]"
    world.nruns += 1
    mx_end(_mx, rc, out or b"", seen + (err or b""))
    shown = b" | ".join(chunks)
    return Run(list(argv), dict(env or {}), "%d write(s), %.0f ms apart: %s" % (len(chunks), gap * 1000, " | ".join(c.hex() for c in chunks)) if len(chunks) > 1 else shown,
               rc, out or b"", seen + (err or b""))


def gen_key_fed(world, chunks, pw, outfile=None, gap=0.1, decoy=False, rand=None):
    """kestrel key generate with the answer to the name prompt delivered as the given writes"""
    argv = ["key", "generate"] + (["-o", outfile] if outfile else []) + ["--env-pass"]
    env = env_pw(pw, DECOY_NEW_PASSWORD if decoy else None)
    if rand is not None:
        env["KESTREL_VERIF_RANDOM"] = rand.hex()
    return run_fed(world, argv, env, chunks, gap=gap)


def cut_points_utf8(b):
    """offsets strictly inside a multi-byte UTF-8 sequence of b"""
    return [i for i in range(1, len(b)) if b[i] & 0xC0 == 0x80]


def name_deliveries(rng, line, thorough=False):
    """ways one answer `line` (bytes, no LF) to the name prompt can reach the program: [(label, chunks, gap)].  The first LF ends
    the answer; what follows it belongs to whoever reads next."""
    tails = [b"bob@example.org\n", b"second line\nthird line\n", b"\n\n", "\u3000zw\u00f6lf\n".encode("utf-8"), b"[Key]\nName = intruder\n",
             b"x" * 700 + b"\n"]
    nl = line + b"\n"
    D = [("one write, LF", [nl], 0), ("one write, no line end, then end of input", [line], 0), ("one write, CRLF", [line + b"\r\n"], 0),
         ("one write, several lines", [nl + rng.choice(tails)], 0), ("one write, several CRLF lines", [line + b"\r\n" + rng.choice(tails).replace(b"\n", b"\r\n")], 0),
         ("name | LF", [line, b"\n"], 0.12), ("name CR | LF", [line + b"\r", b"\n"], 0.12),
         ("line | further lines", [nl, rng.choice(tails)], 0.05)]
    if len(line) >= 2:
        k = rng.randint(1, len(line) - 1)
        D.append(("two writes, cut at byte %d" % k, [line[:k], line[k:] + b"\n"], 0.12))
        k1, k2 = sorted(rng.sample(range(1, len(line) + 1), 2)) if len(line) >= 3 else (1, 2)
        D.append(("three writes, then end of input", [line[:k1], line[k1:k2], line[k2:]], 0.08))
    cuts = cut_points_utf8(line)
    if cuts:
        k = rng.choice(cuts)
        D.append(("two writes, cut inside a UTF-8 sequence at byte %d" % k, [line[:k], line[k:] + b"\n"], 0.12))
        D.append(("two writes, cut inside a UTF-8 sequence, several lines", [line[:k], line[k:] + b"\n" + rng.choice(tails)], 0.12))
    if len(nl) <= (40 if thorough else 16):
        D.append(("one byte per write", [nl[i:i + 1] for i in range(len(nl))], 0.012))
    return D


def blank_names(rng, n):
    """n distinct key names (1..128 bytes, none equal to another after removing every blank) with Unicode blanks INSIDE: white-space
    characters of every kind and zero-width / format look-alikes.  They are legal names; the parser may only trim the ends."""
    words = ["Ana", "Maria", "\u5c71\u7530", "\u592a\u90ce", "k\u00e9y", "\U0001F511", "x", "Yo", "=", "#1", "van", "der", "Z"]
    out, keys = [], set()
    while len(out) < n:
        k = rng.randint(2, 4)
        ws = [rng.choice(words) for _ in range(k)]
        s = ws[0]
        for w_ in ws[1:]:
            s += rng.choice(UNI_WS + UNI_WS + UNI_NOT_WS + ASCII_WS) * rng.choice([1, 1, 1, 2]) + w_
        key = "".join(ch for ch in s if ch not in UNI_WS + UNI_NOT_WS + ASCII_WS)
        if len(s.encode("utf-8")) <= 128 and key not in keys:
            keys.add(key)
            out.append(s)
    return out


def pad_ws(rng, name, kinds=None):
    """what a user may type for `name`: the name with white space (ASCII and Unicode) before and after it"""
    kinds = kinds or (UNI_WS + ASCII_WS + ["\t"])
    return "".join(rng.choice(kinds) for _ in range(rng.randint(0, 3))) + name + "".join(rng.choice(kinds) for _ in range(rng.randint(0, 3)))


class C14(ProcProp):
    id = "C14"
    rule = ("cases: histories of 1..4 'key generate -o F' (distinct names incl. unicode/128-byte/look-alike names and names that differ "
            "only in case, alice/Alice, e-acute/E-acute; passwords '', "
            "'a', unicode, 100-byte) over initial states of F {absent, empty, one key with / without trailing newline, CRLF "
            "line ends, with comments, two keys, blank lines only, a symbolic link (absolute / relative) to a keyring of one / two "
            "keys, a dangling symbolic link}; after every run: exit 0, previous bytes are a prefix, the "
            "file parses (driver kr_parse), all earlier and all generated entries are present in order, every generated key "
            "unlocks with its password to the key whose public key is the PublicKey line; encrypt/decrypt by name; "
            "names as ANSWERS TO THE PROMPT: Unicode blanks inside the name (every char::is_whitespace character, zero-width / format "
            "look-alikes), white space typed around it, names that differ only by such a blank, an existing keyring with Unicode "
            "blanks around heads / keys / values and inside a name; the answer delivered through a pipe in one write, in two or "
            "three writes cut anywhere (also inside a UTF-8 sequence), one byte per write, without a line end, with CRLF, "
            "followed by further lines in the same or a later write (the feeder waits for the prompt, then writes); "
            "LARGE keyrings (one own key, contacts, comment blocks) sized so that the offsets 4 KiB, 8 KiB, 64 KiB, 1 MiB (thorough up to 4 MiB) "
            "fall inside the Name / PublicKey / PrivateKey value of the first, second or third generated block, between its lines, right "
            "before / behind it, or lie wholly before the generated keys: same judgement, then EVERY key of the file (the old one and each "
            "generated one) encrypts to itself and decrypts through -k F (tools/props_kvs.py::c14_big); "
            "name SETS with an order relation - mixed-case initials (alice, Bob, carol, Dave), names that are prefixes of one another (alice-work, alice, "
            "al), names with the format's punctuation that agree up to it (ops #1, ops #2; a=b, a; [Key]x, [Key) - generated in the given, the reverse "
            "and random orders (thorough: up to 24 permutations), then EVERY key encrypts to the next one by name (props_kvs.r6_c14_related_names); "
            ""
            "EVERY process run of the histories is recorded and compared in one batch with the CLI model (Run/RunCli.v::run_cli_tree_x): the "
            "random bytes of a key generation are RECOVERED from the key it printed (the salt, and the private key by unlocking it with the "
            "run's password), so the model must reproduce the file byte for byte - quick 87 of 300 generations (seed 1; the X25519 of a fresh "
            "key costs 3 s of vm_compute), the others up to lengths on a stand-in stream (131), thorough all byte for byte; NOT compared, "
            "counted by reason (model-skipped:*): F a symbolic link (50), round trips over 6 KiB (6), quick tier: the encrypt / decrypt round "
            "trips with the freshly generated keys (82); non-trivial = every run")
    assumptions = ["the histories are judged by direct oracles AND, step by step, by the CLI model on the recovered random bytes (quick: a budgeted "
                   "part byte for byte, the rest up to lengths; evidence: model-compared:*, model-compared-lengths-only:*, model-skipped:*); "
                   "symbolic-link states are judged by the direct oracles only; in addition every step of 4 (thorough 6) short histories is compared with the CLI "
                   "model (Model/CliGlue.v::real_cli_main with the injected random stream), each step started from the real file of the previous one"]

    def initial_states(self, ctx):
        ks = make_keys(ctx, 2)
        S = lock_keys([(ks[0][0], b"oldpw", ctx.rbytes(32)), (ks[1][0], b"oldpw", ctx.rbytes(32))])
        b1, b2 = key_block(b"old1", ks[0][2], S[0]), key_block(b"old2", ks[1][2], S[1])
        com = b"# my keyring\n\n[Key]\n# the first key\nName = old1\nPublicKey = " + ks[0][2] + b"\n\n# end of file\n"
        return [("absent", None, []), ("empty", b"", []), ("one-key-newline", b1, [b"old1"]), ("one-key-no-newline", b1[:-1], [b"old1"]),
                ("crlf", b1.replace(b"\n", b"\r\n"), [b"old1"]), ("comments", com, [b"old1"]), ("two-keys", b1 + b"\n" + b2, [b"old1", b"old2"]),
                ("blank-lines", b"\n\n", []),
                # F is a symbolic link: the keyring it points to is the file that must keep its keys
                ("symlink-to-one-key", b1, [b"old1"]), ("symlink-to-two-keys", b1 + b"\n" + b2, [b"old1", b"old2"]),
                ("symlink-relative-to-one-key", b1, [b"old1"]), ("symlink-dangling", None, []),
                # an existing keyring as pasted from a web page / written with a CJK input method: Unicode blanks around section
                # heads, keys and values (trimmed by the parser), INSIDE a name (part of the name), in comments and blank lines
                ("unicode-blanks", ("#\u00a0my\u3000keyring \ufeff\n\u3000\n[Key]\u00a0\n\u2003Name =\u3000old\u2003one\u00a0\nPublicKey\u00a0=\u2009".encode("utf-8")
                                    + ks[0][2] + "\u3000\n\u200a# end\u2028of file\n\u0085\n".encode("utf-8")
                                    + key_block("\u200bold\u00a0two\ufeff".encode("utf-8"), ks[1][2], S[1])),
                 ["old\u2003one".encode("utf-8"), "\u200bold\u00a0two\ufeff".encode("utf-8")])]

    def explore(self, ctx):
        rng = ctx.rng
        states = self.initial_states(ctx)
        plans = []
        reps = 4 if ctx.thorough() else 1
        hid = 0
        for st in states:
            lens = [1, 2, 3, 4]
            for n in lens:
                for _ in range(reps):
                    names = rng.sample(GEN_NAMES, n)
                    plans.append({"h": hid, "state": st, "names": names, "pws": [rng.choice(PROC_PASSWORDS) for _ in range(n)],
                                  "rt": ctx.thorough() or hid % 3 == 0, "pt": ctx.rbytes(rng.choice([1, 1000, 66000]))})
                    hid += 1
        # names that differ only in case are distinct keys: both generations succeed, the file loads, each key is usable under
        # its own name (the round trip below encrypts from the first to the LAST name)
        for names in (["alice", "Alice"], ["Alice", "alice"], ["\u00e9", "\u00c9"], ["alice", "ALICE", "Alice"]):
            for st in (states[0], states[2]):
                plans.append({"h": hid, "state": st, "names": names, "pws": [("pw-%d" % i).encode() for i in range(len(names))],
                              "rt": True, "pt": ctx.rbytes(100)})
                hid += 1
        plans += self.prompt_plans(ctx, states, hid)
        w = World()
        w.mx_log = []          # every process run below is recorded and compared with the CLI model in one batch (mx_compare)
        try:
            recs = self.pmap(lambda pl: self.one_history(w, pl), plans)
            self.judge_all(ctx, recs)
            # keyrings of 4 KiB .. 1 MiB (thorough 4 MiB): the generated keys land before, across and behind each power-of-two offset;
            # every key of the file is then used through -k F
            import props_kvs
            nbig = props_kvs.c14_big(self, ctx, w, max(pl["h"] for pl in plans) + 1)
            # name SETS with an order relation (mixed case, prefixes of one another, the format's punctuation), in several orders
            nbig += props_kvs.r6_c14_related_names(self, ctx, states, max(pl["h"] for pl in plans) + 1000)
            ctx.evaluations += w.nruns
            self.count(ctx, "proc:runs", w.nruns)
        finally:
            w.close()
        ctx.search_note = "direct oracle over %d histories" % (len(plans) + nbig)
        mx_compare(ctx, w, mx_matrix({"run": "histories", "fed": "prompt-deliveries", "setup": "no"}))
        # every generation step against the CLI model, started from the real file of the previous step
        model_cli_part(ctx, c14_model_cases)

    def prompt_plans(self, ctx, states, hid):
        """histories whose names are ANSWERS TO THE PROMPT in the ways a prompt is answered: (a) names with Unicode blanks inside
        (white space of every kind, zero-width and format characters), typed with white space around them, names that differ
        only by such a blank; (b) the answer delivered through a pipe in one write / several writes (cut anywhere, also inside a
        UTF-8 sequence, one byte at a time) / without a line end / with CRLF / followed by further lines in the same write."""
        rng = ctx.rng
        plans = []
        I3, NB = "\u3000", "\u00a0"
        fixed = [["\u5c71\u7530" + I3 + "\u592a\u90ce"], ["Ana" + NB + "Maria", "AnaMaria"], ["x" + I3 + "y", "x y", "xy"],
                 ["a\u200bb", "ab", "a\ufeffb"], ["\ufeffalice", "alice", "alice\u200b"], ["\u200b", "\u2060\u2060"],
                 ["n\u2009m", "n\u200am", "n\u2002m", "n\u2003m"], ["p\u0085q", "p\u2028q", "p\u000bq"]]
        nb = 24 if ctx.thorough() else 8
        bl = blank_names(rng, 3 * nb)
        groups = fixed + [bl[3 * i:3 * i + rng.randint(1, 3)] for i in range(nb)]
        plain_states = [st for st in states if not st[0].startswith("symlink")]
        for gi, names in enumerate(groups):
            feed = {}
            for k, nm in enumerate(names):
                typed = pad_ws(rng, nm) if rng.random() < 0.6 else nm
                feed[k] = rng.choice(name_deliveries(rng, typed.encode("utf-8"), ctx.thorough()))
                assert typed_name_expect(b"".join(feed[k][1])) == ("ok", nm), (typed, feed[k])
            plans.append({"h": hid, "state": plain_states[gi % len(plain_states)], "names": names, "feed": feed, "kind": "blank-names",
                          "pws": [rng.choice(PROC_PASSWORDS) for _ in names], "rt": True, "pt": ctx.rbytes(rng.choice([1, 1000]))})
            hid += 1
        # every way of delivery, for an ASCII name and for a name of multi-byte characters; one history per three deliveries
        for base in (["caroline", "dmitri", "eve"], ["k\u00e9y \U0001F511 zw\u00f6lf", "\u5c71\u7530\u592a\u90ce", "\u00fc\u00f1\u00ee"]):
            dl = [name_deliveries(rng, (pad_ws(rng, b_, [" ", "\u00a0", "\t"]) if rng.random() < 0.3 else b_).encode("utf-8"), ctx.thorough()) for b_ in base]
            m = max(len(d) for d in dl)
            for j in range(m):
                names = [b_ for b_, d in zip(base, dl) if j < len(d)]
                feed = {k: d[j] for k, d in enumerate([d for d in dl if j < len(d)])}
                for k, nm in enumerate(names):
                    assert typed_name_expect(b"".join(feed[k][1])) == ("ok", nm), (nm, feed[k])
                plans.append({"h": hid, "state": plain_states[(hid + j) % len(plain_states)], "names": names, "feed": feed, "kind": "delivery",
                              "pws": [rng.choice(PROC_PASSWORDS) for _ in names], "rt": j % 4 == 0, "pt": ctx.rbytes(100)})
                hid += 1
        return plans

    def one_history(self, w, pl):
        f = "kr%d.txt" % pl["h"]
        init = pl["state"][1]
        if pl["state"][0].startswith("symlink"):
            # the real keyring lives elsewhere; F only points to it (reads below follow the link)
            os.makedirs(w.p("real"), exist_ok=True)
            target = os.path.join("real", "keyring%d.txt" % pl["h"])
            if init is not None:
                w.write(target, init)
            os.symlink(target if "relative" in pl["state"][0] else w.p(target), w.p(f))
        elif init is not None:
            w.write(f, init)
        snaps, runs = [init], []
        for k, (nm, pw) in enumerate(zip(pl["names"], pl["pws"])):
            fd = (pl.get("feed") or {}).get(k)
            if fd is not None:
                # the answer to the prompt is what `fd` says (white space around the name, a particular sequence of writes); nm is
                # the name that results (typed_name_expect)
                r = gen_key_fed(w, fd[1], pw, outfile=f, gap=fd[2], decoy=(pl["h"] % 2 == 1))
            else:
                r = gen_key(w, nm, pw, outfile=f, decoy=(pl["h"] % 2 == 1))
            runs.append(r)
            snaps.append(w.read(f))
        rec = {"plan": pl, "snaps": snaps, "runs": runs, "still_link": os.path.islink(w.p(f))}
        if pl["rt"] and all(r.rc == 0 for r in runs):
            h = pl["h"]
            a, b = pl["names"][0], pl["names"][-1]
            w.write("pt%d" % h, pl["pt"])
            e = w.run(["encrypt", "pt%d" % h, "--to", b, "--from", a, "-o", "ct%d" % h, "-k", f, "--env-pass"], env=env_pw(pl["pws"][0]))
            d = w.run(["decrypt", "ct%d" % h, "-t", b, "-o", "out%d" % h, "-k", f, "--env-pass"], env=env_pw(pl["pws"][-1]))
            rec["rt"] = (e, d, w.read("out%d" % h))
        return rec

    def judge_all(self, ctx, recs):
        ops, where = [], []
        for rec in recs:
            for i, s in enumerate(rec["snaps"][1:]):
                if s is not None:
                    where.append((rec, i))
                    ops.append("kr_parse " + hexs(s))
        res = cli_ops(ops)
        parsed = {}
        for (rec, i), r in zip(where, res):
            parsed[(rec["plan"]["h"], i)] = r
        un_ops, un_where = [], []
        for rec in recs:
            pl = rec["plan"]
            sc = "C14 history %d: %d x key generate -o F, F initially %s" % (pl["h"], len(pl["names"]), pl["state"][0])
            self.count(ctx, "state:" + pl["state"][0])
            self.count(ctx, "history-len%d" % len(pl["names"]))
            if pl.get("feed"):
                sc += "; names as answered at the prompt: " + "; ".join(
                    "#%d %r <- %s %s" % (k + 1, pl["names"][k], fd[0], [c.hex() for c in fd[1]]) for k, fd in sorted(pl["feed"].items()))
                self.count(ctx, "prompt:" + pl["kind"])
                for fd in pl["feed"].values():
                    self.count(ctx, "prompt-delivery:" + fd[0].split(" at byte")[0])
            runs = rec["runs"]
            for i, r in enumerate(runs):
                before, after = rec["snaps"][i], rec["snaps"][i + 1]
                upto = runs[:i + 1]
                self.count(ctx, "generate-into-" + ("absent" if before is None else "empty" if before == b"" else "existing"))
                if not self.judge(ctx, r.rc == 0 and after is not None, sc, upto, "key generate -o F succeeds (exit 0) and F exists",
                                  "exit %d, F %s" % (r.rc, "absent" if after is None else "present")):
                    break
                self.judge(ctx, after.startswith(before or b"") and len(after) > len(before or b""), sc, upto,
                           "the earlier contents of F (%d bytes) are a byte prefix of the new contents" % len(before or b""),
                           "F now has %d bytes: %r..." % (len(after), after[:120]), key="truncated an existing keyring")
                pr = parsed.get((pl["h"], i), {})
                okp = pr.get("outcome") == "ok"
                self.judge(ctx, okp, sc, upto, "F parses as a keyring", "kr_parse: %s %s" % (pr.get("outcome"), unhex(pr.get("msg", "-")).decode("utf-8", "replace")))
                if not okp:
                    continue
                names = [unhex(x) for x in pr["names"].split(",")]
                pubs = [unhex(x) for x in pr["pubs"].split(",")]
                privs = [None if x == "none" else unhex(x) for x in pr["privs"].split(",")]
                want = pl["state"][2] + [n.encode("utf-8") for n in pl["names"][:i + 1]]
                self.judge(ctx, names == want, sc, upto, "F holds every earlier key and every generated key, in order: %r" % want, "names %r" % names)
                if names == want and i == len(runs) - 1:
                    k0 = len(pl["state"][2])
                    for j, pw in enumerate(pl["pws"]):
                        if privs[k0 + j] is None:
                            self.judge(ctx, False, sc, upto, "a generated key has a private key", "entry %r has none" % names[k0 + j])
                            continue
                        un_where.append((rec, sc, j, pubs[k0 + j]))
                        un_ops.append("sk_unlock %s %s" % (hexs(privs[k0 + j]), hexs(pw)))
            if pl["state"][0].startswith("symlink") and pl["state"][0] != "symlink-dangling":
                self.judge(ctx, rec["still_link"], sc, runs, "F is still the symbolic link to the keyring (the keyring itself was extended)",
                           "F is no longer a symbolic link")
            if "rt" in rec:
                e, d, out = rec["rt"]
                self.count(ctx, "encrypt-decrypt-by-name")
                self.judge(ctx, e.rc == 0 and d.rc == 0 and out == pl["pt"] and ("Success. File from: " + pl["names"][0]) in d.errtext(), sc,
                           runs + [e, d], "the first generated key encrypts to the last generated key, which decrypts and reports the sender by name",
                           "exit %d/%d plaintext equal: %s stderr: %r" % (e.rc, d.rc, out == pl["pt"], (e.errtext() + d.errtext())[-200:]))
        un = cli_ops(un_ops)
        sks = [unhex(u.get("out", "-")) if u.get("outcome") == "ok" else None for u in un]
        pk = lib_ops(ctx.bin, ["xpub " + hexs(k if k and len(k) == 32 else bytes(32)) for k in sks])
        enc = cli_ops(["pk_encode " + hexs(unhex(p.get("out", "-")) if p.get("outcome") == "ok" else bytes(32)) for p in pk])
        for (rec, sc, j, pub), u, k, e in zip(un_where, un, sks, enc):
            self.judge(ctx, k is not None, sc, rec["runs"], "generated key %d unlocks with its own password" % (j + 1), "sk_unlock: %s" % u.get("outcome"))
            if k is not None:
                self.judge(ctx, unhex(e.get("out", "-")) == pub, sc, rec["runs"],
                           "the PublicKey line of generated key %d is the public key of its private key" % (j + 1), "PublicKey = %r" % pub)
        for rec in recs[:6]:
            self.sample(ctx, {"state": rec["plan"]["state"][0], "names": rec["plan"]["names"], "exits": [r.rc for r in rec["runs"]],
                              "sizes": [None if s is None else len(s) for s in rec["snaps"]]})


props.REGISTRY[C14.id] = C14()


# =========================================================================== wiring of the file commands
HDR = 132            # key file: magic 4, ephemeral 32, encrypted static 48, encrypted payload key 48
PHDR = 36            # password file: magic 4, salt 32
CHUNK = 65536


def opt(spell, name, value):
    long_, short = {"to": ("to", "t"), "from": ("from", "f"), "output": ("output", "o"), "keyring": ("keyring", "k")}[name]
    if spell == "long":
        return ["--" + long_, value]
    if spell == "short":
        return ["-" + short, value]
    if spell == "eq":
        return ["--" + long_ + "=" + value]
    if spell == "dash1":                       # getopts long_only: a single dash introduces long names as well
        return ["-" + long_, value]
    raise ValueError(spell)


def wire(cmd, cfg, infile, outfile, to=None, frm=None, keyring=None, pw=None, extra_env=None):
    """cmd in {'encrypt','decrypt','pass-encrypt','pass-decrypt'};
    cfg = dict(inp='arg'|'stdin', out='o'|'stdout', kr='k'|'env', spell=..., alias=bool, first=bool)
    -> (argv, env, stdin)"""
    sp = cfg["spell"]
    names = {"encrypt": ["encrypt"], "decrypt": ["decrypt"], "pass-encrypt": ["password", "encrypt"], "pass-decrypt": ["password", "decrypt"]}[cmd]
    if cfg["alias"]:
        names = [{"encrypt": "enc", "decrypt": "dec", "password": "pass"}[n] for n in names]
    elif cfg.get("alias2") and len(names) == 2:
        names = [names[0], {"encrypt": "enc", "decrypt": "dec"}[names[1]]]
    opts = []
    if to is not None:
        opts += opt(sp, "to", to)
    if frm is not None:
        opts += opt(sp, "from", frm)
    if cfg["out"] == "o":
        opts += opt(sp, "output", outfile)
    env = dict(extra_env or {})
    if keyring is not None:
        if cfg["kr"] == "k":
            opts += opt(sp, "keyring", keyring)
        else:
            env["KESTREL_KEYRING"] = keyring
    opts += ["--env-pass"]
    if pw is not None:
        env.update(env_pw(pw))
    files = [infile] if cfg["inp"] == "arg" else []
    argv = names + (files + opts if cfg["first"] else opts + files)
    stdin = None if cfg["inp"] == "arg" else ("file", infile)
    return argv, env, stdin


def all_wirings(with_keyring=True):
    out = []
    for inp in ("arg", "stdin"):
        for o in ("o", "stdout"):
            for kr in (("k", "env") if with_keyring else ("k",)):
                for sp in ("long", "short", "eq", "dash1"):
                    for alias in (False, True):
                        out.append({"inp": inp, "out": o, "kr": kr, "spell": sp, "alias": alias, "first": (len(out) % 2 == 0)})
    return out


BASE_WIRING = {"inp": "arg", "out": "o", "kr": "k", "spell": "short", "alias": False, "first": True}


def wname(c):
    return "%s/%s/%s/%s/%s" % (c["inp"], c["out"], c["kr"], c["spell"], "alias" if c["alias"] else "full")


class FileWorld(World):
    """keys alice (sender), bob (recipient), carol (third) generated by the CLI; plaintexts; authentic and damaged files"""

    def setup(self, ctx):
        self.pw = {"alice": b"pw-alice", "bob": "b\u00f6b \u2713".encode("utf-8"), "carol": b""}
        self.blocks = {}
        for n in ("alice", "bob", "carol"):
            r = gen_key(self, n, self.pw[n])
            if r.rc != 0:
                raise RuntimeError("key generate failed: " + r.errtext())
            self.blocks[n] = r.out
        self.pub = {n: parse_block(b)[1] for n, b in self.blocks.items()}
        B = self.blocks
        pubonly = lambda n: key_block(n.encode(), self.pub[n])
        self.write("kr_full", B["alice"] + b"\n" + B["bob"] + b"\n" + B["carol"])
        self.write("kr_first", pubonly("alice") + b"\n" + B["bob"] + b"\n" + B["carol"])
        self.write("kr_last", B["carol"] + b"\n" + B["bob"] + b"\n# the sender comes last\n" + pubonly("alice"))
        self.write("kr_absent", B["bob"] + b"\n" + B["carol"])
        # the same keys, but the sender's public key is filed under ANOTHER name: tells which keyring was consulted
        self.write("kr_renamed", key_block(b"zed", self.pub["alice"]) + b"\n" + B["bob"] + b"\n" + B["carol"])
        self.write("kr_junk", b"this is not a keyring\n")
        # another key filed under a name that differs from the recipient's only in case, listed FIRST: -t bob still means bob
        twin = key_block(b"BOB", self.pub["carol"], parse_block(B["carol"])[2])
        self.write("kr_casetwin", twin + b"\n" + pubonly("alice") + b"\n" + B["bob"])
        # a contact whose PublicKey is well-formed base64 of 36 bytes with a WRONG checksum (the parser accepts it; it is
        # neither sender nor recipient), listed before / after the sender
        raw = ctx.rbytes(32)
        ck = hashlib.sha256(raw).digest()[:4]
        mallory = key_block(b"mallory", base64.b64encode(raw + bytes([ck[0] ^ 0x55]) + ck[1:]))
        self.write("kr_badck_before", mallory + b"\n" + pubonly("alice") + b"\n" + B["bob"] + b"\n" + B["carol"])
        self.write("kr_badck_after", B["bob"] + b"\n" + pubonly("alice") + b"\n" + mallory + b"\n" + B["carol"])
        self.P = {"small": ctx.rbytes(1000), "big": ctx.rbytes(CHUNK + 1234), "empty": b"",
                  # long runs of zero bytes, at the end, filling the last chunk, everything, at the start
                  "zeros": bytes(8192), "zerotail": ctx.rbytes(CHUNK) + bytes(8192), "zeros2": bytes(CHUNK + 8192),
                  "zerohead": bytes(8192) + ctx.rbytes(1000), "zeromid": ctx.rbytes(3000) + bytes(20000) + ctx.rbytes(10)}
        self.passpw = "p\u00e4ss".encode("utf-8")
        for k, v in self.P.items():
            self.write("pt_" + k, v)
            e = self.run(["encrypt", "pt_" + k, "-t", "bob", "-f", "alice", "-o", "ct_" + k, "-k", "kr_full", "--env-pass"], env=env_pw(self.pw["alice"]))
            q = self.run(["password", "encrypt", "pt_" + k, "-o", "pct_" + k, "--env-pass"], env=env_pw(self.passpw))
            if e.rc != 0 or q.rc != 0:
                raise RuntimeError("setup encryption failed: " + e.errtext() + q.errtext())
        ct, pct = self.read("ct_big"), self.read("pct_big")
        fl = lambda b, off: b[:off] + bytes([b[off] ^ 0x40]) + b[off + 1:]
        rec = 16 + CHUNK + 16
        self.write("ct_bad1", fl(ct, HDR + 16 + 100))
        self.write("ct_bad2", fl(ct, HDR + rec + 16 + 10))
        self.write("pct_bad1", fl(pct, PHDR + 16 + 100))
        self.write("pct_bad2", fl(pct, PHDR + rec + 16 + 10))
        self.write("ct_trunc2", ct[:HDR + rec + 16 + 100])
        self.write("pct_trunc2", pct[:PHDR + rec + 16 + 100])
        # authentic files FOLLOWED by something: one byte / a copy of the file's own last record (one- and two-chunk files)
        cs, ps = self.read("ct_small"), self.read("pct_small")
        for name, data, hdr, last in (("ct_small", cs, HDR, cs[HDR:]), ("pct_small", ps, PHDR, ps[PHDR:]),
                                      ("ct_big", ct, HDR, ct[HDR + rec:]), ("pct_big", pct, PHDR, pct[PHDR + rec:])):
            self.write(name + "_x1", data + b"\x00")
            self.write(name + "_xr", data + last)


# =========================================================================== output that cannot be delivered
def proc_judge(ctx, ok, scenario, commands, expected, observed):
    ctx.oracle_checks += 1
    if not ok:
        ctx.violations.append({"input": {"kind": "proc", "scenario": scenario, "commands": commands},
                               "expected": expected, "observed": observed, "finding_key": None})
    return ok


def run_with_stdout(w, argv, env, mode, stdin_file=None, timeout=180):
    """mode 'closed': stdout is a pipe whose read end is closed before the program writes; 'drain': a reader takes everything"""
    e = {"PATH": "/usr/bin:/bin", "HOME": w.dir, "LANG": "C.UTF-8"}
    e.update(env)
    fin = open(os.path.join(w.dir, stdin_file), "rb") if stdin_file else subprocess.DEVNULL
    _mx = mx_begin(w, "stdout", argv, env, ("file", stdin_file) if stdin_file else None, captured=(mode != "closed"))
    try:
        if mode == "closed":
            r, wr = os.pipe()
            p = subprocess.Popen([w.bin] + argv, env=e, stdin=fin, stdout=wr, stderr=subprocess.PIPE, start_new_session=True, cwd=w.dir)
            os.close(wr)
            os.close(r)
            try:
                _, err = p.communicate(timeout=timeout)
            except subprocess.TimeoutExpired:
                p.kill()
                _, err = p.communicate()
                err += b"[timeout]"
            out = b""
        else:
            pr = subprocess.run([w.bin] + argv, env=e, stdin=fin, stdout=subprocess.PIPE, stderr=subprocess.PIPE, start_new_session=True,
                                cwd=w.dir, timeout=timeout)
            p, out, err = pr, pr.stdout, pr.stderr
    finally:
        if stdin_file:
            fin.close()
    w.nruns += 1
    mx_end(_mx, p.returncode, out, err)
    return Run(argv, {k: v for k, v in env.items()}, ("<" + stdin_file) if stdin_file else None, p.returncode, out, err)


def pipe_delivery_checks(ctx, w=None):
    """C12 (truthful exit status) / C10 (write failures are reported): a >= 1 MiB result sent to stdout whose reader has gone
    away, or to /dev/full with -o, is NOT delivered: exit 1 with an Error: line.  Control: a reader that drains everything gets
    the exact bytes and exit 0.  Callable on its own (builds a FileWorld) or with the caller's."""
    own = w is None
    if own:
        w = FileWorld()
    try:
        if own:
            w.setup(ctx)
        huge = ctx.rng.getrandbits(8 * ((1 << 20) + 321)).to_bytes((1 << 20) + 321, "big")
        w.write("pt_huge", huge)
        e = w.run(["encrypt", "pt_huge", "-t", "bob", "-f", "alice", "-o", "ct_huge", "-k", "kr_full", "--env-pass"], env=env_pw(w.pw["alice"]))
        q = w.run(["password", "encrypt", "pt_huge", "-o", "pct_huge", "--env-pass"], env=env_pw(w.passpw))
        if not proc_judge(ctx, e.rc == 0 and q.rc == 0, "C12 delivery: preparing 1 MiB files", [e.describe(), q.describe()], "encryption succeeds",
                          "exit %d/%d" % (e.rc, q.rc)):
            return
        kr = {"KESTREL_KEYRING": "kr_full"}
        cmds = [("decrypt", ["decrypt", "ct_huge", "-t", "bob", "--env-pass"], dict(env_pw(w.pw["bob"]), **kr), huge, "ct_huge"),
                ("password decrypt", ["pass", "dec", "pct_huge", "--env-pass"], env_pw(w.passpw), huge, "pct_huge"),
                ("encrypt", ["enc", "pt_huge", "-t", "bob", "-f", "alice", "--env-pass"], dict(env_pw(w.pw["alice"]), **kr), None, "pt_huge"),
                ("password encrypt", ["password", "encrypt", "pt_huge", "--env-pass"], env_pw(w.passpw), None, "pt_huge")]
        jobs = []
        # a private character device 1:7 inside the scratch directory, not the machine's /dev/full (vlib.private_special)
        full_dev = vlib.private_special(w.dir, "full")
        for (name, argv, env, want, infile) in cmds:
            jobs.append((name, "stdout reader gone", argv, env, "closed", None, want))
            jobs.append((name, "stdin -> stdout, reader gone", [a for a in argv if a != infile], env, "closed", infile, want))
            jobs.append((name, "stdout drained", argv, env, "drain", None, want))
            if full_dev:
                jobs.append((name, "-o /dev/full", argv + ["-o", full_dev], env, "drain", None, want))

        def one(j):
            name, how, argv, env, mode, sin, want = j
            return run_with_stdout(w, argv, env, mode, stdin_file=sin)
        with ThreadPoolExecutor(max_workers=NPROC) as ex:
            runs = list(ex.map(one, jobs))
        for (name, how, argv, env, mode, sin, want), r in zip(jobs, runs):
            sc = "C12 delivery: %s of 1 MiB, %s" % (name, how)
            ctx.distribution["delivery:" + how] = ctx.distribution.get("delivery:" + how, 0) + 1
            if how == "stdout drained":
                good = r.rc == 0 and (r.out == want if want is not None else len(r.out) > len(huge))
                proc_judge(ctx, good, sc, [r.describe()], "exit 0 and the complete output on stdout", "exit %d, %d bytes on stdout, stderr %r"
                           % (r.rc, len(r.out), r.errtext()[-160:]))
            else:
                proc_judge(ctx, r.rc == 1 and "Error: " in r.errtext(), sc, [r.describe()],
                           "the output could not be delivered: exit 1 with an Error: line (never exit 0, never a crash)",
                           "exit %d, stderr %r" % (r.rc, r.errtext()[-200:]))
        ctx.evaluations += len(jobs)
    finally:
        if own:
            w.close()


BAD_ENV_VALUES = [b"pw\xff", b"\xfe", b"caf\xe9", b"ok\xc3", b"\xed\xa0\x80"]


def nonutf8_password_checks(ctx, w, scope, locked=None):
    """a password variable whose value is not UTF-8 is REFUSED (exit 1, the 'Could not read data from ...' message, nothing
    written): passwords are byte strings of the documented format, a lossy conversion would make different passwords equal.
    scope 'files': the four file commands (needs a FileWorld); scope 'keys': key generate / change-pass / extract-pub"""
    PW, NPW = b"KESTREL_PASSWORD", b"KESTREL_NEW_PASSWORD"
    jobs = []
    for i, bad in enumerate(BAD_ENV_VALUES):
        o = "nu_%s_%d" % (scope, i)
        if scope == "files":
            kr = {b"KESTREL_KEYRING": b"kr_full"}
            jobs += [("password encrypt -o", ["password", "encrypt", "pt_small", "-o", o + "a", "--env-pass"], {PW: bad}, b"", PW, o + "a"),
                     ("password encrypt to stdout", ["pass", "enc", "pt_small", "--env-pass"], {PW: bad}, b"", PW, None),
                     ("password decrypt -o", ["password", "decrypt", "pct_small", "-o", o + "b", "--env-pass"], {PW: bad}, b"", PW, o + "b"),
                     ("encrypt -o", ["encrypt", "pt_small", "-t", "bob", "-f", "alice", "-o", o + "c", "--env-pass"], {**kr, PW: bad}, b"", PW, o + "c"),
                     ("decrypt to stdout", ["decrypt", "ct_small", "-t", "bob", "--env-pass"], {**kr, PW: bad}, b"", PW, None),
                     ("password encrypt, bad KESTREL_NEW_PASSWORD is not looked at", ["password", "encrypt", "pt_small", "-o", o + "d", "--env-pass"],
                      {PW: b"fine", NPW: bad}, b"", None, o + "d")]
        else:
            jobs += [("key generate -o", ["key", "generate", "-o", o + "a", "--env-pass"], {PW: bad}, b"somebody\n", PW, o + "a"),
                     ("key generate to stdout", ["key", "gen", "--env-pass"], {PW: bad}, b"somebody\n", PW, None),
                     ("key change-pass, old password", ["key", "change-pass", locked, "--env-pass"], {PW: bad, NPW: b"new"}, b"", PW, None),
                     ("key change-pass, new password", ["key", "change-pass", locked, "--env-pass"], {PW: b"pw", NPW: bad}, b"", NPW, None),
                     ("key extract-pub", ["key", "extract-pub", locked, "--env-pass"], {PW: bad}, b"", PW, None)]

    def one(j):
        name, argv, env, sin, var, outp = j
        e = {b"PATH": b"/usr/bin:/bin", b"HOME": os.fsencode(w.dir)}
        e.update(env)
        _mx = mx_begin(w, "nonutf8", argv, env, sin)
        try:
            pr = subprocess.run([w.bin] + argv, env=e, input=sin, stdout=subprocess.PIPE, stderr=subprocess.PIPE, start_new_session=True,
                                timeout=120, cwd=w.dir)
            rc, out, err = pr.returncode, pr.stdout, pr.stderr
        except subprocess.TimeoutExpired:
            rc, out, err = 124, b"", b"[timeout]"
        w.nruns += 1
        mx_end(_mx, rc, out, err)
        made = w.read(outp) if outp else None
        if outp and made is not None and var is not None:
            os.remove(w.p(outp))
        return Run(argv, {k.decode(): repr(v) for k, v in env.items()}, sin, rc, out, err), made
    with ThreadPoolExecutor(max_workers=NPROC) as ex:
        res = list(ex.map(one, jobs))
    for (name, argv, env, sin, var, outp), (r, made) in zip(jobs, res):
        sc = "non-UTF-8 password variable: %s" % name
        ctx.distribution["non-utf8-env:" + scope] = ctx.distribution.get("non-utf8-env:" + scope, 0) + 1
        if var is None:
            proc_judge(ctx, r.rc == 0 and made, sc, [r.describe()], "a variable the command does not read is not looked at: exit 0", "exit %d, stderr %r"
                       % (r.rc, r.errtext()[-160:]))
            continue
        msg = "Could not read data from %s environment variable" % var.decode()
        proc_judge(ctx, r.rc == 1 and msg in r.errtext() and r.out == b"" and made is None, sc, [r.describe()],
                   "the value is refused: exit 1, 'Error: %s', nothing on stdout, no output file" % msg,
                   "exit %d, stdout %d bytes, output file %s, stderr %r" % (r.rc, len(r.out), "absent" if made is None else "%d bytes" % len(made),
                                                                          r.errtext()[-200:]))
    ctx.evaluations += len(jobs)


# =========================================================================== output locations (C12 targets, C13 whole-tree snapshots)
def kvc_tree_snapshot(root):
    """every entry below root, nothing followed: relative path -> ('dir',) | ('file', size, sha256) | ('symlink', target) |
    ('fifo',) | ('other', mode).  Times and inode numbers are NOT part of it (the properties speak about existence and bytes)."""
    import stat as _st
    snap = {}
    for dp, dns, fns in os.walk(root, followlinks=False):
        for n in dns + fns:
            p = os.path.join(dp, n)
            rel = os.path.relpath(p, root)
            try:
                st = os.lstat(p)
            except OSError:
                continue
            if _st.S_ISLNK(st.st_mode):
                snap[rel] = ("symlink", os.readlink(p))
            elif _st.S_ISDIR(st.st_mode):
                snap[rel] = ("dir",)
            elif _st.S_ISREG(st.st_mode):
                with open(p, "rb") as f:
                    data = f.read()
                snap[rel] = ("file", len(data), hashlib.sha256(data).hexdigest())
            elif _st.S_ISFIFO(st.st_mode):
                snap[rel] = ("fifo",)
            else:
                snap[rel] = ("other", oct(st.st_mode))
    return snap


def kvc_tree_diff(before, after):
    """human-readable differences between two snapshots (empty list = identical)"""
    out = []
    for k in sorted(set(before) | set(after)):
        b, a = before.get(k), after.get(k)
        if b == a:
            continue
        show = lambda e: "%s%s" % (e[0], "" if len(e) == 1 else " " + " ".join(str(x)[:16] for x in e[1:]))
        if b is None:
            out.append("CREATED %s (%s)" % (k, show(a)))
        elif a is None:
            out.append("REMOVED %s (was %s)" % (k, show(b)))
        else:
            out.append("CHANGED %s: %s -> %s" % (k, show(b), show(a)))
    return out


def kvc_drain(fd, done, chunks, settle=0.0):
    """reader of a FIFO / pty master opened non-blocking: takes everything until `done` is set and nothing is left (for a
    terminal, whose data is handed to the master side asynchronously: until nothing has come for `settle` seconds)"""
    import select, time
    quiet_since = None
    while True:
        got = False
        try:
            r, _, _ = select.select([fd], [], [], 0.05)
        except (OSError, ValueError):
            break
        if r:
            try:
                b = os.read(fd, 1 << 16)
            except BlockingIOError:
                b = None
            except OSError:
                b = b""
            if b:
                chunks.append(b)
                got = True
            elif not done.is_set():
                time.sleep(0.005)          # end-of-file while no writer has the FIFO open (yet)
        if got:
            quiet_since = None
        elif done.is_set():
            quiet_since = quiet_since or time.time()
            if time.time() - quiet_since >= settle:
                break


def kvc_run(w, argv, env=None, stdin=None, cwd=None, timeout=120, stdout="pipe", drain_fd=None, new_session=True, settle=0.0):
    """like World.run, with the working directory (and HOME) of the caller's choice and stdout wired as asked:
    'pipe' (captured) | an open file object.  stdin: None (= /dev/null) | bytes | ('file', name in the world's directory).
    drain_fd: a non-blocking descriptor (read end of a FIFO, pty master) emptied concurrently -> third result.
    Returns (Run, bytes drained from drain_fd)"""
    import threading
    cwd = cwd or w.dir
    e = {"PATH": "/usr/bin:/bin", "HOME": cwd, "LANG": "C.UTF-8"}
    if env:
        e.update(env)
    fh = None
    data = None
    if stdin is None:
        sin = subprocess.DEVNULL
    elif isinstance(stdin, tuple):
        fh = open(os.path.join(w.dir, stdin[1]), "rb")
        sin = fh
    else:
        sin, data = subprocess.PIPE, stdin
    chunks, done, th = [], threading.Event(), None
    _mx = mx_begin(w, "kvc", argv, env, stdin, cwd=cwd, captured=(stdout == "pipe"))
    if drain_fd is not None:
        th = threading.Thread(target=kvc_drain, args=(drain_fd, done, chunks, settle), daemon=True)
        th.start()
    out, err, rc = b"", b"", 125
    try:
        p = subprocess.Popen([w.bin] + list(argv), env=e, stdin=sin, stdout=subprocess.PIPE if stdout == "pipe" else stdout,
                             stderr=subprocess.PIPE, start_new_session=new_session, cwd=cwd)
        try:
            out, err = p.communicate(input=data, timeout=timeout)
            rc = p.returncode
        except subprocess.TimeoutExpired:
            p.kill()
            out, err = p.communicate()
            rc, err = 124, (err or b"") + b"\n[timeout]"
    finally:
        if fh:
            fh.close()
        done.set()
        if th:
            th.join(timeout=30)
    w.nruns += 1
    mx_end(_mx, rc, out, err)
    r = Run(list(argv), dict(env or {}), ("<" + stdin[1]) if isinstance(stdin, tuple) else stdin, rc, out or b"", err or b"")
    return r, b"".join(chunks)


def kvc_link_inputs(w, d, argv, env):
    """make the world's files a run names (arguments, option values, variables) available under the same names in directory d
    (hard links: the run's directory holds only what the run needs, so that a whole-tree snapshot stays small)"""
    toks = []
    for a in list(argv) + list((env or {}).values()):
        if isinstance(a, str):
            toks.append(a)
            if "=" in a:
                toks.append(a.split("=", 1)[1])
    for t in toks:
        if t and "/" not in t and os.path.isfile(w.p(t)) and not os.path.lexists(os.path.join(d, t)):
            try:
                os.link(w.p(t), os.path.join(d, t))
            except OSError:
                shutil.copyfile(w.p(t), os.path.join(d, t))


# =========================================================================== C12
class C12(ProcProp):
    id = "C12"
    rule = ("cases: a keyring made by 'key generate' (3 keys), files made by encrypt / password encrypt; decrypt and password "
            "decrypt over the wirings {file argument | stdin} x {-o | stdout} x {-k | KESTREL_KEYRING} x {--long v | -s v | "
            "--long=v | -long v} x {command | alias} (argument before/after the options) for inputs {valid 1000 B, valid 2 chunks, "
            "empty plaintext, damaged first chunk, damaged second chunk, wrong recipient key, wrong password, file of the other "
            "mode, authentic file + 1 byte / + a copy of its last record (one and two chunks)} and keyrings {sender first, last, absent, a "
            "bad-checksum contact before / after the sender}; -k together with a KESTREL_KEYRING naming a different / missing / malformed "
            "keyring (the option wins); >= 1 MiB outputs to a pipe whose reader has gone away and to /dev/full (exit 1), with a draining "
            "reader as control; successful runs with "
            "-o onto an absent path and onto an existing file (file bytes must equal the output, also for the empty plaintext); encrypt / password encrypt over the same wirings with an injected "
            "random stream (byte-identical output) and with real randomness, each decrypted; quick = base wiring + 20 random "
            "wirings per (input, keyring) group, thorough = all 64; output targets: 17 operations (succeeding and failing, one and two "
            "chunks, empty) x 17 kinds of target {new / existing / longer existing regular file, absolute path, sub-directory, /dev/null, "
            "/dev/stdout and /proc/self/fd/1 on a pipe, FIFO with a reader, plain stdout pipe, stdout redirected to / appending to a file, "
            "-o /dev/stdout with stdout redirected to a file, symbolic link to an absent / existing file / to /dev/null, pseudo-terminal "
            "in raw mode}: exit status, stderr and the bytes that arrive are those of the run writing a new regular file; 13 of these "
            "(quick) against the CLI model evaluated on the plain wiring; tree cases against the CLI model's tree world (exit class, stdout, "
            "the WHOLE resulting tree): every command x 16 shapes of an -o path that cannot be created (missing parent, a directory, '.', '..', "
            "'/', trailing slash, a file used as a directory, the empty string, absolute and dotted spellings), 10 dotted / absolute / '..' "
            "spellings of a path that can, processes started in sub-directories, dotted / absolute / unresolvable input and keyring paths, "
            "directories as input (quick 51, thorough 214); sender report (s4a_sender_report_part): every cell of {-o | stdout pipe | stdout "
            "redirected to a file} x stderr {pipe | file | terminal | character device} x keyring {sender first, last, under another name, "
            "absent}: exit status, exactly the plaintext at the destination, and on stderr exactly the report lines (failing files: exit 1, the "
            "authenticated prefix, an Error: line and no report); the reported NAME byte for byte for 14 classes of names a keyring may hold "
            "(quotes, backslashes, control characters, ZWJ emoji, zero-width and bidi marks, combining marks first, 128-byte names, names that "
            "look like options / keyring syntax / format strings, inner exotic spaces, non-characters) and random ones, partly as the "
            "recipient's name given to --to as well; sender keys with bit 255 set (shared with C05: props.s4a_c05_key_bytes); operands spelled "
            "like the tool's own words (34 words: command names, aliases, option names without dashes, help, version) as input file, -o target, "
            "-t / -f key name, -k / KESTREL_KEYRING path, and as a recipient who is not in the keyring: the operation is carried out resp. refused "
            "like for any other name; "
            "names part (c12_r5_names_part): 25 fixed + 6 (thorough 24) random pairs of input / -o names related only as strings (same base name "
            "in another directory, one path a trailing or leading part of the other, relative against absolute, '-', './--', a directory named '-', "
            "blanks, case, non-ASCII) x the four commands (quick: 2 per pair) x {file argument + -o, stdin + -o, file argument + stdout} on a valid "
            "input in a private directory: exit 0, the bytes of the plain stdin -> stdout run, nothing on stdout with -o, the directory afterwards = "
            "before + exactly the -o file; short-write part (c12_r5_short_write_part): the four commands on 1- and 3-chunk (thorough: also 2-chunk) inputs with the output "
            "file limited by RLIMIT_FSIZE (SIGXFSZ ignored: a short write, then EFBIG) inside the first record, at a record boundary, inside the last "
            "record / last write, 1 / 16 / 17 bytes before the end and exactly at the end, for -o and for stdout redirected to a file: exit 0 exactly "
            "when the complete output is in the file, otherwise exit 1 with an Error: line and a prefix of the output (these two parts are judged by "
            "the direct oracles, not recorded for the model comparison); "
            "EVERY process run above (the wiring matrix, the fixed-wiring decryptions of what "
            "it produced, the runs that build the world, the output targets, the deliveries) is recorded - argv, KESTREL_ variables, stdin, "
            "the part of the tree it can name before and after, exit code, stdout, stderr - and compared in one batch with the CLI model "
            "(Run/RunCli.v::run_cli_tree_x: exit code, message class, stdout, the resulting tree byte for byte; random bytes: the injected "
            "stream, or recovered from the output of password encrypt / key generate; key-mode encryptions on operating-system randomness: "
            "lengths only): quick 670 of 2 095 runs (seed 1: 652 byte for byte, 18 lengths only; budget VERIF_MX_BUDGET = 60 s x VERIF_JOBS of estimated CPU), thorough every "
            "run the model can express; NOT compared, counted by reason (model-skipped:*): input streams over 6 KiB (two-chunk files, 1 MiB "
            "deliveries: 900), worlds over 16 KiB (8), symbolic links / FIFOs / devices / terminals (137), stdout not a captured pipe (59), "
            "non-UTF-8 environment values (30), quick tier: runs over the budget (291); non-trivial = every run")
    assumptions = ["the full wiring matrix is judged by direct oracles AND, run by run, by the CLI model (Model/CliGlue.v::real_cli_main) for the "
                   "runs whose input is at most 6 KiB and whose files are regular files and directories (evidence: model-compared:*, "
                   "model-skipped:*); the two-chunk inputs, 1 MiB deliveries, links, FIFOs, devices and terminals are judged by the direct "
                   "oracles only; in addition the model is compared with the "
                   "real process on small worlds (150-byte plaintext, 4 wirings x 4 inputs, encrypt / password modes, help, version) and the "
                   "real argument parser with Model/CliParse.v on exhaustive short argument vectors",
                   "stderr is compared across wirings by its Error:/Success/Unknown-key lines; against the model by message CLASS",
                   "the model covers one terminal configuration (no tty); its file system is a tree of regular files and directories with "
                   "component-wise path resolution (a failing File::create, directory handles whose reads fail, file identity by canonical "
                   "path); links, devices, FIFOs, permissions and a full disk are judged by the direct oracles only"]

    def explore(self, ctx):
        rng = ctx.rng
        w = FileWorld()
        w.mx_log = []          # every process run below is recorded and compared with the CLI model in one batch (mx_compare)
        try:
            w.setup(ctx)
            jobs = []
            wir = all_wirings(True)
            wirp = all_wirings(False)

            def pickw(pool):
                if ctx.thorough():
                    return pool
                return [BASE_WIRING] + rng.sample(pool, min(20, len(pool)))
            # ---- key decryption
            P = w.P
            inputs = [("valid-small", "ct_small", "bob", P["small"], True), ("valid-big", "ct_big", "bob", P["big"], True),
                      ("valid-empty", "ct_empty", "bob", b"", True),
                      ("valid-zeros", "ct_zeros", "bob", P["zeros"], True), ("valid-zerotail", "ct_zerotail", "bob", P["zerotail"], True),
                      ("valid-zeros2", "ct_zeros2", "bob", P["zeros2"], True), ("valid-zerohead", "ct_zerohead", "bob", P["zerohead"], True),
                      ("valid-zeromid", "ct_zeromid", "bob", P["zeromid"], True),
                      ("bad-chunk1", "ct_bad1", "bob", b"", False), ("bad-chunk2", "ct_bad2", "bob", P["big"][:CHUNK], False),
                      ("wrong-recipient", "ct_small", "carol", b"", False), ("password-file", "pct_small", "bob", b"", False),
                      # an authentic file followed by one byte / by a copy of its last record: NOT a complete delivery
                      ("trailing-byte-small", "ct_small_x1", "bob", b"", False), ("trailing-record-small", "ct_small_xr", "bob", b"", False),
                      ("trailing-byte-big", "ct_big_x1", "bob", P["big"][:CHUNK], False), ("trailing-record-big", "ct_big_xr", "bob", P["big"][:CHUNK], False)]
            gid = 0
            def pres(iname, c):
                """state of the -o path before the run: successful runs also write onto an existing file (it must be replaced
                by the plaintext, even an empty one); failing runs are C13's business and start from an absent path"""
                if c["out"] != "o" or not iname.startswith("valid"):
                    return ["absent"]
                if iname == "valid-empty":
                    return ["absent", "sentinel"]
                return [rng.choice(["absent", "sentinel"])]
            for (iname, f, to, deliver, ok) in inputs:
                for kr in (("kr_first",) if iname.startswith(("trailing", "valid-zero")) else
                           ("kr_first", "kr_last", "kr_absent") + (("kr_badck_before", "kr_badck_after", "kr_casetwin") if ok else ())):
                    gid += 1
                    for c in pickw(wir):
                        for pre in pres(iname, c):
                            jobs.append({"g": gid, "group": "decrypt %s %s" % (iname, kr), "cmd": "decrypt", "cfg": c, "in": f, "to": to, "pre": pre,
                                         "kr": kr, "pw": w.pw[to], "deliver": deliver, "ok": ok, "plain": P.get(iname.split("-")[1]) if ok else None,
                                         "sender": ("name" if kr != "kr_absent" else "unknown") if ok else None})
            # ---- password decryption
            pin = [("valid-small", "pct_small", w.passpw, P["small"], True), ("valid-big", "pct_big", w.passpw, P["big"], True),
                   ("valid-empty", "pct_empty", w.passpw, b"", True),
                   ("valid-zeros", "pct_zeros", w.passpw, P["zeros"], True), ("valid-zerotail", "pct_zerotail", w.passpw, P["zerotail"], True),
                   ("valid-zeros2", "pct_zeros2", w.passpw, P["zeros2"], True), ("valid-zerohead", "pct_zerohead", w.passpw, P["zerohead"], True),
                   ("bad-chunk1", "pct_bad1", w.passpw, b"", False), ("bad-chunk2", "pct_bad2", w.passpw, P["big"][:CHUNK], False),
                   ("wrong-password", "pct_small", b"other", b"", False), ("key-file", "ct_small", w.passpw, b"", False),
                   ("trailing-byte-small", "pct_small_x1", w.passpw, b"", False), ("trailing-record-small", "pct_small_xr", w.passpw, b"", False),
                   ("trailing-byte-big", "pct_big_x1", w.passpw, P["big"][:CHUNK], False),
                   ("trailing-record-big", "pct_big_xr", w.passpw, P["big"][:CHUNK], False)]
            # ---- -k AND KESTREL_KEYRING both given, naming different keyrings: the option wins
            both = [("-k kr_first, KESTREL_KEYRING=kr_renamed", "kr_first", "kr_renamed", True, "alice"),
                    ("-k kr_renamed, KESTREL_KEYRING=kr_first", "kr_renamed", "kr_first", True, "zed"),
                    ("-k kr_first, KESTREL_KEYRING=missing file", "kr_first", "no_such_keyring", True, "alice"),
                    ("-k kr_last, KESTREL_KEYRING=malformed file", "kr_last", "kr_junk", True, "alice"),
                    ("-k missing file, KESTREL_KEYRING=kr_first", "no_such_keyring", "kr_first", False, None),
                    ("-k malformed file, KESTREL_KEYRING=kr_first", "kr_junk", "kr_first", False, None)]
            kw = [c for c in wir if c["kr"] == "k"]
            for (lbl, kopt, kenv, ok, sname) in both:
                gid += 1
                for c in [BASE_WIRING] + rng.sample(kw, len(kw) if ctx.thorough() else 5):
                    jobs.append({"g": gid, "group": "decrypt valid-small " + lbl, "cmd": "decrypt", "cfg": c, "in": "ct_small", "to": "bob",
                                 "pre": "absent", "kr": kopt, "env_kr": kenv, "pw": w.pw["bob"], "deliver": P["small"] if ok else b"", "ok": ok,
                                 "plain": P["small"] if ok else None, "sender": "name" if ok else None, "sender_name": sname})
            gid += 1
            for c in [BASE_WIRING] + rng.sample(kw, len(kw) if ctx.thorough() else 5):
                jobs.append({"g": gid, "group": "encrypt small -k kr_full, KESTREL_KEYRING=kr_absent (no sender key there)", "cmd": "encrypt", "cfg": c,
                             "in": "pt_small", "to": "bob", "from": "alice", "kr": "kr_full", "env_kr": "kr_absent", "pw": w.pw["alice"], "ok": True,
                             "rand": None, "plain": P["small"], "injected": False})
            for (iname, f, pw, deliver, ok) in pin:
                gid += 1
                for c in pickw(wirp):
                    for pre in pres(iname, c):
                        jobs.append({"g": gid, "group": "password decrypt %s" % iname, "cmd": "pass-decrypt", "cfg": c, "in": f, "to": None, "pre": pre,
                                     "kr": None, "pw": pw, "deliver": deliver, "ok": ok, "sender": None})
            # ---- encryption (injected random stream: identical bytes; and real randomness)
            rnd = ctx.rbytes(64)
            for pt in ("small", "big"):
                for injected in (True, False):
                    gid += 1
                    for c in pickw(wir):
                        jobs.append({"g": gid, "group": "encrypt %s %s" % (pt, "injected" if injected else "os-random"), "cmd": "encrypt", "cfg": c,
                                     "in": "pt_" + pt, "to": "bob", "from": "alice", "kr": "kr_full", "pw": w.pw["alice"], "ok": True,
                                     "rand": rnd if injected else None, "plain": P[pt], "injected": injected})
                    gid += 1
                    for c in pickw(wirp):
                        jobs.append({"g": gid, "group": "password encrypt %s %s" % (pt, "injected" if injected else "os-random"), "cmd": "pass-encrypt",
                                     "cfg": c, "in": "pt_" + pt, "to": None, "kr": None, "pw": w.passpw, "ok": True,
                                     "rand": rnd[:32] if injected else None, "plain": P[pt], "injected": injected})
            # ---- self-addressed encryption (--to = --from): stdout carries the ciphertext and nothing else
            for pt in ("small", "big", "zeros2"):
                gid += 1
                for c in pickw(wir):
                    jobs.append({"g": gid, "group": "encrypt %s to self (alice -> alice)" % pt, "cmd": "encrypt", "cfg": c, "in": "pt_" + pt, "to": "alice",
                                 "from": "alice", "dec_to": "alice", "kr": "kr_full", "pw": w.pw["alice"], "ok": True, "rand": rnd, "plain": P[pt],
                                 "injected": True})
            # failing encryptions: exit 1 + message, same across wirings
            for why, to, frm, pw in (("unknown-recipient", "nobody", "alice", w.pw["alice"]), ("wrong-password", "bob", "alice", b"nope"),
                                     ("sender-without-private-key", "bob", "alice", w.pw["alice"])):
                gid += 1
                for c in pickw(wir)[: (64 if ctx.thorough() else 6)]:
                    jobs.append({"g": gid, "group": "encrypt fails: " + why, "cmd": "encrypt", "cfg": c, "in": "pt_small", "to": to, "from": frm,
                                 "kr": "kr_first" if why.startswith("sender") else "kr_full", "pw": pw, "ok": False, "deliver": b"", "rand": None})
            for i, j in enumerate(jobs):
                j["i"] = i
            res = self.pmap(lambda j: self.one(w, j), jobs)
            self.judge_all(ctx, w, jobs, res)
            pipe_delivery_checks(ctx, w)
            nonutf8_password_checks(ctx, w, "files")
            t_tg = time.time()
            self.targets_part(ctx, w)
            ctx.distribution["seconds:output-targets"] = round(time.time() - t_tg, 1)
            t_tg = time.time()
            s4a_sender_report_part(self, ctx, w)
            ctx.distribution["seconds:sender-report"] = round(time.time() - t_tg, 1)
            c12_tty_stdin_envpass_part(self, ctx, w)
            t_tg = time.time()
            c12_r5_names_part(self, ctx, w)
            ctx.distribution["seconds:names-part"] = round(time.time() - t_tg, 1)
            t_tg = time.time()
            c12_r5_short_write_part(self, ctx, w)
            ctx.distribution["seconds:short-write-part"] = round(time.time() - t_tg, 1)
            ctx.evaluations += w.nruns
            self.count(ctx, "proc:runs", w.nruns)
        finally:
            w.close()
        ctx.search_note = "direct oracle over %d process runs" % ctx.evaluations
        # correspondence: the recorded runs of the matrices above vs the CLI model; the real parser vs Model/CliParse.v; the real
        # process vs Model/CliGlue.v::real_cli_main on the model's own case sets
        mx_compare(ctx, w, mx_matrix({"run": "wiring-matrix", "kvc": "output-targets", "stdout": "delivery-1MiB", "nonutf8": "non-utf8-env",
                                      "setup": "gen"}))
        parse_correspondence(ctx)
        model_cli_part(ctx, lambda ctx, mw, root: c12_model_cases(ctx, mw) + c12_target_model_cases(ctx, mw) + kvw_model_cases(ctx, mw, root, "c12"))

    def one(self, w, j):
        out = "out_%d" % j["i"]
        if j["cmd"] in ("encrypt", "pass-encrypt") and j["ok"] and j["cfg"]["out"] == "o" and j["i"] % 2:
            j["pre"] = "sentinel"
        if j.get("pre") == "sentinel":
            w.write(out, SENTINEL)
        env0 = {"KESTREL_VERIF_RANDOM": j["rand"].hex()} if j.get("rand") else None
        argv, env, stdin = wire(j["cmd"], j["cfg"], j["in"], out, to=j.get("to"), frm=j.get("from"), keyring=j.get("kr"), pw=j["pw"], extra_env=env0)
        if j.get("env_kr"):
            env["KESTREL_KEYRING"] = j["env_kr"]
        if j["i"] % 2 == 0:
            env["KESTREL_NEW_PASSWORD"] = DECOY_NEW_PASSWORD.decode()     # must be ignored by every command run here
        r = w.run(argv, env=env, stdin=stdin)
        filed = w.read(out)
        delivered = (filed if filed is not None else b"") if j["cfg"]["out"] == "o" else r.out
        res = {"run": r, "delivered": delivered, "file_created": filed is not None, "file_bytes": filed,
               "stray_stdout": r.out if j["cfg"]["out"] == "o" else b""}
        if j["cmd"] in ("encrypt", "pass-encrypt") and j["ok"] and r.rc == 0:
            # decrypt what was produced, with a fixed wiring
            w.write(out + ".ct", delivered)
            if j["cmd"] == "encrypt":
                to = j.get("dec_to", "bob")
                d = w.run(["decrypt", out + ".ct", "-t", to, "-o", out + ".pt", "-k", "kr_full", "--env-pass"], env=env_pw(w.pw[to]))
            else:
                d = w.run(["password", "decrypt", out + ".ct", "-o", out + ".pt", "--env-pass"], env=env_pw(w.passpw))
            res["dec"] = d
            res["dec_plain"] = w.read(out + ".pt")
        for f in (out, out + ".ct", out + ".pt"):
            try:
                os.remove(w.p(f))
            except OSError:
                pass
        return res

    def judge_all(self, ctx, w, jobs, res):
        groups = collections.OrderedDict()
        for j, r in zip(jobs, res):
            groups.setdefault(j["g"], []).append((j, r))
            self.count(ctx, "wiring:" + wname(j["cfg"]))
            self.count(ctx, "group:" + j["group"])
        for g, items in groups.items():
            name = items[0][0]["group"]
            for j, r in items:
                run = r["run"]
                sc = "C12 %s, wiring %s" % (name, wname(j["cfg"]))
                me = self.model_expect(w, run.argv, run.env, run.stdin)
                if me is not None:
                    self.judge(ctx, me[0] == run.rc and (me[2] is None or me[2] == run.out), sc, [run], "CLI model: exit %r" % (me[0],), "exit %d" % run.rc)
                dec = j["cmd"] in ("decrypt", "pass-decrypt")
                if dec:
                    complete = j["ok"] and r["delivered"] == j["deliver"]
                    self.judge(ctx, (run.rc == 0) == complete and run.rc in (0, 1), sc, [run],
                               "exit 0 exactly when the complete plaintext (%d bytes) was delivered, otherwise exit 1" % len(j["deliver"] if j["ok"] else b"?"),
                               "exit %d with %d bytes delivered (%s)" % (run.rc, len(r["delivered"]), "equal to the plaintext" if complete else "not the complete plaintext"))
                    self.judge(ctx, r["delivered"] == j["deliver"], sc, [run], "delivered bytes = %s (%d bytes)" %
                               ("the plaintext" if j["ok"] else "the authenticated prefix", len(j["deliver"])),
                               "%d bytes, first difference at %s" % (len(r["delivered"]), first_diff(r["delivered"], j["deliver"])))
                else:
                    self.judge(ctx, (run.rc == 0) == j["ok"] and run.rc in (0, 1), sc, [run], "exit %d" % (0 if j["ok"] else 1), "exit %d: %s" % (run.rc, run.errtext()[-200:]))
                    if j["ok"] and run.rc == 0:
                        n = len(j["plain"])
                        if n % CHUNK:
                            magic, hdr = (b"egk\x10", HDR) if j["cmd"] == "encrypt" else (b"egk\x20", PHDR)
                            want_len = hdr + 32 * (n // CHUNK + 1) + n
                            self.judge(ctx, r["delivered"][:4] == magic and len(r["delivered"]) == want_len, sc, [run],
                                       "the output is the ciphertext and nothing else: magic %s, exactly %d bytes" % (magic.hex(), want_len),
                                       "%d bytes beginning %r" % (len(r["delivered"]), r["delivered"][:40]))
                        d = r.get("dec")
                        self.judge(ctx, d is not None and d.rc == 0 and r.get("dec_plain") == j["plain"], sc, [run] + ([d] if d else []),
                                   "what was encrypted decrypts to the original %d bytes" % len(j["plain"]),
                                   "decrypt exit %s, equal: %s" % (d.rc if d else None, r.get("dec_plain") == j["plain"]))
                    if not j["ok"]:
                        self.judge(ctx, r["delivered"] == b"", sc, [run], "a failed encryption delivers nothing", "%d bytes" % len(r["delivered"]))
                if run.rc != 0:
                    self.judge(ctx, any(l.startswith("Error: ") for l in run.errtext().splitlines()) or "Error: " in run.errtext(), sc, [run],
                               "a failing run prints an Error: line on stderr", "stderr %r" % run.errtext()[-200:])
                self.judge(ctx, r["stray_stdout"] == b"", sc, [run], "with -o nothing is written to stdout", "stdout %r" % r["stray_stdout"][:60])
                if run.rc == 0 and j["cfg"]["out"] == "o":
                    # the status alone is not the result: the file named by -o must now BE the output
                    self.count(ctx, "o-path-before-success:" + j.get("pre", "absent"))
                    want = j["deliver"] if dec else None
                    got = r["file_bytes"]
                    okf = got is not None and (got == want if dec else (not got.startswith(SENTINEL[:20]) and len(got) > 0))
                    self.judge(ctx, okf, sc + ", -o path %s before the run" % j.get("pre", "absent"), [run],
                               "after exit 0 the -o file exists and holds exactly the output (%s), whatever was there before"
                               % ("%d plaintext bytes" % len(want) if dec else "the ciphertext"),
                               "absent" if got is None else "%d bytes: %r..." % (len(got), got[:50]))
                if dec and j.get("sender") and run.rc == 0:
                    if j["sender"] == "name":
                        want = "Success. File from: " + j.get("sender_name", "alice")
                    else:
                        want = "Unknown key: " + w.pub["alice"].decode()
                    self.judge(ctx, want in run.errtext().splitlines(), sc, [run], "stderr reports the sender: %r" % want, "stderr %r" % run.errtext()[-200:])
            # identical across wirings
            j0, r0 = items[0]
            for j, r in items[1:]:
                same = (r["run"].rc == r0["run"].rc and r["run"].error_lines() == r0["run"].error_lines()
                        and (r["delivered"] == r0["delivered"] or (not j.get("injected", True) and j["cmd"] in ("encrypt", "pass-encrypt"))))
                self.judge(ctx, same, "C12 %s: wiring %s vs %s" % (name, wname(j["cfg"]), wname(j0["cfg"])), [r0["run"], r["run"]],
                           "same exit status, same delivered bytes, same messages however I/O is wired",
                           "exit %d/%d, delivered equal: %s, messages %r / %r" % (r0["run"].rc, r["run"].rc, r["delivered"] == r0["delivered"],
                                                                               r0["run"].error_lines(), r["run"].error_lines()))
            self.sample(ctx, {"group": name, "wirings": len(items), "exit": r0["run"].rc, "delivered_bytes": len(r0["delivered"]),
                              "messages": list(r0["run"].error_lines())})


    # ---- output targets: WHAT the result is written to (regular file, device, pipe, FIFO, link, terminal, redirected stdout)
    TARGETS = ["regular-absent", "regular-existing", "regular-existing-longer", "absolute-path", "existing-subdirectory", "dev-null",
               "dev-stdout-pipe", "proc-self-fd-1-pipe", "fifo-with-reader", "plain-stdout-pipe", "stdout-to-file", "stdout-appending-to-file",
               "dev-stdout-to-file", "symlink-to-absent", "symlink-to-existing", "symlink-to-dev-null", "pty-slave-raw"]
    TO_STDOUT = ("dev-stdout-pipe", "proc-self-fd-1-pipe", "plain-stdout-pipe")

    def targets_part(self, ctx, w):
        """the same operation with its output sent to every kind of target: exit status, stderr and the bytes that ARRIVE at the
        target (read back from the file / the link's target / the reader of the FIFO, pipe or terminal) must be those of the run
        that writes a new regular file: exit 0 exactly when the complete output arrived."""
        rng = ctx.rng
        P = w.P
        A, B = w.pw["alice"], w.pw["bob"]
        rnd = ctx.rbytes(64)
        inj = lambda n: {"KESTREL_VERIF_RANDOM": rnd[:n].hex()}
        krs = rng.choice(["kr_first", "kr_last", "kr_full"])
        D = lambda f, kr=krs: ["dec" if rng.random() < 0.3 else "decrypt", f, "-t", "bob", "-k", kr, "--env-pass"]
        PD = lambda f: ["password", "decrypt", f, "--env-pass"]
        E = lambda f, to="bob": ["encrypt", f, "-t", to, "-f", "alice", "-k", "kr_full", "--env-pass"]
        PE = lambda f: ["pass", "enc", f, "--env-pass"]
        # (name, argv, env, succeeds, bytes that must arrive (None: those of the reference run), plaintext of an encryption)
        ops = [("decrypt valid-small", D("ct_small"), env_pw(B), True, P["small"], None),
               ("decrypt valid-big (two chunks)", D("ct_big"), env_pw(B), True, P["big"], None),
               ("decrypt valid-empty", D("ct_empty"), env_pw(B), True, b"", None),
               ("decrypt valid-small, sender not in the keyring", D("ct_small", "kr_absent"), env_pw(B), True, P["small"], None),
               ("decrypt bad-chunk2", D("ct_bad2"), env_pw(B), False, P["big"][:CHUNK], None),
               ("decrypt bad-chunk1", D("ct_bad1"), env_pw(B), False, b"", None),
               ("password decrypt valid-small", PD("pct_small"), env_pw(w.passpw), True, P["small"], None),
               ("password decrypt valid-big (two chunks)", PD("pct_big"), env_pw(w.passpw), True, P["big"], None),
               ("password decrypt valid-empty", PD("pct_empty"), env_pw(w.passpw), True, b"", None),
               ("password decrypt wrong-password", PD("pct_small"), env_pw(b"other"), False, b"", None),
               ("password decrypt truncated second chunk", PD("pct_trunc2"), env_pw(w.passpw), False, P["big"][:CHUNK], None),
               ("encrypt small", E("pt_small"), dict(env_pw(A), **inj(64)), True, None, P["small"]),
               ("encrypt big (two chunks)", E("pt_big"), dict(env_pw(A), **inj(64)), True, None, P["big"]),
               ("encrypt empty", E("pt_empty"), dict(env_pw(A), **inj(64)), True, None, b""),
               ("encrypt unknown-recipient", E("pt_small", "nobody"), dict(env_pw(A), **inj(64)), False, b"", None),
               ("password encrypt small", PE("pt_small"), dict(env_pw(w.passpw), **inj(32)), True, None, P["small"]),
               ("password encrypt big (two chunks)", PE("pt_big"), dict(env_pw(w.passpw), **inj(32)), True, None, P["big"])]
        if ctx.thorough():
            for k in ("zeros", "zerotail", "zeros2", "zerohead", "zeromid"):
                ops.append(("decrypt valid-" + k, D("ct_" + k), env_pw(B), True, P[k], None))
                ops.append(("password decrypt valid-" + k, PD("pct_" + k), env_pw(w.passpw), True, P[k], None))
        jobs = []
        for (name, argv, env, ok, want, plain) in ops:
            for t in self.TARGETS:
                if not ok and want == b"" and t in ("regular-existing", "regular-existing-longer", "symlink-to-existing"):
                    continue          # a failure before any output leaves the existing file alone: C13
                if want is not None:
                    nbytes = len(want)
                else:
                    nbytes = (HDR if argv[0] == "encrypt" else PHDR) + 32 * (len(plain) // CHUNK + 1) + len(plain)
                jobs.append({"op": name, "argv": argv, "env": env, "ok": ok, "want": want, "plain": plain, "target": t, "nbytes": nbytes,
                             "spell": rng.choice(["long", "short", "eq", "dash1"])})
        for i, j in enumerate(jobs):
            j["i"] = i
        res = self.pmap(lambda j: self.target_one(w, j), jobs)
        ref = {}
        for j, r in zip(jobs, res):
            if j["target"] == "regular-absent":
                ref[j["op"]] = r
        for j, r in zip(jobs, res):
            run, r0 = r["run"], ref[j["op"]]
            self.count(ctx, ("target-not-available:" if r.get("skipped") else "target:") + j["target"])
            sc = "C12 output target %s: %s" % (j["target"], j["op"])
            want = j["want"] if j["want"] is not None else r0["arrived"]
            runs = [run] if r is r0 else [r0["run"], run]
            if j["plain"] is not None and r is r0:
                self.judge(ctx, r.get("dec_rc") == 0 and r.get("dec_plain") == j["plain"], sc, [run], "what was encrypted into a new regular file "
                           "decrypts to the original %d bytes" % len(j["plain"]), "decrypt exit %r, equal: %s" % (r.get("dec_rc"), r.get("dec_plain") == j["plain"]))
            if r.get("skipped"):
                continue
            arrived = r["arrived"]
            complete = j["ok"] and (arrived is None or arrived == want)
            self.judge(ctx, run.rc == (0 if j["ok"] else 1) and (run.rc == 0) == complete, sc, runs,
                       "exit %d: the status says whether the complete output (%d bytes) arrived, whatever kind of file it is written to"
                       % (0 if j["ok"] else 1, len(want or b"")),
                       "exit %d, %s arrived; stderr %r" % (run.rc, "unobservable" if arrived is None else "%d bytes (%s)" % (
                           len(arrived), "the expected ones" if arrived == want else "first difference at %s" % first_diff(arrived, want or b"")),
                           run.errtext()[-200:]))
            if arrived is not None:
                self.judge(ctx, arrived == want, sc, runs, "the bytes that arrive at the target are the %d bytes a new regular file receives" % len(want or b""),
                           "%d bytes, first difference at %s" % (len(arrived), first_diff(arrived, want or b"")))
            self.judge(ctx, run.err == r0["run"].err, sc, runs, "stderr is the one of the run that writes a new regular file: %r" % r0["run"].errtext()[-200:],
                       "stderr %r" % run.errtext()[-300:])
            self.judge(ctx, r["stray"] == b"", sc, runs, "nothing is written to stdout when the output goes elsewhere", "stdout %r" % r["stray"][:60])
            if r.get("note"):
                self.judge(ctx, False, sc, runs, "the target is written to and stays what it was", r["note"])

    def target_one(self, w, j):
        import pty, tty
        sub = "tg_%d" % j["i"]
        d = w.p(sub)
        os.mkdir(d)
        rel = lambda n: os.path.join(sub, n)
        kind = j["target"]
        oarg, so, drain, fds, note = None, "pipe", None, [], None
        HEAD = b"what the log held before\n"

        def mk(n, data):
            with open(os.path.join(d, n), "wb") as f:
                f.write(data)
        try:
            if kind in ("regular-absent", "regular-existing", "regular-existing-longer"):
                oarg = rel("out")
                if kind != "regular-absent":
                    mk("out", SENTINEL * (2000 if kind.endswith("longer") else 1))
            elif kind == "absolute-path":
                oarg = os.path.join(d, "out")
            elif kind == "existing-subdirectory":
                os.mkdir(os.path.join(d, "sub"))
                oarg = rel("sub/out")
            elif kind == "dev-null":
                # private copies of the special files (vlib.private_special): the program under test never gets /dev itself
                oarg = vlib.private_special(d, "null")
                if oarg is None:
                    return {"skipped": True, "run": None}
            elif kind == "dev-stdout-pipe":
                oarg = vlib.private_special(d, "stdout")
                if oarg is None:
                    return {"skipped": True, "run": None}
            elif kind == "proc-self-fd-1-pipe":
                oarg = "/proc/self/fd/1"
            elif kind == "fifo-with-reader":
                os.mkfifo(os.path.join(d, "out"))
                drain = os.open(os.path.join(d, "out"), os.O_RDONLY | os.O_NONBLOCK)
                fds.append(drain)
                oarg = rel("out")
            elif kind == "plain-stdout-pipe":
                pass
            elif kind == "stdout-to-file":
                so = open(os.path.join(d, "out"), "wb")
            elif kind == "stdout-appending-to-file":
                mk("out", HEAD)
                so = open(os.path.join(d, "out"), "ab")
            elif kind == "dev-stdout-to-file":
                so = open(os.path.join(d, "out"), "wb")
                oarg = vlib.private_special(d, "stdout")
                if oarg is None:
                    return {"skipped": True, "run": None}
            elif kind in ("symlink-to-absent", "symlink-to-existing"):
                if kind.endswith("existing"):
                    mk("target", SENTINEL * 2000)
                os.symlink("target", os.path.join(d, "out"))
                oarg = rel("out")
            elif kind == "symlink-to-dev-null":
                nul = vlib.private_special(d, "null")
                if nul is None:
                    return {"skipped": True, "run": None}
                os.symlink(nul, os.path.join(d, "out"))
                oarg = rel("out")
            elif kind == "pty-slave-raw":
                try:
                    m, s = pty.openpty()
                    fds += [m, s]
                    tty.setraw(s)
                    os.set_blocking(m, False)
                    drain = m
                    oarg = os.ttyname(s)
                except Exception:                       # no pseudo-terminals in this environment
                    return {"skipped": True, "run": None}
            else:
                raise ValueError(kind)
            argv = j["argv"] + (opt(j["spell"], "output", oarg) if oarg else [])
            # (the terminal case stays in the caller's session: a session leader that opens a terminal would make it its controlling one)
            run, drained = kvc_run(w, argv, env=j["env"], stdout=so, drain_fd=drain, new_session=(kind != "pty-slave-raw"),
                                   settle=(0.5 if kind == "pty-slave-raw" else 0.0))
            if kind == "pty-slave-raw" and len(drained) < j["nbytes"]:
                # what the program wrote to the terminal is still on its way to the master side: wait for it (bounded)
                import select, time
                t_end = time.time() + 8
                while len(drained) < j["nbytes"] and time.time() < t_end:
                    if select.select([drain], [], [], 0.2)[0]:
                        try:
                            drained += os.read(drain, 1 << 16)
                        except OSError:
                            pass
            if so != "pipe":
                so.close()

            def rd(n):
                try:
                    with open(os.path.join(d, n), "rb") as f:
                        return f.read()
                except OSError:
                    return None
            stray = run.out if (so == "pipe" and kind not in self.TO_STDOUT) else b""
            if kind in ("dev-null", "symlink-to-dev-null"):
                arrived = None
            elif kind in self.TO_STDOUT:
                arrived = run.out
            elif kind in ("fifo-with-reader", "pty-slave-raw"):
                arrived = drained
            elif kind == "stdout-appending-to-file":
                c = rd("out") or b""
                arrived = c[len(HEAD):] if c.startswith(HEAD) else c
                if not c.startswith(HEAD):
                    note = "the file stdout appends to lost its earlier content"
            elif kind.startswith("symlink-to-"):
                arrived = rd("target") or b""
                p = os.path.join(d, "out")
                if not (os.path.islink(p) and os.readlink(p) == "target"):
                    note = "the symbolic link named by -o was replaced"
            elif kind == "existing-subdirectory":
                arrived = rd("sub/out") or b""
            else:
                arrived = rd("out") or b""
            if kind == "symlink-to-dev-null" and not os.path.islink(os.path.join(d, "out")):
                note = "the symbolic link named by -o was replaced"
            res = {"run": run, "arrived": arrived, "stray": stray, "note": note}
            if j["plain"] is not None and kind == "regular-absent" and run.rc == 0:
                if j["argv"][0] == "encrypt":
                    q = w.run(["decrypt", rel("out"), "-t", "bob", "-o", rel("pt"), "-k", "kr_full", "--env-pass"], env=env_pw(w.pw["bob"]))
                else:
                    q = w.run(["password", "decrypt", rel("out"), "-o", rel("pt"), "--env-pass"], env=env_pw(w.passpw))
                res["dec_rc"], res["dec_plain"] = q.rc, rd("pt")
            return res
        finally:
            for fd in fds:
                try:
                    os.close(fd)
                except OSError:
                    pass
            shutil.rmtree(d, ignore_errors=True)


# =========================================================================== the sender report: every wiring of stdout AND stderr, every kind of name
def c12_tty_stdin_envpass_part(self, ctx, w):
    """standard input a TERMINAL while the password comes from the environment (--env-pass): a wrong KESTREL_PASSWORD must end
    the command with exit 1 and an Error line (the unlock of a keyring key is retried only for a person who can TYPE another
    password; the variable cannot change between attempts), a right one must complete.  Found 2026-09-29 by reading the retry
    loop of commands::encrypt / commands::decrypt (finding F5, repaired in /repo): with --env-pass, a wrong password and a terminal
    on stdin the unchanged program printed 'Key unlock failed.' for ever.  Every key command and both password commands are run
    this way; a run that has not ended after LIMIT seconds is killed and reported."""
    import pty
    LIMIT = 45
    P = w.P["small"]
    jobs = []
    kr = {"KESTREL_KEYRING": "kr_first"}
    for label, argv, good, files in (
            ("encrypt", ["encrypt", "pt_small", "-t", "bob", "-f", "alice", "-o", "tty_ct", "-k", "kr_full", "--env-pass"], w.pw["alice"], ["tty_ct"]),
            ("decrypt", ["decrypt", "ct_small", "-t", "bob", "-o", "tty_pt", "--env-pass"], w.pw["bob"], ["tty_pt"]),
            ("decrypt to stdout", ["decrypt", "ct_small", "-t", "bob", "--env-pass"], w.pw["bob"], []),
            ("password decrypt", ["password", "decrypt", "pct_small", "-o", "tty_ppt", "--env-pass"], w.passpw, ["tty_ppt"]),
            ("password encrypt", ["password", "encrypt", "pt_small", "-o", "tty_pct", "--env-pass"], w.passpw, ["tty_pct"])):
        wrongs = [good + b"x", b"", b"wrong"] if good else [b"x"]
        for pw, ok in [(good, True)] + [(x, False) for x in wrongs[: (3 if ctx.thorough() else 2)]]:
            if label == "password encrypt" and not ok:
                continue      # every password is a right one for encrypting
            jobs.append((label, argv, pw, ok, files))

    def one(j):
        label, argv, pw, ok, files = j
        d = tempfile.mkdtemp(prefix="tty_", dir=w.dir)
        for f in os.listdir(w.dir):
            src = os.path.join(w.dir, f)
            if os.path.isfile(src) and not f.startswith("tty_"):
                try:
                    os.link(src, os.path.join(d, f))
                except OSError:
                    shutil.copy(src, os.path.join(d, f))
        try:
            m, sl = pty.openpty()
        except OSError:
            return None
        e = {"PATH": "/usr/bin:/bin", "HOME": d, "LANG": "C.UTF-8", "KESTREL_KEYRING": "kr_first"}
        try:
            e["KESTREL_PASSWORD"] = pw.decode("utf-8")
        except UnicodeDecodeError:
            os.close(m); os.close(sl)
            return None
        t0 = time.time()
        p = subprocess.Popen([w.bin] + argv, env=e, stdin=sl, stdout=subprocess.PIPE, stderr=subprocess.PIPE, start_new_session=True, cwd=d)
        os.close(sl)
        hung = False
        try:
            out, err = p.communicate(timeout=LIMIT)
        except subprocess.TimeoutExpired:
            hung = True
            try:
                os.killpg(p.pid, 9)
            except OSError:
                p.kill()
            out, err = p.communicate()
        os.close(m)
        got = {f: (open(os.path.join(d, f), "rb").read() if os.path.exists(os.path.join(d, f)) else None) for f in files}
        shutil.rmtree(d, ignore_errors=True)
        return {"rc": p.returncode, "out": out, "err": err, "hung": hung, "secs": round(time.time() - t0, 1), "files": got}
    res = self.pmap(one, jobs)
    for (label, argv, pw, ok, files), r in zip(jobs, res):
        if r is None:
            self.count(ctx, "tty-stdin-env-pass:not-available")
            continue
        self.count(ctx, "tty-stdin-env-pass:%s:%s" % (label, "right" if ok else "wrong"))
        desc = {"argv": ["kestrel"] + argv, "env": {"KESTREL_PASSWORD": pw.decode("utf-8", "replace"), "KESTREL_KEYRING": "kr_first"},
                "stdin": "a pseudo-terminal (nothing is typed)", "cwd": "a copy of the C12 world"}
        errs = r["err"].decode("utf-8", "replace")
        if ok:
            good = r["rc"] == 0 and not r["hung"]
            if label.startswith("decrypt to stdout"):
                good = good and r["out"] == P
            elif label in ("decrypt", "password decrypt"):
                good = good and r["files"][files[0]] == P
            proc_judge(ctx, good, "C12 terminal on stdin with --env-pass, right password: %s" % label, [desc],
                       "exit 0 and the complete result", "exit %s%s, stderr %r" % (r["rc"], " (killed after %d s)" % LIMIT if r["hung"] else "", errs[-200:]))
        else:
            nothing = all(v is None or v == b"" for v in r["files"].values()) and r["out"] == b""
            proc_judge(ctx, r["rc"] == 1 and not r["hung"] and "Error" in errs and nothing,
                       "C12 terminal on stdin with --env-pass, WRONG password: %s" % label, [desc],
                       "the command ends with exit 1, an Error line, nothing delivered",
                       "%s after %.1f s, exit %s, %d stderr lines (last: %r), delivered %s" % (
                           "still running, killed" if r["hung"] else "ended", r["secs"], r["rc"], errs.count("\n"), errs[-80:],
                           {k: (None if v is None else len(v)) for k, v in r["files"].items()}))


def s4a_proc(w, argv, env=None, stdin=None, out="pipe", err="pipe", timeout=120, cwd=None):
    """one real process with BOTH output streams wired as asked (World.run always gives it two pipes).
    stdin: None (= the null device, opened read-only by this harness) | bytes | ('file', name in the world's directory)
    out:   'pipe' | ('file', path)
    err:   'pipe' | ('file', path) | ('node', path of a PRIVATE character device, vlib.private_special) | 'pty' (the slave of a
           pseudo-terminal in raw mode: isatty(stderr) holds and the bytes arrive unchanged)
    Returns a Run whose .out / .err are the bytes that ARRIVED (read back from the file resp. the terminal; b"" for a device
    node, which keeps nothing), or None when no pseudo-terminal can be had here."""
    import threading
    cwd = cwd or w.dir
    e = {"PATH": "/usr/bin:/bin", "HOME": cwd, "LANG": "C.UTF-8"}
    e.update(env or {})
    fh, data, master, slave, th = None, None, None, None, None
    so = se = None
    chunks = []
    try:
        if stdin is None:
            sin = subprocess.DEVNULL
        elif isinstance(stdin, tuple):
            fh = open(os.path.join(cwd, stdin[1]), "rb")
            sin = fh
        else:
            sin, data = subprocess.PIPE, stdin
        if err == "pty":
            try:
                import pty, tty
                master, slave = pty.openpty()
                tty.setraw(slave)
            except Exception:
                return None
        so = subprocess.PIPE if out == "pipe" else open(out[1], "wb")
        se = subprocess.PIPE if err == "pipe" else (slave if err == "pty" else open(err[1], "wb"))
        p = subprocess.Popen([w.bin] + list(argv), env=e, stdin=sin, stdout=so, stderr=se, start_new_session=True, cwd=cwd)
        if slave is not None:
            os.close(slave)
            slave = None

            def rd():
                while True:
                    try:
                        b = os.read(master, 1 << 16)
                    except OSError:          # EIO: every descriptor of the slave side is closed and nothing is left
                        break
                    if not b:
                        break
                    chunks.append(b)
            th = threading.Thread(target=rd, daemon=True)
            th.start()
        try:
            o, x = p.communicate(input=data, timeout=timeout)
            rc = p.returncode
        except subprocess.TimeoutExpired:
            p.kill()
            o, x = p.communicate()
            rc, x = 124, (x or b"") + b"\n[timeout]"
        if th:
            th.join(timeout=10)
    finally:
        for f in (fh, so, se):
            if f is not None and hasattr(f, "close"):
                f.close()
        for fd in (slave, master):
            if fd is not None:
                try:
                    os.close(fd)
                except OSError:
                    pass
    w.nruns += 1

    def back(path):
        try:
            with open(path, "rb") as f:
                return f.read()
        except OSError:
            return b""
    o = (o or b"") if out == "pipe" else back(out[1])
    x = (x or b"") if err == "pipe" else (b"".join(chunks) if err == "pty" else (back(err[1]) if err[0] == "file" else b""))
    return Run(list(argv), dict(env or {}), ("<" + stdin[1]) if isinstance(stdin, tuple) else stdin, rc, o, x)


def s4a_report_lines(err):
    """the sender report as BYTES (names are compared byte for byte): stderr lines beginning Success. / Caution. / Unknown key:"""
    return [l for l in err.split(b"\n") if l.startswith((b"Success.", b"Caution.", b"Unknown key:"))]


def s4a_clean_name(s):
    """what the keyring parser keeps of the text after 'Name =': tabs removed, White_Space trimmed; None if that is no valid name
    (empty, more than 128 bytes, a line break inside)"""
    s = rust_trim(s.replace("\t", ""))
    if not s or "\n" in s or len(s.encode("utf-8")) > 128:
        return None
    return s


S4A_NAME_CLASSES = [
    ("plain", ["alice2", "Zo\u00eb M\u00fcller", "\u5c71\u7530 \u592a\u90ce", "ALICE", "a"]),
    ("quotes", ["Alice O'Neil", "\"quoted\"", "Dwayne \"The Rock\" J.", "`tick`", "a\"b'c", "'", "\"", "''", "\u2018curly\u2019"]),
    ("backslash", ["CORP\\alice", "\\\\server\\share", "trailing\\", "\\", "\\n", "\\t\\r\\0", "\\x1b[31m", "\\u{200d}", "a\\'b", "\\\\"]),
    ("control", ["a\x1b[31mred\x1b[0m", "bell\x07x", "nul\x00x", "a\rb", "del\x7fx", "c1\u009bx", "nel\u0085x", "\x01", "vt\x0bx", "ff\x0cx", "bs\x08\x08\x08xyz"]),
    ("zwj-emoji", ["\U0001F469\u200d\U0001F469\u200d\U0001F467\u200d\U0001F466", "\U0001F3F3\ufe0f\u200d\U0001F308", "dev \U0001F468\U0001F3FD\u200d\U0001F4BB",
                   "\U0001F600", "\u2764\ufe0f", "1\ufe0f\u20e3"]),
    ("zero-width", ["a\u200bb", "a\u200cb", "a\u200db", "a\u2060b", "a\ufeffb", "\ufeffbom first", "soft\u00adhyphen", "\u200b", "x\u200b", "\u180eMVS", "a\u034fb"]),
    ("combining", ["e\u0301", "a\u0300\u0301\u0302\u0303\u0304", "\u0301starts with a mark", "Z\u0351\u0327a\u0310\u0316lgo", "\u0e01\u0e33", "\u09a8\u09bf", "q\u20dd"]),
    ("bidi", ["\u202egpj.exe\u202c", "\u200fabc", "abc\u200e", "\u05e9\u05dc\u05d5\u05dd", "\u0645\u0631\u062d\u0628\u0627 bob", "\u2067isolate\u2069", "a\u061cb"]),
    ("128-bytes", ["a" * 128, "\u00e9" * 64, "\u20ac" * 42 + "ab", "\U0001F600" * 32, "'" * 128, "\\" * 128, "\u200d" * 42 + "zz", "\x1b" * 128,
                   "n" * 125 + "\u20ac"]),
    ("option-like", ["-o", "--to", "--help", "-h", "help", "--env-pass", "-", "--", "-k=kr", "--output=x", "-t bob", "version", "decrypt"]),
    ("keyring-syntax", ["[Key]", "Name = x", "a = b", "# not a comment", "PublicKey", "PrivateKey = x", "x#y", "=", "==x", "Name", "[Key] x", ";", "a;b"]),
    ("format-like", ["{}", "{0}", "%s%n", "{name}", "{:?}", "$HOME", "$(id)", "a|b", "a&b", "<x>", "*"]),
    ("inner-space", ["a  b", "a\u00a0b", "a\u3000b", "a\u2028b", "a\u2003b", "line\u2029sep"]),
    ("special-planes", ["\ufffd", "x\uffff", "\U0010ffff", "\ue000", "\u0378", "\U000e0001tag", "\U000f0000", "\ufdd0"]),
]

S4A_POOLS = [list(range(0x21, 0x7f)), [0x27, 0x22, 0x5c, 0x60], [c for c in range(0, 0x20) if c not in (9, 10)] + [0x7f], list(range(0x80, 0xa0)),
             list(range(0xc0, 0x100)) + list(range(0x4e00, 0x4e40)), list(range(0x300, 0x370)),
             [0xad, 0x200b, 0x200c, 0x200d, 0x200e, 0x200f, 0x2060, 0x2061, 0x2066, 0x2067, 0x2068, 0x2069, 0x202a, 0x202b, 0x202c, 0x202d, 0x202e, 0xfeff],
             list(range(0x1f600, 0x1f650)), [0x200d, 0xfe0f] + list(range(0x1f3fb, 0x1f400)), [0xe000, 0x378, 0xfffe, 0xffff, 0x10ffff, 0xf0000],
             [0x20, 0xa0, 0x2003, 0x3000, 0x2028, 0x85, 0x0d, 0x0b, 0x0c]]


def s4a_names(ctx, nrandom):
    """[(class, name)] — every class of name the keyring parser accepts (Model/KeyringText.v: 1..128 bytes of UTF-8 after the
    tabs are removed and the White_Space around it trimmed; nothing else is looked at), plus names assembled from random scalar
    values of those classes"""
    rng = ctx.rng
    out = []
    for cls, names in S4A_NAME_CLASSES:
        for n in names:
            assert s4a_clean_name(n) == n, (cls, n)
            out.append((cls, n))
    while nrandom > 0:
        pools = rng.sample(S4A_POOLS, rng.randrange(1, 4))
        s = "".join(chr(rng.choice(rng.choice(pools))) for _ in range(rng.choice([1, 2, 3, 5, 8, 13, 21])))
        while len(s.encode("utf-8")) > 128:
            s = s[:-1]
        s = s4a_clean_name(s)
        if s:
            out.append(("random", s))
            nrandom -= 1
    return out


def s4a_sender_report_part(self, ctx, w):
    """C12: 'after a successful key-based decryption it names the keyring entry whose public key equals the authenticated sender key,
    or reports the key as unknown together with its encoding', however the streams are wired.
    1. the sender report in EVERY cell of {-o | stdout pipe | stdout file} x stderr {pipe | file | terminal | character device} x
       keyring {sender first, last, under another name, absent} (input file/stdin, -k/KESTREL_KEYRING, plaintext size drawn per cell;
       thorough: all): exit 0, exactly the plaintext at the destination, nothing else on stdout, and on stderr exactly the report
       lines (unobservable for the device: status and bytes only).  Failing decryptions in the same cells: exit 1, the
       authenticated prefix, an Error: line and NO sender report.
    2. the reported name byte for byte, for every class of name a keyring may hold (S4A_NAME_CLASSES + random ones), the sender's
       entry first or last, over random observable wirings; in a part of the runs the RECIPIENT's entry carries such a name too
       and is selected with --to."""
    rng = ctx.rng
    P = w.P
    full = ctx.thorough()
    alice = w.pub["alice"]
    known = lambda n: [b"Success. File from: " + n]
    unknown = [b"Caution. File is from an unknown key.", b"Unknown key: " + alice]
    krs = [("kr_first", known(b"alice")), ("kr_last", known(b"alice")), ("kr_renamed", known(b"zed")), ("kr_absent", unknown)]
    files = [("ct_small", P["small"], True), ("ct_empty", b"", True), ("ct_big", P["big"], True)]
    bad = [("ct_bad2", P["big"][:CHUNK], False), ("ct_small_x1", b"", False), ("ct_bad1", b"", False)]
    outs, errs = ("o", "pipe", "file"), ("pipe", "file", "pty", "node")
    sub = w.p("s4a")
    os.mkdir(sub)
    node = vlib.private_special(sub, "null")
    jobs = []

    def add(kind, f, plain, ok, kr, want, o, e, inp, krhow, to=b"bob", label=""):
        jobs.append({"i": len(jobs), "kind": kind, "f": f, "plain": plain, "ok": ok, "kr": kr, "want": want, "out": o, "err": e, "inp": inp,
                     "krhow": krhow, "to": to, "label": label})
    for o in outs:
        for e in errs:
            for kr, want in krs:
                for (f, plain, ok) in (files if full else [rng.choice(files)]):
                    for inp in (("arg", "stdin") if full else [rng.choice(["arg", "stdin"])]):
                        add("cell", f, plain, ok, kr, want, o, e, inp, rng.choice(["k", "env"]))
            for (f, plain, ok) in (bad if full else [rng.choice(bad)]):
                add("cell-failing", f, plain, ok, rng.choice(krs)[0], [], o, e, rng.choice(["arg", "stdin"]), rng.choice(["k", "env"]))
    # ---- names
    bname, bpub, bpriv = parse_block(w.blocks["bob"])
    carol = key_block(b"carol", w.pub["carol"])
    names = s4a_names(ctx, 60 if full else 12)
    for i, (cls, n) in enumerate(names):
        nb = n.encode("utf-8")
        to = b"bob"
        if rng.random() < 0.3:
            cand = rng.choice(names)[1].encode("utf-8")
            if b"\x00" not in cand and cand != nb:
                to = cand
        if nb == to:
            to = b"bob2"
        blocks = [key_block(to, bpub, bpriv), carol]
        first = rng.random() < 0.5
        blocks = ([key_block(nb, alice)] + blocks) if first else (blocks + [key_block(nb, alice)])
        kr = "s4a/kr_%d" % i
        w.write(kr, b"\n".join(blocks))
        for rep in range(2 if full else 1):
            f, plain, ok = rng.choice(files)
            add("name", f, plain, ok, kr, known(nb), rng.choice(outs), rng.choice(errs[:3]), rng.choice(["arg", "stdin"]), rng.choice(["k", "env"]),
                to=to, label="%s name %r (%d bytes), sender's entry %s" % (cls, n, len(nb), "first" if first else "last"))

    def one(j):
        i = j["i"]
        argv = [rng_cmd[i % 2]] + ([j["f"]] if j["inp"] == "arg" else [])
        argv += [b"--to=" + j["to"]] if (j["to"].startswith(b"-") or i % 3 == 0) else ["-t", j["to"]]
        env = env_pw(w.pw["bob"])
        if j["krhow"] == "k":
            argv += ["-k", j["kr"]]
        else:
            env["KESTREL_KEYRING"] = j["kr"]
        argv += ["--env-pass"]
        op = os.path.join(sub, "out_%d" % i)
        if j["out"] == "o":
            argv += ["-o", os.path.join("s4a", "out_%d" % i)]
        o = ("file", op) if j["out"] == "file" else "pipe"
        e = {"pipe": "pipe", "pty": "pty", "file": ("file", os.path.join(sub, "err_%d" % i)), "node": ("node", node)}[j["err"]]
        if j["err"] == "node" and node is None:
            return None
        r = s4a_proc(w, argv, env=env, stdin=None if j["inp"] == "arg" else ("file", j["f"]), out=o, err=e)
        if r is None:
            return None
        filed = None
        if j["out"] == "o":
            try:
                with open(op, "rb") as fh:
                    filed = fh.read()
            except OSError:
                pass
        for pth in (op, os.path.join(sub, "err_%d" % i)):
            try:
                os.remove(pth)
            except OSError:
                pass
        return r, filed
    rng_cmd = ["decrypt", "dec"]
    res = self.pmap(one, jobs)
    for j, rr in zip(jobs, res):
        key = "report:%s/%s" % ("-o" if j["out"] == "o" else "stdout-" + j["out"], "stderr-" + j["err"])
        if rr is None:
            self.count(ctx, "report-wiring-not-available:" + j["err"])
            continue
        run, filed = rr
        self.count(ctx, key)
        self.count(ctx, "report-kind:" + j["kind"])
        sc = "C12 sender report, %s: %s, plaintext to %s, stderr to %s, input by %s, keyring %s by %s" % (
            j["kind"] + (" [" + j["label"] + "]" if j["label"] else ""), j["f"],
            {"o": "-o", "pipe": "stdout (a pipe)", "file": "stdout (redirected to a file)"}[j["out"]],
            {"pipe": "a pipe", "file": "a file", "pty": "a terminal", "node": "a character device that keeps nothing"}[j["err"]],
            "file argument" if j["inp"] == "arg" else "stdin", j["kr"], "-k" if j["krhow"] == "k" else "KESTREL_KEYRING")
        if j["kind"] == "name":
            run_d = [dict(run.describe(), keyring=(w.read(j["kr"]) or b"").decode("utf-8", "replace"))]
        else:
            run_d = [run.describe()]
        judge = lambda ok, exp, obs: proc_judge(ctx, ok, sc, run_d, exp, obs)
        delivered = (filed if filed is not None else b"") if j["out"] == "o" else run.out
        judge(run.rc == (0 if j["ok"] else 1), "exit %d" % (0 if j["ok"] else 1), "exit %d; stderr %r" % (run.rc, run.err[-200:]))
        judge(delivered == j["plain"], "exactly the %d bytes of the %s arrive at the destination" % (len(j["plain"]), "plaintext" if j["ok"] else "authenticated prefix"),
              "%d bytes, first difference at %s" % (len(delivered), first_diff(delivered, j["plain"])))
        if j["out"] == "o":
            judge(run.out == b"" and (filed is not None or not j["plain"]), "with -o nothing is written to stdout and the file holds the output",
                  "stdout %r, file %s" % (run.out[:80], "absent" if filed is None else "present"))
        if j["err"] == "node":
            continue
        rep = s4a_report_lines(run.err)
        if j["ok"]:
            judge(rep == j["want"], "stderr carries the sender report, byte for byte, however the streams are wired: %r" % (j["want"],),
                  "report lines %r; stderr %r" % (rep, run.err[-300:]))
        else:
            judge(rep == [] and b"Error: " in run.err, "a failed decryption prints an Error: line and reports NO sender", "stderr %r" % run.err[-300:])
    shutil.rmtree(sub, ignore_errors=True)
    # 3. "the keyring entry whose public key EQUALS the authenticated sender key ... or unknown together with ITS encoding": sender keys
    #    with bit 255 set (another byte string for the same curve point), files made by the library encryptor (shared with C05)
    props.s4a_c05_key_bytes(self, ctx)
    # 4. operands that are spelled like the tool's own words
    s4a_operand_words_part(self, ctx, w)


S4A_WORDS = ["help", "version", "encrypt", "decrypt", "enc", "dec", "key", "password", "pass", "generate", "gen", "change-pass", "extract-pub",
             "kestrel", "h", "v", "o", "t", "f", "k", "to", "from", "output", "keyring", "env-pass", "stdin", "stdout", "true", "usage", "man", "?",
             "Help", "HELP", "help.txt"]
S4A_CORE_WORDS = ("help", "version", "key", "decrypt", "h")
S4A_PLACES = ("in", "out", "to", "from", "kr", "krenv", "unknown-to")


def s4a_operand_words_part(self, ctx, w):
    """C12: 'exits 0 exactly when the requested operation completed', whatever the operands are CALLED.  An input file, an -o
    target, a key name after -t / -f, a keyring path (-k or KESTREL_KEYRING) that is spelled like one of the tool's own words
    (command names, aliases, option names without dashes, 'help', 'version') is an operand like any other: the operation is
    carried out (exit 0, exactly the output at the destination, the sender named; an encryption decrypts back), and a
    recipient of that name that is not in the keyring is an error (exit 1, nothing delivered).  Every run has a directory
    of its own; one placement per run, the value always an argument of its own (-t WORD, --to WORD, -to WORD)."""
    rng = ctx.rng
    full = ctx.thorough()
    P = w.P["small"]
    an, apub, apriv = parse_block(w.blocks["alice"])
    bn, bpub, bpriv = parse_block(w.blocks["bob"])
    ring = lambda aname=b"alice", bname=b"bob": (key_block(aname, apub, apriv) + b"\n" + key_block(bname, bpub, bpriv) + b"\n"
                                                 + key_block(b"carol", w.pub["carol"]))
    src = {"decrypt": w.read("ct_small"), "pass-decrypt": w.read("pct_small"), "encrypt": P, "pass-encrypt": P}
    base = w.p("s4w")
    os.mkdir(base)
    jobs = []
    for word in S4A_WORDS:
        places = S4A_PLACES if (full or word in S4A_CORE_WORDS) else rng.sample(S4A_PLACES, 2)
        for pl in places:
            cmd = rng.choice({"in": ["decrypt", "pass-decrypt", "encrypt", "pass-encrypt"], "out": ["decrypt", "pass-decrypt", "encrypt", "pass-encrypt"],
                              "from": ["encrypt"]}.get(pl, ["decrypt", "encrypt"]))
            jobs.append({"i": len(jobs), "word": word, "pl": pl, "cmd": cmd, "spell": rng.choice(["short", "long", "dash1"]),
                         "stdout": pl != "out" and rng.random() < 0.4, "first": rng.random() < 0.5, "alias": rng.random() < 0.3})

    def one(j):
        d = os.path.join(base, str(j["i"]))
        os.mkdir(d)
        word, pl, cmd = j["word"], j["pl"], j["cmd"]
        key = cmd in ("decrypt", "encrypt")
        inname = word if pl == "in" else "data.in"
        outname = word if pl == "out" else "data.out"
        krname = word if pl in ("kr", "krenv") else "ring.txt"
        to = word if pl in ("to", "unknown-to") else "bob"
        frm = word if pl == "from" else "alice"
        put = lambda n, b: open(os.path.join(d, n), "wb").write(b)
        put(inname, src[cmd])
        put("ring0.txt", ring())
        if key:
            put(krname, ring(frm.encode(), to.encode() if pl == "to" else b"bob"))
        names = {"encrypt": ["encrypt"], "decrypt": ["decrypt"], "pass-encrypt": ["password", "encrypt"], "pass-decrypt": ["password", "decrypt"]}[cmd]
        if j["alias"]:
            names = [{"encrypt": "enc", "decrypt": "dec", "password": "pass"}[n] for n in names]
        opts, env = [], {}
        if key:
            opts += opt(j["spell"], "to", to)
            if cmd == "encrypt":
                opts += opt(j["spell"], "from", frm)
            if pl == "krenv":
                env["KESTREL_KEYRING"] = krname
            else:
                opts += opt(j["spell"], "keyring", krname)
        if not j["stdout"]:
            opts += opt(j["spell"], "output", outname)
        opts += ["--env-pass"]
        env.update(env_pw(w.pw["bob"] if cmd == "decrypt" else w.pw["alice"] if cmd == "encrypt" else w.passpw))
        argv = names + ([inname] + opts if j["first"] else opts + [inname])
        r = s4a_proc(w, argv, env=env, cwd=d)
        filed = None
        try:
            with open(os.path.join(d, outname), "rb") as fh:
                filed = fh.read()
        except OSError:
            pass
        got = r.out if j["stdout"] else (filed if filed is not None else b"")
        back = None
        if cmd in ("encrypt", "pass-encrypt") and r.rc == 0 and pl != "unknown-to":
            put("produced.bin", got)
            if cmd == "encrypt":
                q = s4a_proc(w, ["decrypt", "-t", "bob", "-k", "ring0.txt", "--env-pass"], env=env_pw(w.pw["bob"]), stdin=("file", "produced.bin"), cwd=d)
            else:
                q = s4a_proc(w, ["password", "decrypt", "--env-pass"], env=env_pw(w.passpw), stdin=("file", "produced.bin"), cwd=d)
            back = (q.rc, q.out)
        shutil.rmtree(d, ignore_errors=True)
        return r, filed, got, back
    res = self.pmap(one, jobs)
    what = {"in": "the input file is called", "out": "the -o target is called", "to": "the recipient's keyring entry (-t) is called", "from": "the sender's keyring entry (-f) is called",
            "kr": "the keyring file (-k) is called", "krenv": "the keyring file (KESTREL_KEYRING) is called", "unknown-to": "the recipient (-t), who is NOT in the keyring, is called"}
    for j, (r, filed, got, back) in zip(jobs, res):
        self.count(ctx, "operand-word:" + j["pl"])
        sc = "C12 operands spelled like the tool's words: %s; %s %r (an argument of its own); output to %s" % (
            j["cmd"], what[j["pl"]], j["word"], "stdout" if j["stdout"] else "-o")
        judge = lambda ok, exp, obs: proc_judge(ctx, ok, sc, [r.describe()], exp, obs)
        if j["pl"] == "unknown-to":
            judge(r.rc == 1 and b"Error: " in r.err and j["word"].encode() in r.err and got == b"" and filed is None and r.out == b"",
                  "exit 1 with an Error: line naming the key %r, nothing delivered, no output file" % j["word"],
                  "exit %d, %d bytes delivered, output file %s, stdout %r, stderr %r" % (r.rc, len(got), "absent" if filed is None else "present", r.out[:80], r.err[-200:]))
            continue
        judge(r.rc == 0, "the operation is carried out: exit 0", "exit %d; stdout %r; stderr %r" % (r.rc, r.out[:80], r.err[-200:]))
        if not j["stdout"]:
            judge(r.out == b"" and filed is not None, "with -o the output file exists and nothing is written to stdout", "file %s, stdout %r" % ("absent" if filed is None else "present", r.out[:80]))
        if j["cmd"] in ("decrypt", "pass-decrypt"):
            judge(got == P, "exactly the %d plaintext bytes arrive" % len(P), "%d bytes, first difference at %s" % (len(got), first_diff(got, P)))
            if j["cmd"] == "decrypt":
                want = [b"Success. File from: " + (b"alice")]
                judge(s4a_report_lines(r.err) == want, "the sender is named: %r" % want, "stderr %r" % r.err[-200:])
        else:
            hdr, magic = (HDR, b"egk\x10") if j["cmd"] == "encrypt" else (PHDR, b"egk\x20")
            judge(got[:4] == magic and len(got) == hdr + 32 + len(P) and back == (0, P),
                  "the output is the ciphertext (%d bytes, magic %s) and decrypts to the plaintext" % (hdr + 32 + len(P), magic.hex()),
                  "%d bytes beginning %r; decrypting it: %s" % (len(got), got[:16], "not attempted" if back is None else "exit %d, plaintext %s" % (back[0], "equal" if back[1] == P else "differs")))
    shutil.rmtree(base, ignore_errors=True)


def first_diff(a, b):
    for i, (x, y) in enumerate(zip(a, b)):
        if x != y:
            return i
    return min(len(a), len(b)) if len(a) != len(b) else None


# =========================================================================== C12 (round 6): relations between the NAMES of input and output; short writes
R5_RLIMIT_CODE = ("import os,resource,signal,sys\n"
                  "signal.signal(signal.SIGXFSZ, signal.SIG_IGN)\n"
                  "resource.setrlimit(resource.RLIMIT_FSIZE, (int(sys.argv[1]), int(sys.argv[1])))\n"
                  "os.execv(sys.argv[2], sys.argv[2:])\n")


def r5_run(w, argv, env, cwd, stdin_path=None, stdout_path=None, limit=None, timeout=120):
    """one real process in the private directory cwd (= HOME); stdin: the null device | the file stdin_path; stdout: a pipe | the
    file stdout_path (created); limit: RLIMIT_FSIZE in bytes with SIGXFSZ ignored (a write that crosses the limit is SHORT, the
    next one fails with EFBIG) set by a small launcher that then executes the program.  Not recorded for the model comparison
    (these runs are judged by the direct oracles).  -> Run"""
    import sys as _sys
    e = {"PATH": "/usr/bin:/bin", "HOME": cwd, "LANG": "C.UTF-8"}
    e.update(env or {})
    cmdline = [w.bin] + list(argv)
    if limit is not None:
        cmdline = [_sys.executable, "-c", R5_RLIMIT_CODE, str(limit), w.bin] + list(argv)
    fin = open(stdin_path, "rb") if stdin_path else None
    fout = open(stdout_path, "wb") if stdout_path else None
    try:
        try:
            pr = subprocess.run(cmdline, env=e, stdin=fin if fin else subprocess.DEVNULL, stdout=fout if fout else subprocess.PIPE,
                                stderr=subprocess.PIPE, start_new_session=True, cwd=cwd, timeout=timeout)
            rc, out, err = pr.returncode, pr.stdout or b"", pr.stderr
        except subprocess.TimeoutExpired as ex:
            rc, out, err = 124, b"", (ex.stderr or b"") + b"\n[timeout]"
    finally:
        if fin:
            fin.close()
        if fout:
            fout.close()
    w.nruns += 1
    env_shown = dict(env or {})
    if limit is not None:
        env_shown["(process limits)"] = "RLIMIT_FSIZE=%d bytes, SIGXFSZ ignored" % limit
    sin = None
    if stdin_path:
        sin = "<" + os.path.relpath(stdin_path, cwd)
    if stdout_path:
        env_shown["(stdout)"] = "redirected to the new file " + os.path.relpath(stdout_path, cwd)
    return Run(list(argv), env_shown, sin, rc, out, err)


# (label, input path, -o path) relative to the run's directory; @D = that directory (absolute spelling).  The two are ALWAYS two
# different files, and the strings differ: nothing but the names relates them.
R5_NAME_PAIRS = [
    ("same base name, output in a sub-directory", "msg.bin", "out/msg.bin"),
    ("same base name, input in a sub-directory", "in/msg.bin", "msg.bin"),
    ("same base name in two sibling directories", "a/x", "b/x"),
    ("output path is the tail of the input path", "a/b/msg", "b/msg"),
    ("input path is the tail of the output path, two levels", "b/msg", "a/b/msg"),
    ("input path is the tail of the ABSOLUTE output path", "msg.bin", "@D/out/msg.bin"),
    ("output path is the tail of the ABSOLUTE input path", "@D/in/notes.txt", "notes.txt"),
    ("output in the directory above, same base name", "sub/msg.bin", "sub/../msg.bin"),
    ("input name is a leading part of the output name", "msg", "msg.out"),
    ("output name is a leading part of the input name", "msg.bin", "msg"),
    ("output name is a trailing part of the input NAME (no separator)", "xmsg", "msg"),
    ("names that differ in case only", "msg.bin", "MSG.BIN"),
    ("input named '-'", "-", "res"),
    ("output named '-'", "data", "-"),
    ("input AND output in a directory named '-'", "./-/in", "-/out"),
    ("input './-'", "./-", "res"),
    ("output './-'", "data", "./-"),
    ("input '-', output in a sub-directory also named '-'", "-", "d/-"),
    ("input './--'", "./--", "res"),
    ("output './--'", "data", "./--"),
    ("names with blanks", "my file", "my file.out"),
    ("names with blanks, same base name in a directory with a blank", "c d", "a b/c d"),
    ("a name made of blanks", "data", "  "),
    ("non-ASCII names, same base name", "dä ✓", "ö/dä ✓"),
    ("input whose name ends in a dot, output without it", "msg.", "msg"),
]
R5_NAME_ALPHABET = ["a", "b", "msg", "x.bin", "-", "--", " ", "o", "é", "out", "in", ".x", "x.", "-o", "=", "k r"]


def r5_random_name_pairs(rng, n):
    """pairs sharing their LAST component(s): one path is a trailing part of the other, or both end alike in different directories"""
    out = []
    while len(out) < n:
        base = [rng.choice(R5_NAME_ALPHABET) for _ in range(rng.choice([1, 1, 2]))]
        pre_a = [rng.choice(R5_NAME_ALPHABET) for _ in range(rng.choice([0, 0, 1, 2]))]
        pre_b = [rng.choice(R5_NAME_ALPHABET) for _ in range(rng.choice([0, 1, 1, 2]))]
        if pre_a == pre_b:
            continue
        a, b = pre_a + base, pre_b + base
        # a path component may not be a prefix-directory of the other path's file and vice versa (a name is a file OR a directory)
        def clash(p, q):
            return any(p == q[:k] for k in range(1, len(q))) or p == q
        if clash(a, b) or clash(b, a):
            continue
        if rng.random() < 0.5:
            a, b = b, a
        sa, sb = "/".join(a), "/".join(b)
        # a first component beginning with '-' would be read as an option (a lone '-' is a name): spell it './...'
        fixd = lambda s: "./" + s if (s.startswith("-") and s != "-") else s
        sa, sb = fixd(sa), fixd(sb)
        if rng.random() < 0.2:
            sb = "@D/" + (sb[2:] if sb.startswith("./") else sb)
        out.append(("random: common tail %r" % "/".join(base), sa, sb))
    return out


def c12_r5_names_part(self, ctx, w):
    """The outcome does not depend on whether data comes by file argument or stdin, goes to -o or stdout - WHATEVER the two names
    are.  For pairs of names that are related only as strings (same base name in another directory, one path a trailing / leading
    part of the other, '-', './--', blanks, case) each of the four commands runs (file argument, -o), (stdin, -o) and (file
    argument, stdout) on a valid input in a private directory: exit 0, the bytes delivered are those of the plain (stdin, stdout)
    run made once, with -o nothing appears on stdout, and the tree of the directory afterwards is the tree before plus exactly
    the one output file."""
    rng = ctx.rng
    full = ctx.thorough()
    P = w.P["small"]
    rnd = ctx.rbytes(64)
    A, Bp = w.pw["alice"], w.pw["bob"]
    cmds = [("encrypt", "encrypt", "pt_small", dict(to="bob", frm="alice", keyring="kr_full", pw=A, extra_env={"KESTREL_VERIF_RANDOM": rnd.hex()})),
            ("decrypt", "decrypt", "ct_small", dict(to="bob", keyring="kr_full", pw=Bp)),
            ("password encrypt", "pass-encrypt", "pt_small", dict(pw=w.passpw, extra_env={"KESTREL_VERIF_RANDOM": rnd[:32].hex()})),
            ("password decrypt", "pass-decrypt", "pct_small", dict(pw=w.passpw))]
    # the reference: stdin -> stdout in the world's own directory
    ref = {}
    for cmd, wcmd, src, kw in cmds:
        argv, env, _ = wire(wcmd, dict(BASE_WIRING, inp="stdin", out="stdout"), src, "unused", **kw)
        r = r5_run(w, argv, env, w.dir, stdin_path=w.p(src))
        want = P if wcmd.endswith("decrypt") else None
        if not proc_judge(ctx, r.rc == 0 and (want is None or r.out == want) and len(r.out) >= len(P), "C12 names: reference run (stdin -> stdout) of " + cmd,
                          [r.describe()], "exit 0 and the complete output on stdout", "exit %d, %d bytes, stderr %r" % (r.rc, len(r.out), r.errtext()[-160:])):
            return
        ref[cmd] = r.out
    pairs = list(R5_NAME_PAIRS) + r5_random_name_pairs(rng, 24 if full else 6)
    wir = all_wirings(True)
    jobs = []
    for (label, a, b) in pairs:
        for (cmd, wcmd, src, kw) in (cmds if full else rng.sample(cmds, 2)):
            c = rng.choice(wir)
            for inp, outk in (("arg", "o"), ("stdin", "o"), ("arg", "stdout")):
                jobs.append({"label": label, "a": a, "b": b, "cmd": cmd, "wcmd": wcmd, "src": src, "kw": kw,
                             "cfg": dict(c, inp=inp, out=outk)})
    for i, j in enumerate(jobs):
        j["i"] = i

    def one(j):
        d = w.p("r5n_%d" % j["i"])
        os.mkdir(d)
        try:
            sub = lambda s: s.replace("@D", d)
            a, b = sub(j["a"]), sub(j["b"])
            pa, pb = os.path.normpath(os.path.join(d, a)), os.path.normpath(os.path.join(d, b))
            # '..' in a spelling walks through the directories it names: make every directory on the way
            for s in (a, b):
                comps = os.path.join(d, s).split("/")[:-1]
                cur = "/"
                for comp in comps:
                    cur = os.path.normpath(os.path.join(cur, comp)) if comp == ".." else os.path.join(cur, comp)
                    if not os.path.isdir(cur):
                        os.makedirs(cur, exist_ok=True)
            shutil.copyfile(w.p(j["src"]), pa)
            kw = dict(j["kw"])
            if kw.get("keyring"):
                os.link(w.p("kr_full"), os.path.join(d, "kr_full"))
            argv, env, stdin = wire(j["wcmd"], j["cfg"], a, b, **kw)
            before = kvc_tree_snapshot(d)
            r = r5_run(w, argv, env, d, stdin_path=pa if stdin else None)
            after = kvc_tree_snapshot(d)
            filed = None
            try:
                with open(pb, "rb") as f:
                    filed = f.read()
            except OSError:
                pass
            return r, kvc_tree_diff(before, after), filed, os.path.relpath(pb, d)
        finally:
            shutil.rmtree(d, ignore_errors=True)
    res = self.pmap(one, jobs)
    for j, (r, diff, filed, outrel) in zip(jobs, res):
        via = "%s, %s" % ("file argument" if j["cfg"]["inp"] == "arg" else "stdin", "-o" if j["cfg"]["out"] == "o" else "stdout")
        self.count(ctx, "names:" + ("random" if j["label"].startswith("random") else j["label"]))
        self.count(ctx, "names-wiring:" + via)
        sc = "C12 names: %s of a valid input named %r with -o %r (%s), wiring %s (%s)" % (j["cmd"], j["a"], j["b"], j["label"], via, wname(j["cfg"]))
        want = ref[j["cmd"]]
        to_file = j["cfg"]["out"] == "o"
        delivered = (filed if filed is not None else b"") if to_file else r.out
        self.judge(ctx, r.rc == 0 and delivered == want, sc, [r],
                   "exit 0 and the %d bytes the plain stdin -> stdout run delivers: the outcome does not depend on how (and under which names) "
                   "data is supplied" % len(want),
                   "exit %d, %d bytes delivered (first difference at %s), stderr %r" % (r.rc, len(delivered), first_diff(delivered, want), r.errtext()[-200:]))
        if to_file:
            self.judge(ctx, r.out == b"", sc, [r], "with -o nothing is written to stdout", "stdout %d bytes: %r" % (len(r.out), r.out[:40]))
            if r.rc == 0:
                self.judge(ctx, len(diff) == 1 and diff[0].startswith("CREATED " + outrel + " "), sc, [r],
                           "the file named by -o (%s) is created and nothing else in the directory changes" % outrel, "; ".join(diff[:6]) or "no change at all")
        else:
            self.judge(ctx, not diff, sc, [r], "writing to stdout changes nothing in the directory", "; ".join(diff[:6]))


def c12_r5_short_write_part(self, ctx, w):
    """exit 0 exactly when the COMPLETE output has been written, when the output file may not grow beyond a limit (RLIMIT_FSIZE,
    SIGXFSZ ignored: the write that crosses the limit is a short one, the next fails): limits at every kind of place inside
    the output - inside the first record, at a record boundary, inside the LAST record / the last write, one byte before the
    end, exactly the end (control: exit 0) - for -o and for stdout redirected to a file alike."""
    rng = ctx.rng
    full = ctx.thorough()
    rnd = ctx.rbytes(64)
    A, Bp = w.pw["alice"], w.pw["bob"]
    sizes = [("small", len(w.P["small"]))] + ([("big", len(w.P["big"]))] if full else [])
    n3 = 2 * CHUNK + rng.randrange(1, 60000)
    w.write("pt_r5three", ctx.rbytes(n3))
    sizes.append(("r5three", n3))
    w.P["r5three"] = w.read("pt_r5three")
    pre = [r5_run(w, ["encrypt", "pt_r5three", "-t", "bob", "-f", "alice", "-o", "ct_r5three", "-k", "kr_full", "--env-pass"], env_pw(A), w.dir),
           r5_run(w, ["password", "encrypt", "pt_r5three", "-o", "pct_r5three", "--env-pass"], env_pw(w.passpw), w.dir)]
    if not proc_judge(ctx, all(r.rc == 0 for r in pre), "C12 short writes: preparing a three-chunk file", [r.describe() for r in pre], "encryption succeeds",
                      "exit %s" % [r.rc for r in pre]):
        return
    jobs = []
    for key, n in sizes:
        for cmd, argv, env, infile, L, hdr in (
                ("decrypt", ["decrypt", "ct_" + key, "-t", "bob", "-k", "kr_full", "--env-pass"], env_pw(Bp), "ct_" + key, n, 0),
                ("password decrypt", ["pass", "dec", "pct_" + key, "--env-pass"], env_pw(w.passpw), "pct_" + key, n, 0),
                ("encrypt", ["enc", "pt_" + key, "-t", "bob", "-f", "alice", "-k", "kr_full", "--env-pass"],
                 dict(env_pw(A), KESTREL_VERIF_RANDOM=rnd.hex()), "pt_" + key, HDR + 32 * (n // CHUNK + 1) + n, HDR),
                ("password encrypt", ["password", "encrypt", "pt_" + key, "--env-pass"],
                 dict(env_pw(w.passpw), KESTREL_VERIF_RANDOM=rnd[:32].hex()), "pt_" + key, PHDR + 32 * (n // CHUNK + 1) + n, PHDR)):
            rec = CHUNK if hdr == 0 else CHUNK + 32
            nrec = n // CHUNK + 1
            last_start = hdr + (nrec - 1) * rec
            inlast = rng.randrange(last_start + 1, L)
            lims = {L - 1, inlast, L}
            if nrec > 1:
                lims |= {last_start, rng.randrange(hdr + 1, last_start)}
            if hdr:
                lims |= {rng.choice([hdr, L - 16, L - 17 if L - 17 > hdr else L - 1])}
            if full:
                lims |= {0, 1, L - 2, L + 1, 1 << 30, hdr, max(L - 16, 0), max(L - 17, 0), rng.randrange(1, hdr + rec)} | {rng.randrange(1, L) for _ in range(6)}
                lims |= {rng.randrange(last_start + 1, L)}
            for lim in sorted(lims):
                for how in ("-o", "stdout redirected to a file"):
                    if how != "-o" and not full and lim not in (L - 1, inlast):
                        continue
                    jobs.append({"cmd": cmd, "argv": argv, "env": env, "in": infile, "L": L, "limit": lim, "how": how, "key": key})
    # what the complete output is: the plaintext; for the encryptors (injected random stream) the output of an unlimited run
    want = {}
    for j in jobs:
        k = (j["cmd"], j["key"])
        if k in want:
            continue
        if j["cmd"].endswith("decrypt"):
            want[k] = w.P[j["key"]]
        else:
            r = r5_run(w, j["argv"], j["env"], w.dir)
            if not proc_judge(ctx, r.rc == 0 and len(r.out) == j["L"], "C12 short writes: unlimited %s of %s" % (j["cmd"], j["key"]), [r.describe()],
                              "exit 0 and %d bytes" % j["L"], "exit %d, %d bytes" % (r.rc, len(r.out))):
                return
            want[k] = r.out
    for i, j in enumerate(jobs):
        j["i"] = i

    def one(j):
        d = w.p("r5s_%d" % j["i"])
        os.mkdir(d)
        try:
            kvc_link_inputs(w, d, j["argv"], j["env"])
            if j["how"] == "-o":
                r = r5_run(w, j["argv"] + ["-o", "out"], j["env"], d, limit=j["limit"])
            else:
                r = r5_run(w, j["argv"], j["env"], d, stdout_path=os.path.join(d, "out"), limit=j["limit"])
            try:
                with open(os.path.join(d, "out"), "rb") as f:
                    made = f.read()
            except OSError:
                made = None
            return r, made
        finally:
            shutil.rmtree(d, ignore_errors=True)
    res = self.pmap(one, jobs)
    for j, (r, made) in zip(jobs, res):
        W = want[(j["cmd"], j["key"])]
        fits = j["limit"] >= j["L"]
        self.count(ctx, "short-write:%s:%s" % (j["how"], "everything fits" if fits else "limit inside the output"))
        sc = ("C12 short writes: %s (%s, complete output %d bytes) with the output (%s) limited to %d bytes"
              % (j["cmd"], j["key"], j["L"], j["how"], j["limit"]))
        complete = made == W
        self.judge(ctx, r.rc in (0, 1) and (r.rc == 0) == complete and (r.rc == 0) == fits, sc, [r],
                   "exit %s: exit 0 exactly when the complete output (%d bytes) has been written, otherwise exit 1"
                   % ("0" if fits else "1", j["L"]),
                   "exit %d, the file holds %s; stderr %r" % (r.rc, "nothing (absent)" if made is None else "%d bytes (%s)" % (
                       len(made), "the complete output" if complete else "first difference at %s" % first_diff(made, W)), r.errtext()[-200:]))
        if r.rc != 0:
            self.judge(ctx, "Error: " in r.errtext(), sc, [r], "a failing run prints an Error: line on stderr", "stderr %r" % r.errtext()[-200:])
        if made is not None:
            self.judge(ctx, len(made) <= max(j["limit"], 0) + 0 or fits, sc, [r], "the file does not exceed the limit", "%d bytes" % len(made))
            self.judge(ctx, W.startswith(made), sc, [r], "what has been written is a prefix of the complete output",
                       "%d bytes, first difference at %s" % (len(made), first_diff(made, W)))


props.REGISTRY[C12.id] = C12()


# =========================================================================== C13
SENTINEL = b"PRECIOUS sentinel content that must survive\n" * 3

# shapes of the output LOCATION of a failing run (C13 whole-tree part).  family -> members; every member prepares the run's
# private directory d and returns the -o argument.  "present" members put SENTINEL where the bytes would land.
C13_SHAPES = {
    "missing-parent": ["nd/out", "nd/a/b/out", "ABS/nd/out", "nd/../out", "sub/nd/out", "./nd/./out"],
    "plain": ["absent", "sentinel", "subdir-absent", "subdir-sentinel", "absolute-absent", "absolute-sentinel"],
    "indirect": ["symlink-to-file", "dangling-symlink", "dangling-symlink-into-missing-dir", "parent-is-symlink-to-dir",
                 "symlink-to-symlink-to-file"],
    "special": ["directory", "fifo-without-reader", "parent-is-a-file", "empty-directory-with-slash"],
    # present, but EMPTY / one byte long / read-only (round 6)
    "small-present": ["empty-file", "one-byte-file", "subdir-empty-file", "absolute-empty-file", "symlink-to-empty-file", "read-only-file",
                      "read-only-empty-file"],
}


def c13_prepare_shape(shape, d):
    """-> (the -o argument, relative path of the regular file the bytes would land in | None)"""
    def mk(rel, data=SENTINEL):
        with open(os.path.join(d, rel), "wb") as f:
            f.write(data)
    if shape in ("nd/out", "nd/a/b/out", "nd/../out", "./nd/./out"):
        return shape, None
    if shape == "ABS/nd/out":
        return os.path.join(d, "nd", "out"), None
    if shape == "sub/nd/out":
        os.mkdir(os.path.join(d, "sub"))
        return shape, None
    if shape == "absent":
        return "out", "out"
    if shape == "sentinel":
        mk("out")
        return "out", "out"
    if shape in ("subdir-absent", "subdir-sentinel"):
        os.mkdir(os.path.join(d, "sub"))
        if shape.endswith("sentinel"):
            mk("sub/out")
        return "sub/out", "sub/out"
    if shape in ("absolute-absent", "absolute-sentinel"):
        if shape.endswith("sentinel"):
            mk("out")
        return os.path.join(d, "out"), "out"
    if shape in ("empty-file", "one-byte-file", "read-only-file", "read-only-empty-file"):
        mk("out", {"empty-file": b"", "one-byte-file": b"\x00", "read-only-file": SENTINEL, "read-only-empty-file": b""}[shape])
        if shape.startswith("read-only"):
            os.chmod(os.path.join(d, "out"), 0o444)
        return "out", "out"
    if shape == "subdir-empty-file":
        os.mkdir(os.path.join(d, "sub"))
        mk("sub/out", b"")
        return "sub/out", "sub/out"
    if shape == "absolute-empty-file":
        mk("out", b"")
        return os.path.join(d, "out"), "out"
    if shape == "symlink-to-empty-file":
        mk("target", b"")
        os.symlink("target", os.path.join(d, "out"))
        return "out", "target"
    if shape == "symlink-to-file":
        mk("target")
        os.symlink("target", os.path.join(d, "out"))
        return "out", "target"
    if shape == "symlink-to-symlink-to-file":
        mk("target")
        os.symlink("target", os.path.join(d, "mid"))
        os.symlink("mid", os.path.join(d, "out"))
        return "out", "target"
    if shape == "dangling-symlink":
        os.symlink("target", os.path.join(d, "out"))
        return "out", "target"
    if shape == "dangling-symlink-into-missing-dir":
        os.symlink("nd/target", os.path.join(d, "out"))
        return "out", None
    if shape == "parent-is-symlink-to-dir":
        os.mkdir(os.path.join(d, "real"))
        os.symlink("real", os.path.join(d, "ln"))
        return "ln/out", "real/out"
    if shape == "directory":
        os.mkdir(os.path.join(d, "out"))
        return "out", None
    if shape == "empty-directory-with-slash":
        os.mkdir(os.path.join(d, "sub"))
        return "sub/", None
    if shape == "fifo-without-reader":
        os.mkfifo(os.path.join(d, "out"))
        return "out", None
    if shape == "parent-is-a-file":
        mk("f")
        return "f/out", None
    raise ValueError(shape)


# ---- C13, "bad arguments: input and output are the same": ONE file reached by the input argument AND by -o ---------------------
# The run's private directory (c13_same_layout):
#   data                      the file (valid input of the command: plaintext / key-mode file / password-mode file)
#   dä ✓                     a second copy under a non-ASCII name with a blank in it
#   hl                        a hard link to data
#   lnk -> data, lnk2 -> lnk, lnkabs -> <dir>/data, dang -> nowhere
#   real/data2                a copy in a sub-directory;  real/up -> ../data
#   ln -> real, lnabs -> <dir>/real      symbolic links to the directory
#   sub/, sub/deep/           empty directories (for '..' spellings and as working directories)
# IDENTICAL strings: the program is given the same string as input and as -o.  It must refuse (exit 1) and leave everything as it was,
# however the string reaches the file.  (label, string; @D = the run's directory)
C13_SAME_STRINGS = [
    ("plain", "data"), ("dot-slash", "./data"), ("sub-directory", "real/data2"), ("dot-dot", "sub/../data"), ("dot-dot twice", "sub/deep/../../data"),
    ("absolute", "@D/data"), ("absolute with dot-dot", "@D/real/../data"), ("absolute with a dot", "@D/./data"), ("double slash", "real//data2"),
    ("dot inside", "real/./data2"), ("leading double slash", "//@D/data"), ("non-ASCII name", "dä ✓"), ("hard link", "hl"),
    ("symbolic link to the file", "lnk"), ("chain of symbolic links", "lnk2"), ("absolute symbolic link", "lnkabs"),
    ("symbolic link pointing up, in a sub-directory", "real/up"), ("symbolic link, dot-slash", "./lnk"), ("symbolic link, absolute", "@D/lnk"),
    ("symbolically linked directory", "ln/data2"), ("absolutely linked directory", "lnabs/data2"),
    ("absolute path through a linked directory", "@D/ln/data2"), ("dot-dot through a linked directory", "ln/../data"),
    ("linked directory, then a link pointing up", "ln/up"), ("absent", "nofile"), ("absent below a linked directory", "ln/nofile"),
    ("dangling symbolic link", "dang"), ("a directory", "sub"), ("a linked directory", "ln"),
]
# the same, seen from a sub-directory as the working directory: (label, working directory, string)
C13_SAME_STRINGS_CWD = [("parent-relative, from sub/", "sub", "../data"), ("through a linked directory, from sub/deep/", "sub/deep", "../../ln/data2"),
                        ("symbolic link, from real/", "real", "up"), ("linked working directory", "ln", "data2")]
# TWO spellings of one file: the unchanged program compares strings and does not refuse these (DESIGN 7.3, recorded observation)
C13_SAME_PAIRS = [("data", "./data"), ("./data", "data"), ("data", "@D/data"), ("lnk", "data"), ("data", "lnk"), ("hl", "data"), ("ln/data2", "real/data2"),
                  ("real/data2", "ln/data2"), ("sub/../data", "data"), ("lnk2", "lnk"), ("real/up", "data"), ("@D/ln/data2", "ln/data2")]


def c13_same_layout(d, data):
    def mk(rel, b=data):
        with open(os.path.join(d, rel), "wb") as f:
            f.write(b)
    for sub in ("real", "sub", "sub/deep"):
        os.mkdir(os.path.join(d, sub))
    mk("data")
    mk("dä ✓")
    mk("real/data2")
    os.link(os.path.join(d, "data"), os.path.join(d, "hl"))
    for name, target in (("lnk", "data"), ("lnk2", "lnk"), ("lnkabs", os.path.join(d, "data")), ("dang", "nowhere"), ("real/up", "../data"),
                         ("ln", "real"), ("lnabs", os.path.join(d, "real"))):
        os.symlink(target, os.path.join(d, name))


# prior states of the output path besides "absent" and "present with content": present and EMPTY, one byte, read-only
C13_R5_SMALL_STATES = ["empty", "one-byte", "read-only-sentinel", "read-only-empty"]


def c13_r5_later_files(w, ctx):
    """a three-chunk file per mode (made by the program itself) damaged in a LATER chunk in every way the format offers: body,
    tag, last-chunk flag, a length field that stays plausible / announces too much, the file cut inside / at the start of a later
    record, data after the end (the 8 counter bytes of a record header are not read by the decryptor: not a failure).  -> (wire command, file, password, recipient, what, authenticated prefix)"""
    rng = ctx.rng
    n = 2 * CHUNK + rng.randrange(1, 40000)
    P = ctx.rbytes(n)
    w.write("pt_r5l", P)
    e = w.run(["encrypt", "pt_r5l", "-t", "bob", "-f", "alice", "-o", "ct_r5l", "-k", "kr_full", "--env-pass"], env=env_pw(w.pw["alice"]))
    q = w.run(["password", "encrypt", "pt_r5l", "-o", "pct_r5l", "--env-pass"], env=env_pw(w.passpw))
    if e.rc != 0 or q.rc != 0:
        raise RuntimeError("setup encryption (three chunks) failed: " + e.errtext() + q.errtext())
    rec = 16 + CHUNK + 16
    last = n - 2 * CHUNK
    out = []
    for cmd, f, hdr, pw, to in (("decrypt", "ct_r5l", HDR, w.pw["bob"], "bob"), ("pass-decrypt", "pct_r5l", PHDR, w.passpw, None)):
        data = w.read(f)
        fl = lambda off, bit=None: data[:off] + bytes([data[off] ^ (bit if bit else 1 << rng.randrange(8))]) + data[off + 1:]
        c2, c3 = hdr + rec, hdr + 2 * rec               # start of the second / third record
        kinds = [("body of chunk 2", fl(c2 + 16 + rng.randrange(CHUNK)), 1), ("tag of chunk 2", fl(c2 + 16 + CHUNK + rng.randrange(16)), 1),
                 ("body of chunk 3", fl(c3 + 16 + rng.randrange(last)), 2), ("tag of chunk 3", fl(c3 + 16 + last + rng.randrange(16)), 2),
                 ("last-chunk flag of chunk 2 set", fl(c2 + 11, 1), 1), ("last-chunk flag of chunk 3 cleared", fl(c3 + 11, 1), 2),
                 ("length field of chunk 3, one less", data[:c3 + 12] + (last - 1).to_bytes(4, "big") + data[c3 + 16:], 2),
                 ("length field of chunk 2, a little less", data[:c2 + 12] + (CHUNK - 1 - rng.randrange(1000)).to_bytes(4, "big") + data[c2 + 16:], 1),
                 ("length field of chunk 2 announces more than a chunk", fl(c2 + 12, 0x40), 1),
                 ("length field of chunk 3 is zero", data[:c3 + 12] + bytes(4) + data[c3 + 16:], 2),
                 ("cut inside chunk 3", data[:c3 + 16 + rng.randrange(last)], 2), ("cut inside the header of chunk 3", data[:c3 + rng.randrange(1, 16)], 2),
                 ("cut between chunk 2 and chunk 3", data[:c3], 2), ("cut inside chunk 2", data[:c2 + 16 + rng.randrange(CHUNK)], 1),
                 ("cut inside the tag of chunk 3", data[:len(data) - rng.randrange(1, 16)], 2),
                 ("one byte after the last chunk", data + bytes([rng.randrange(256)]), 2), ("the last record repeated", data + data[c3:], 2)]
        if not ctx.thorough():
            # quick: the authentication failures (body / tag; two of flag / plausible length) and a sample of the others
            kinds = kinds[:4] + rng.sample(kinds[4:8], 2) + rng.sample(kinds[8:], 3)
        for i, (what, blob, good) in enumerate(kinds):
            name = "%s_%02d" % (f, [k[0] for k in kinds].index(what))
            w.write(name, blob)
            out.append((cmd, name, pw, to, what, P[:good * CHUNK]))
    return out


class C13(ProcProp):
    id = "C13"
    rule = ("cases: the five writing commands (encrypt, decrypt, password encrypt, password decrypt, key generate -o) x every "
            "failure cause of the property that applies (bad arguments, same input and output, missing input, no / missing / "
            "malformed / non-UTF-8 keyring, unknown key name, missing private key, bad public-key checksum, wrong password, unset "
            "password variable, no terminal for the prompt, wrong / damaged / truncated header, damaged or truncated first chunk, "
            "data after the last chunk, input paths without a final component, refused key exchange with a low-order public key on either side, invalid key name) x output path {absent, present "
            "with sentinel content}; quick: base wiring + 1 random wiring, thorough: + 6 random wirings (stdin input, aliases, "
            "option spellings, keyring by environment); later-chunk failures (damaged / truncated second chunk): the path holds "
            "exactly the first 65536 plaintext bytes; round 6: every wired cause once more with the input on STDIN, prior states of the output path "
            "also {present and EMPTY, one byte, read-only with content, read-only and empty} (quick: one of them per cause and wiring, thorough: all), "
            "the same as whole-tree shapes (empty / one-byte / read-only file, in a sub-directory, absolute, behind a symbolic link); later-chunk "
            "failures of every kind on a three-chunk file per mode (c13_r5_later_files: bit flips in body / tag of chunk 2 and 3, last-chunk flag "
            "set / cleared, length field smaller / zero / too large, cut inside chunk 2 / chunk 3 / a record header / the last tag / between records, "
            "trailing byte / repeated last record; quick 9 of 17 per mode) by file argument and by stdin onto absent / empty / one-byte / longer "
            "files: exit status exactly 1 and exactly the authenticated prefix (65536 or 131072 bytes); whole-tree part: every cause again in a private working directory (= HOME) whose "
            "COMPLETE tree (files with content hashes, directories, symbolic links, FIFOs) is snapshotted before and after, for 21 shapes of "
            "the output location {parent directories that do not exist: 1 level, 3 levels, absolute, via '..' / '.', below an existing "
            "directory; plain / sub-directory / absolute, absent and present; symbolic link to a file, dangling, chained, into a missing "
            "directory, as the parent; a directory, a FIFO, a file as the parent, a directory with trailing slash} (quick: 5 shapes per "
            "cause, thorough: all), later-chunk failures through links and sub-directories; 8 (quick) missing-parent runs against the CLI "
            "model; tree cases against the CLI model's tree world (exit class, stdout, the WHOLE resulting tree; quick 72, thorough 219): "
            "every command x -o paths that cannot be created (alone, over a sentinel, together with an unset password / a missing input), "
            "directories as input x {-o absent, sentinel, stdout, uncreatable, unset password} with the header the encryptors leave behind "
            "compared byte for byte, one file under two names for all four commands (dotted / absolute spellings, trailing data, wrong "
            "password, the keyring as -o, key generate, a two-chunk file written by an independent ChaCha20-Poly1305), the same dotted string twice for "
            "every command; same-file part: `cmd F -o F` for the four file commands with a VALID input, the identical string given twice in 33 "
            "guises (plain, './', 'sub/../', absolute, '//', non-ASCII, a hard link, a symbolic link to the file / chained / absolute / pointing up, a "
            "symbolically linked directory relative / absolute / behind '..', from three other working directories, absent, dangling, a directory): "
            "exit 1 and the run's whole tree unchanged; two different spellings of the one file (12 pairs; quick 3 per command) are the recorded "
            "alias observation: counted, judged only when the program itself refuses them; "
            "EVERY process run of "
            "the causes matrix and of the whole-tree part is recorded and compared in one batch with the CLI model (Run/RunCli.v::run_cli_tree_x: "
            "exit code, message class, stdout, the resulting tree byte for byte - for the whole-tree part the COMPLETE tree of the private "
            "directory): quick 689 of 1 063 runs (seed 1), thorough every run the model can express; NOT compared, counted by reason "
            "(model-skipped:*): later-chunk failures and other inputs over 6 KiB (167), worlds over 16 KiB (header damage on the 66 KB file: 45), "
            "output locations that are or pass through a symbolic link (132) or a FIFO (30); non-trivial = every run")
    assumptions = ["all causes x wirings are judged by direct oracles AND, run by run, by the CLI model for the runs the model can express within "
                   "6 KiB of input (evidence: model-compared:causes, model-compared:whole-tree, model-skipped:*); in addition one run per "
                   "failure-cause class x {absent, sentinel} is compared with the "
                   "CLI model (exit code, message class, stdout, content of the output path)",
                   "later-chunk failures (files over 64 KiB) are not evaluated in the model: too large for vm_compute; a later-chunk failure "
                   "on a two-chunk file with SMALL chunks (written by an independent encoder) is, in the one-file-two-names cases",
                   "'the input is a directory' and 'input and output are one file under two strings' are not in the property's list of causes: "
                   "their runs are compared with the model (which states exactly what is left behind) and counted (tree:directory-input-left-a-header, "
                   "tree:alias-exit-0-input-replaced), not judged as violations"]

    def causes(self, w):
        """(command, cause, builder(out, cfg) -> (argv, env, stdin))"""
        A, Bp = w.pw["alice"], w.pw["bob"]
        out = []

        def enc(cause, infile="pt_small", to="bob", frm="alice", kr="kr_c13", pw=A, mod=None, nopw=False, noenvpass=False, wired=True):
            def b(o, cfg):
                argv, env, stdin = wire("encrypt", cfg, infile, o, to=to, frm=frm, keyring=kr, pw=None if nopw else pw)
                return fix(argv, env, stdin, mod, noenvpass, o)
            out.append(("encrypt", cause, b, wired))

        def dec(cause, infile="ct_small", to="bob", kr="kr_c13", pw=Bp, mod=None, nopw=False, noenvpass=False, wired=True):
            def b(o, cfg):
                argv, env, stdin = wire("decrypt", cfg, infile, o, to=to, keyring=kr, pw=None if nopw else pw)
                return fix(argv, env, stdin, mod, noenvpass, o)
            out.append(("decrypt", cause, b, wired))

        def penc(cause, infile="pt_small", pw=w.passpw, mod=None, nopw=False, noenvpass=False, wired=True):
            def b(o, cfg):
                argv, env, stdin = wire("pass-encrypt", cfg, infile, o, pw=None if nopw else pw)
                return fix(argv, env, stdin, mod, noenvpass, o)
            out.append(("password encrypt", cause, b, wired))

        def pdec(cause, infile="pct_small", pw=w.passpw, mod=None, nopw=False, noenvpass=False, wired=True):
            def b(o, cfg):
                argv, env, stdin = wire("pass-decrypt", cfg, infile, o, pw=None if nopw else pw)
                return fix(argv, env, stdin, mod, noenvpass, o)
            out.append(("password decrypt", cause, b, wired))

        def gen(cause, name=b"newkey\n", pw=b"pw", mod=None, nopw=False, noenvpass=False):
            def b(o, cfg):
                argv = ["key", "gen" if cfg["alias"] else "generate"] + opt(cfg["spell"], "output", o) + ["--env-pass"]
                return fix(argv, {} if nopw else env_pw(pw), name, mod, noenvpass, o)
            out.append(("key generate", cause, b, True))

        def fix(argv, env, stdin, mod, noenvpass, o):
            if noenvpass:
                argv = [a for a in argv if a != "--env-pass"]
            if mod:
                argv, env, stdin = mod(argv, env, stdin, o)
            return argv, env, stdin
        add = lambda *extra: (lambda argv, env, stdin, o: (argv + list(extra), env, stdin))

        def drop(name):
            def m(argv, env, stdin, o):
                res, skip = [], False
                for a in argv:
                    if skip:
                        skip = False
                        continue
                    if a in ("-" + name[0], "--" + name, "-" + name):
                        skip = True
                        continue
                    if a.startswith("--" + name + "="):
                        continue
                    res.append(a)
                return res, env, stdin
            return m

        def inout_same(argv, env, stdin, o):
            return [o if a in ("pt_small", "ct_small", "pct_small") else a for a in argv], env, stdin
        nokr = lambda argv, env, stdin, o: (drop("keyring")(argv, env, stdin, o)[0], {k: v for k, v in env.items() if k != "KESTREL_KEYRING"}, stdin)
        # ---------------- encrypt
        enc("bad-arguments:missing --to", mod=drop("to"))
        enc("bad-arguments:missing --from", mod=drop("from"))
        enc("bad-arguments:unknown option", mod=add("--bogus"))
        enc("bad-arguments:two input files", mod=add("pt_big"), wired=False)
        enc("bad-arguments:input = output", mod=inout_same, wired=False)
        enc("missing-input", infile="no_such_file", wired=False)
        # a missing input whose path has no final component (Path::file_name() is None): still an error value
        enc("missing-input:empty path", infile="", wired=False)
        enc("missing-input:path ending in ..", infile="nodir/..", wired=False)
        enc("missing-input:absolute path ending in ..", infile="/nodir_kv/sub/..", wired=False)
        enc("missing-input:root of nothing", infile="nodir/.", wired=False)
        enc("keyring:not given", mod=nokr)
        enc("keyring:missing file", kr="no_such_keyring")
        enc("keyring:malformed", kr="kr_junk")
        enc("keyring:duplicate name", kr="kr_dup")
        enc("keyring:not UTF-8", kr="kr_latin1")
        enc("unknown-key-name:recipient", to="nobody")
        enc("unknown-key-name:sender", frm="nobody")
        enc("missing-private-key:sender", frm="dave")
        enc("bad-public-key-checksum:recipient", to="badck")
        enc("wrong-password", pw=b"not the password")
        enc("unset-password-variable", nopw=True)
        enc("no-terminal-for-prompt", nopw=True, noenvpass=True)
        enc("refused-key-exchange:low-order recipient key", to="zero")
        enc("refused-key-exchange:low-order recipient key (order 8)", to="low8")
        # ---------------- decrypt
        dec("bad-arguments:missing --to", mod=drop("to"))
        dec("bad-arguments:--from given", mod=add("--from", "alice"))
        dec("bad-arguments:unknown option", mod=add("-x"))
        dec("bad-arguments:two input files", mod=add("ct_big"), wired=False)
        dec("bad-arguments:input = output", mod=inout_same, wired=False)
        dec("missing-input", infile="no_such_file", wired=False)
        # a missing input whose path has no final component (Path::file_name() is None): still an error value
        dec("missing-input:empty path", infile="", wired=False)
        dec("missing-input:path ending in ..", infile="nodir/..", wired=False)
        dec("missing-input:absolute path ending in ..", infile="/nodir_kv/sub/..", wired=False)
        dec("missing-input:root of nothing", infile="nodir/.", wired=False)
        dec("keyring:not given", mod=nokr)
        dec("keyring:missing file", kr="no_such_keyring")
        dec("keyring:malformed", kr="kr_junk")
        dec("keyring:not UTF-8", kr="kr_latin1")
        dec("unknown-key-name", to="nobody")
        dec("missing-private-key", to="dave")
        dec("wrong-password", pw=b"not the password")
        dec("unset-password-variable", nopw=True)
        dec("no-terminal-for-prompt", nopw=True, noenvpass=True)
        dec("wrong-header:password file", infile="pct_small")
        dec("wrong-header:junk", infile="junk_file")
        dec("wrong-header:empty file", infile="empty_file")
        dec("wrong-header:magic altered", infile="ct_magic")
        dec("wrong-header:plaintext given", infile="pt_small")
        dec("corrupted-header:ephemeral key", infile="ct_h_eph")
        dec("corrupted-header:encrypted sender key", infile="ct_h_static")
        dec("corrupted-header:encrypted payload key", infile="ct_h_payload")
        dec("truncated-header:100 bytes", infile="ct_t100")
        dec("truncated-header:no chunk follows", infile="ct_t132")
        dec("corrupted-first-chunk:ciphertext", infile="ct_bad1")
        dec("corrupted-first-chunk:tag", infile="ct_c1tag")
        dec("corrupted-first-chunk:length field", infile="ct_c1len")
        dec("truncated-first-chunk", infile="ct_t1")
        dec("truncated-first-chunk:header only", infile="ct_t1h")
        dec("wrong-recipient", to="carol", pw=w.pw["carol"])
        dec("refused-key-exchange:low-order ephemeral key", infile="ct_eph0")
        # an authentic one-chunk file followed by extra data: the last chunk is not released, the command fails
        dec("trailing-data:one byte", infile="ct_small_x1")
        dec("trailing-data:copy of the last record", infile="ct_small_xr")
        # ---------------- password encrypt
        penc("bad-arguments:unknown option", mod=add("--bogus"))
        penc("bad-arguments:two input files", mod=add("pt_big"), wired=False)
        penc("bad-arguments:input = output", mod=inout_same, wired=False)
        penc("bad-arguments:--to given", mod=add("-t", "bob"))
        penc("missing-input", infile="no_such_file", wired=False)
        # a missing input whose path has no final component (Path::file_name() is None): still an error value
        penc("missing-input:empty path", infile="", wired=False)
        penc("missing-input:path ending in ..", infile="nodir/..", wired=False)
        penc("missing-input:absolute path ending in ..", infile="/nodir_kv/sub/..", wired=False)
        penc("missing-input:root of nothing", infile="nodir/.", wired=False)
        penc("unset-password-variable", nopw=True)
        penc("no-terminal-for-prompt", nopw=True, noenvpass=True)
        # ---------------- password decrypt
        pdec("bad-arguments:unknown option", mod=add("--bogus"))
        pdec("bad-arguments:two input files", mod=add("pct_big"), wired=False)
        pdec("bad-arguments:input = output", mod=inout_same, wired=False)
        pdec("missing-input", infile="no_such_file", wired=False)
        # a missing input whose path has no final component (Path::file_name() is None): still an error value
        pdec("missing-input:empty path", infile="", wired=False)
        pdec("missing-input:path ending in ..", infile="nodir/..", wired=False)
        pdec("missing-input:absolute path ending in ..", infile="/nodir_kv/sub/..", wired=False)
        pdec("missing-input:root of nothing", infile="nodir/.", wired=False)
        pdec("unset-password-variable", nopw=True)
        pdec("no-terminal-for-prompt", nopw=True, noenvpass=True)
        pdec("wrong-password", pw=b"not the password")
        pdec("wrong-header:key file", infile="ct_small")
        pdec("wrong-header:junk", infile="junk_file")
        pdec("wrong-header:empty file", infile="empty_file")
        pdec("wrong-header:magic altered", infile="pct_magic")
        pdec("corrupted-header:salt", infile="pct_salt")
        pdec("truncated-header", infile="pct_t20")
        pdec("truncated-header:no chunk follows", infile="pct_t36")
        pdec("corrupted-first-chunk:ciphertext", infile="pct_bad1")
        pdec("corrupted-first-chunk:tag", infile="pct_c1tag")
        pdec("truncated-first-chunk", infile="pct_t1")
        pdec("trailing-data:one byte", infile="pct_small_x1")
        pdec("trailing-data:copy of the last record", infile="pct_small_xr")
        # ---------------- key generate
        gen("bad-arguments:unknown option", mod=add("--bogus"))
        gen("bad-arguments:unknown subcommand", mod=lambda argv, env, stdin, o: (["key", "make"] + argv[2:], env, stdin))
        gen("invalid-name:empty", name=b"\n")
        gen("invalid-name:only white space", name=b"  \t \n")
        gen("invalid-name:end of input", name=b"")
        gen("invalid-name:129 bytes", name=b"n" * 129 + b"\n")
        gen("invalid-name:65 two-byte characters", name="\u00e9".encode("utf-8") * 65 + b"\n")
        gen("invalid-name:TAB inside", name=b"a\tb\n")
        gen("unset-password-variable", nopw=True)
        gen("no-terminal-for-prompt", nopw=True, noenvpass=True)
        return out

    def make_files(self, w, ctx):
        zero, low8 = cli_ops(["pk_encode " + "00" * 32, "pk_encode e0eb7a7c3b41b8ae1656e3faf19fc46ada098deb9c32b1fd866205165f49b800"])
        B = w.blocks
        bad = bytearray(w.pub["carol"])
        bad[-1] = ord("A") if bad[-1] != ord("A") else ord("B")
        w.write("kr_c13", B["alice"] + b"\n" + B["bob"] + b"\n" + B["carol"] + b"\n" + key_block(b"dave", w.pub["carol"][:0] + self.dave_pub)
                + b"\n" + key_block(b"zero", unhex(zero["out"])) + b"\n" + key_block(b"low8", unhex(low8["out"])) + b"\n" + key_block(b"badck", bytes(bad)))
        w.write("kr_junk", b"this is not a keyring\n")
        w.write("kr_dup", B["alice"] + b"\n" + B["bob"] + b"\n" + B["alice"])
        w.write("kr_latin1", B["alice"] + b"\n" + B["bob"] + b"\n# caf\xe9\n")
        w.write("junk_file", ctx.rbytes(5000))
        w.write("empty_file", b"")
        ct, pct = w.read("ct_big"), w.read("pct_big")
        fl = lambda b, off: b[:off] + bytes([b[off] ^ 0x01]) + b[off + 1:]
        w.write("ct_magic", fl(ct, 3))
        w.write("ct_h_eph", fl(ct, 10))
        w.write("ct_h_static", fl(ct, 50))
        w.write("ct_h_payload", fl(ct, 100))
        w.write("ct_t100", ct[:100])
        w.write("ct_t132", ct[:HDR])
        w.write("ct_c1tag", fl(ct, HDR + 16 + CHUNK + 3))
        w.write("ct_c1len", fl(ct, HDR + 13))
        w.write("ct_t1", ct[:HDR + 16 + 3000])
        w.write("ct_t1h", ct[:HDR + 9])
        w.write("ct_eph0", ct[:4] + bytes(32) + ct[36:])
        w.write("pct_magic", fl(pct, 3))
        w.write("pct_salt", fl(pct, 20))
        w.write("pct_t20", pct[:20])
        w.write("pct_t36", pct[:PHDR])
        w.write("pct_c1tag", fl(pct, PHDR + 16 + CHUNK + 3))
        w.write("pct_t1", pct[:PHDR + 16 + 3000])

    def explore(self, ctx):
        rng = ctx.rng
        w = FileWorld()
        w.mx_log = []          # every process run below is recorded and compared with the CLI model in one batch (mx_compare)
        try:
            w.setup(ctx)
            self.dave_pub = make_keys(ctx, 1)[0][2]
            self.make_files(w, ctx)
            wir = all_wirings(True)
            jobs = []
            for (cmd, cause, build, wired) in self.causes(w):
                cfgs = [BASE_WIRING] + (rng.sample(wir, 6 if ctx.thorough() else 1) if wired else [dict(BASE_WIRING, spell="long", alias=True)])
                if wired and cmd != "key generate":
                    # every cause with the input on STDIN as well (the random wirings above have it half of the time only)
                    cfgs.append(dict(rng.choice(wir), inp="stdin", r5_stdin=True))
                for cfg in cfgs:
                    if cfg["out"] != "o":
                        cfg = dict(cfg, out="o")          # the property is about the -o path
                    if not wired:
                        cfg = dict(cfg, inp="arg")
                    pres = ["absent", "sentinel"]
                    if cfg.get("r5_stdin"):
                        pres = ["absent", rng.choice(C13_R5_SMALL_STATES)]
                    elif ctx.thorough():
                        pres += C13_R5_SMALL_STATES
                    else:
                        # other prior states of the output path: an EMPTY file, one byte, a read-only file (quick: one of them)
                        pres.append(rng.choice(["empty"] + C13_R5_SMALL_STATES))
                    for pre in pres:
                        jobs.append({"cmd": cmd, "cause": cause, "build": build, "cfg": cfg, "pre": pre, "later": None})
            # later-chunk failures: the authenticated prefix stays
            for cmd, f, pw, to in (("decrypt", "ct_bad2", w.pw["bob"], "bob"), ("decrypt", "ct_trunc2", w.pw["bob"], "bob"),
                                   ("pass-decrypt", "pct_bad2", w.passpw, None), ("pass-decrypt", "pct_trunc2", w.passpw, None),
                                   # a two-chunk file followed by extra data: the first chunk was released, the last one is not
                                   ("decrypt", "ct_big_x1", w.pw["bob"], "bob"), ("decrypt", "ct_big_xr", w.pw["bob"], "bob"),
                                   ("pass-decrypt", "pct_big_x1", w.passpw, None), ("pass-decrypt", "pct_big_xr", w.passpw, None)):
                for cfg in [BASE_WIRING] + rng.sample(wir, 6 if ctx.thorough() else 2):
                    cfg = dict(cfg, out="o")
                    for pre in ("absent", "sentinel", "long-sentinel"):
                        def build(o, cfg, cmd=cmd, f=f, pw=pw, to=to):
                            return wire(cmd, cfg, f, o, to=to, keyring="kr_full" if to else None, pw=pw)
                        jobs.append({"cmd": cmd.replace("pass-", "password "), "cause": "later-chunk:" + f, "build": build, "cfg": cfg, "pre": pre,
                                     "later": w.P["big"][:CHUNK]})
            # later-chunk failures of every KIND, in the second and in the third chunk of a three-chunk file (c13_r5_later_files)
            for (cmd, f, pw, to, what, prefix) in c13_r5_later_files(w, ctx):
                cfgs = [BASE_WIRING, dict(rng.choice(wir), inp="stdin")] + (rng.sample(wir, 3) if ctx.thorough() else [])
                for cfg in cfgs:
                    cfg = dict(cfg, out="o")
                    for pre in (["absent", "sentinel", "long-sentinel", "empty", "one-byte"] if ctx.thorough() else
                                [rng.choice(["absent", "empty"]), rng.choice(["sentinel", "long-sentinel", "one-byte"])]):
                        def build(o, cfg, cmd=cmd, f=f, pw=pw, to=to):
                            return wire(cmd, cfg, f, o, to=to, keyring="kr_full" if to else None, pw=pw)
                        jobs.append({"cmd": cmd.replace("pass-", "password "), "cause": "later-chunk:%s (%s)" % (f, what), "build": build, "cfg": cfg,
                                     "pre": pre, "later": prefix})
            for i, j in enumerate(jobs):
                j["i"] = i
            res = self.pmap(lambda j: self.one(w, j), jobs)
            for j, (run, before, after) in zip(jobs, res):
                self.count(ctx, "cause:%s:%s" % (j["cmd"], j["cause"].split(":")[0]))
                self.count(ctx, "pre-state:" + j["pre"])
                sc = "C13 %s, cause %s, output path %s, wiring %s" % (j["cmd"], j["cause"], j["pre"], wname(j["cfg"]))
                me = self.model_expect(w, run.argv, run.env, run.stdin)
                if me is not None:
                    self.judge(ctx, me[0] == run.rc, sc, [run], "CLI model: exit %r" % (me[0],), "exit %d" % run.rc)
                self.judge(ctx, run.rc == 1 and "Error: " in run.errtext(), sc, [run], "the command fails: exit 1 with an Error: message",
                           "exit %d, stderr %r" % (run.rc, run.errtext()[-200:]))
                if j["later"] is not None and len(j["later"]) != CHUNK:
                    self.judge(ctx, after == j["later"], sc, [run], "the output path holds exactly the authenticated prefix (first %d plaintext bytes)" % len(j["later"]),
                               "absent" if after is None else "%d bytes, first difference at %s" % (len(after), first_diff(after, j["later"])))
                elif j["later"] is None:
                    self.judge(ctx, after == before, sc, [run],
                               "the output path is untouched (%s)" % ("still absent" if before is None else "the same %d bytes" % len(before)),
                               "absent" if after is None else "%d bytes: %r..." % (len(after), after[:60]))
                else:
                    self.judge(ctx, after == j["later"], sc, [run], "the output path holds exactly the authenticated prefix (first 65536 plaintext bytes)",
                               "absent" if after is None else "%d bytes, first difference at %s" % (len(after), first_diff(after, j["later"])))
                if j["i"] % 40 == 0:
                    self.sample(ctx, {"scenario": sc, "exit": run.rc, "stderr": run.errtext()[-160:]})
                if os.environ.get("VERIF_DUMP"):
                    with open(os.environ["VERIF_DUMP"], "a") as f:
                        f.write("%s | exit %d | %r | %s\n" % (sc, run.rc, run.errtext()[-150:], " ".join(run.argv)[:200]))
            t_tr = time.time()
            self.tree_part(ctx, w)
            ctx.distribution["seconds:whole-tree-part"] = round(time.time() - t_tr, 1)
            t_sf = time.time()
            self.same_file_part(ctx, w)
            ctx.distribution["seconds:same-file-part"] = round(time.time() - t_sf, 1)
            ctx.evaluations += w.nruns
            self.count(ctx, "proc:runs", w.nruns)
        finally:
            w.close()
        ctx.search_note = "direct oracle over %d process runs" % ctx.evaluations
        # the recorded runs of both parts above against the CLI model
        mx_compare(ctx, w, mx_matrix({"run": "causes", "kvc": "whole-tree", "setup": "gen"}))
        # one run per failure-cause class x {absent, sentinel} against the CLI model
        model_cli_part(ctx, lambda ctx, mw, root: c13_model_cases(ctx, mw) + kvw_model_cases(ctx, mw, root, "c13"))

    def one(self, w, j):
        o = "o_%d" % j["i"]
        before = None
        if j["pre"] == "sentinel":
            before = SENTINEL
        elif j["pre"] == "long-sentinel":
            before = SENTINEL * 2000
        elif j["pre"] in ("empty", "read-only-empty"):
            before = b""
        elif j["pre"] == "one-byte":
            before = b"\n"
        elif j["pre"] == "read-only-sentinel":
            before = SENTINEL
        if before is not None:
            w.write(o, before)
            if j["pre"].startswith("read-only"):
                os.chmod(w.p(o), 0o444)
        argv, env, stdin = j["build"](o, j["cfg"])
        if isinstance(stdin, tuple) and not os.path.exists(w.p(stdin[1])):
            stdin = None
        run = w.run(argv, env=env, stdin=stdin)
        after = w.read(o)
        try:
            os.remove(w.p(o))
        except OSError:
            pass
        return run, before, after

    # ---- whole-tree part: every failing run in a PRIVATE working directory (= HOME) that is snapshotted completely
    def tree_part(self, ctx, w):
        """'no new file is created, a file already present is left intact' judged on the WHOLE directory tree of the run (files,
        directories, symlinks, sizes, content hashes), for output locations of every shape: parent directories that do not
        exist (one level, several, absolute, through '..'), sub-directories, symbolic links (to a file, dangling, chained, as the
        parent), a directory / FIFO / file-as-parent at the path.  Later-chunk failures: the bytes reachable through the -o
        path are exactly the authenticated prefix, also through links."""
        rng = ctx.rng
        wir = [c for c in all_wirings(True) if c["out"] == "o"]
        fams = C13_SHAPES
        jobs = []
        for (cmd, cause, build, wired) in self.causes(w):
            if ctx.thorough():
                shapes = [s for f in fams.values() for s in f]
            else:
                shapes = (rng.sample(fams["missing-parent"], 2) + rng.sample(fams["indirect"] + fams["special"], 2) + [rng.choice(fams["plain"])]
                          + [rng.choice(fams["small-present"])])
            for sh in shapes:
                cfg = rng.choice(wir) if wired and rng.random() < 0.5 else BASE_WIRING
                if wired and cmd != "key generate" and sh in fams["small-present"] + fams["plain"] and rng.random() < 0.5:
                    cfg = dict(rng.choice(wir), inp="stdin")          # the input on stdin at least as often as by name
                if not wired:
                    cfg = dict(cfg, inp="arg")
                jobs.append({"cmd": cmd, "cause": cause, "build": build, "cfg": cfg, "shape": sh, "later": None})
        landing = ["absent", "sentinel", "subdir-absent", "subdir-sentinel", "absolute-sentinel", "symlink-to-file", "dangling-symlink",
                   "symlink-to-symlink-to-file", "parent-is-symlink-to-dir"]
        for cmd, f, pw, to in (("decrypt", "ct_bad2", w.pw["bob"], "bob"), ("decrypt", "ct_trunc2", w.pw["bob"], "bob"),
                               ("pass-decrypt", "pct_bad2", w.passpw, None), ("pass-decrypt", "pct_trunc2", w.passpw, None),
                               ("decrypt", "ct_big_x1", w.pw["bob"], "bob"), ("pass-decrypt", "pct_big_xr", w.passpw, None)):
            for sh in (landing if ctx.thorough() else rng.sample(landing, 3)):
                def build(o, cfg, cmd=cmd, f=f, pw=pw, to=to):
                    return wire(cmd, cfg, f, o, to=to, keyring="kr_full" if to else None, pw=pw)
                jobs.append({"cmd": cmd.replace("pass-", "password "), "cause": "later-chunk:" + f, "build": build,
                             "cfg": rng.choice(wir) if rng.random() < 0.5 else BASE_WIRING, "shape": sh, "later": w.P["big"][:CHUNK]})
        for i, j in enumerate(jobs):
            j["i"] = i
        res = self.pmap(lambda j: self.tree_one(w, j), jobs)
        for j, (run, before, after, oarg, land, through) in zip(jobs, res):
            self.count(ctx, "tree-shape:" + j["shape"])
            self.count(ctx, "tree-cause:%s:%s" % (j["cmd"], j["cause"].split(":")[0]))
            sc = "C13 whole tree: %s, cause %s, output location '%s' (-o %s), wiring %s" % (j["cmd"], j["cause"], j["shape"], oarg, wname(j["cfg"]))
            self.judge(ctx, run.rc == 1 and "Error: " in run.errtext(), sc, [run], "the command fails: exit 1 with an Error: message",
                       "exit %d, stderr %r" % (run.rc, run.errtext()[-200:]))
            if j["later"] is None:
                diff = kvc_tree_diff(before, after)
                self.judge(ctx, not diff, sc, [run],
                           "nothing is created and nothing present is altered: the run's whole directory tree (%d entries: files with "
                           "their bytes, directories, links) is the same after the failed command" % len(before),
                           "; ".join(diff[:8]))
            else:
                want = ("file", len(j["later"]), hashlib.sha256(j["later"]).hexdigest())
                self.judge(ctx, through == j["later"] and after.get(land) == want, sc, [run],
                           "the output path holds exactly the authenticated prefix (first 65536 plaintext bytes), in the file the path leads to (%s)" % land,
                           "through the path: %s; tree changes: %s" % ("unreadable" if through is None else "%d bytes, first difference at %s"
                                                                       % (len(through), first_diff(through, j["later"])),
                                                                       "; ".join(kvc_tree_diff(before, after)[:6])))
                if j["shape"].startswith(("symlink", "dangling")):
                    self.judge(ctx, after.get("out") == before.get("out"), sc, [run], "the link named by -o is still the same link",
                               "%r -> %r" % (before.get("out"), after.get("out")))
            if j["i"] % 60 == 0:
                self.sample(ctx, {"scenario": sc, "exit": run.rc, "tree_entries": len(before), "stderr": run.errtext()[-120:]})

    def tree_one(self, w, j):
        d = w.p("tw_%d" % j["i"])
        os.mkdir(d)
        try:
            oarg, land = c13_prepare_shape(j["shape"], d)
            argv, env, stdin = j["build"](oarg, j["cfg"])
            if isinstance(stdin, tuple) and not os.path.exists(w.p(stdin[1])):
                stdin = None
            kvc_link_inputs(w, d, argv, env)
            before = kvc_tree_snapshot(d)
            run, _ = kvc_run(w, argv, env=env, stdin=stdin, cwd=d, timeout=90)
            after = kvc_tree_snapshot(d)
            through = None
            if j["later"] is not None:
                try:
                    with open(os.path.join(d, oarg), "rb") as f:
                        through = f.read()
                except OSError:
                    through = None
            return run, before, after, (oarg if not os.path.isabs(oarg) else "<run dir>" + oarg[len(d):]), land, through
        finally:
            shutil.rmtree(d, ignore_errors=True)

    # ---- "bad arguments: input and output are the same": one file named by the input argument and by -o
    def same_file_part(self, ctx, w):
        """The classic slip `kestrel encrypt F -o F` for the four file commands, with a VALID input (so that nothing but the refusal
        stands between the command and the only copy of the data).  The same STRING twice - plain, dotted, absolute, through a hard
        link, a symbolic link to the file, a chain, a symbolically linked directory, '..' behind a link, from other working
        directories, absent / dangling / a directory: exit 1 and the whole tree of the run's directory as before.  Two different
        spellings of one file are the recorded alias observation (DESIGN 7.3): counted; judged only when the program itself says
        that input and output are the same (then it must have left everything alone)."""
        rng = ctx.rng
        full = ctx.thorough()
        wir = [c for c in all_wirings(True) if c["out"] == "o" and c["inp"] == "arg"]
        A, Bp = w.pw["alice"], w.pw["bob"]
        cmds = [("encrypt", "encrypt", "pt_small", dict(to="bob", frm="alice", keyring=True, pw=A)),
                ("decrypt", "decrypt", "ct_small", dict(to="bob", keyring=True, pw=Bp)),
                ("password encrypt", "pass-encrypt", "pt_small", dict(pw=w.passpw)),
                ("password decrypt", "pass-decrypt", "pct_small", dict(pw=w.passpw))]
        if full:
            cmds += [("encrypt", "encrypt", "pt_big", dict(to="bob", frm="alice", keyring=True, pw=A)),
                     ("decrypt", "decrypt", "ct_big", dict(to="bob", keyring=True, pw=Bp)),
                     ("password decrypt", "pass-decrypt", "pct_big", dict(pw=w.passpw))]
        jobs = []
        for cmd, wcmd, src, kw in cmds:
            data = w.read(src)
            one_chunk = not src.endswith("_big")
            strings = [(lab, None, s) for lab, s in C13_SAME_STRINGS] + [(lab, cwd, s) for lab, cwd, s in C13_SAME_STRINGS_CWD]
            if not one_chunk:
                strings = rng.sample(strings, 8)
            for lab, cwd, s in strings:
                for cfg in [BASE_WIRING] + (rng.sample(wir, 2) if full else ([rng.choice(wir)] if rng.random() < 0.25 else [])):
                    jobs.append({"cmd": cmd, "wcmd": wcmd, "src": src, "data": data, "kw": kw, "kind": "identical", "label": lab, "cwd": cwd,
                                 "inp": s, "out": s, "cfg": cfg, "one_chunk": one_chunk})
            for a, b in (C13_SAME_PAIRS if full else rng.sample(C13_SAME_PAIRS, 3)):
                jobs.append({"cmd": cmd, "wcmd": wcmd, "src": src, "data": data, "kw": kw, "kind": "two-spellings", "label": "%s / %s" % (a, b),
                             "cwd": None, "inp": a, "out": b, "cfg": rng.choice(wir) if rng.random() < 0.5 else BASE_WIRING, "one_chunk": one_chunk})
        for i, j in enumerate(jobs):
            j["i"] = i
        res = self.pmap(lambda j: self.same_one(w, j), jobs)
        for j, (run, before, after, shown) in zip(jobs, res):
            diff = kvc_tree_diff(before, after)
            if j["kind"] == "identical":
                self.count(ctx, "same-file:identical-string:" + j["label"])
                self.count(ctx, "same-file-cause:%s" % j["cmd"])
                sc = ("C13 same file: %s, cause bad-arguments:input = output, the string %r given as input AND as -o (%s%s; input file: valid %s), wiring %s"
                      % (j["cmd"], shown, j["label"], ", working directory %s/" % j["cwd"] if j["cwd"] else "", j["src"], wname(j["cfg"])))
                self.judge(ctx, run.rc == 1 and "Error: " in run.errtext(), sc, [run], "the command fails: exit 1 with an Error: message",
                           "exit %d, stderr %r" % (run.rc, run.errtext()[-200:]))
                self.judge(ctx, not diff, sc, [run],
                           "the file is left byte-for-byte intact and nothing is created: the run's whole directory tree (%d entries: files with their "
                           "bytes, directories, links) is the same after the refused command" % len(before), "; ".join(diff[:8]))
                if j["i"] % 50 == 0:
                    self.sample(ctx, {"scenario": sc, "exit": run.rc, "stderr": run.errtext()[-120:]})
            else:
                sc = ("C13 same file under two spellings: %s %r -o %r (input file: valid %s), wiring %s" % (j["cmd"], j["inp"], j["out"], j["src"], wname(j["cfg"])))
                self.judge(ctx, run.rc in (0, 1), sc, [run], "the command ends with exit 0 or 1", "exit %d, stderr %r" % (run.rc, run.errtext()[-200:]))
                refused = "must be different" in run.errtext()
                if refused:
                    self.judge(ctx, run.rc == 1 and not diff, sc, [run], "a command that refuses its arguments (input and output are the same) exits 1 and "
                               "leaves the whole tree as it was", "exit %d; %s" % (run.rc, "; ".join(diff[:8])))
                self.count(ctx, "same-file:two-spellings:%s" % ("refused" if refused else "exit-%d-%s" % (run.rc, "input-replaced" if diff else "tree-unchanged")))

    def same_one(self, w, j):
        d = w.p("sf_%d" % j["i"])
        os.mkdir(d)
        try:
            c13_same_layout(d, j["data"])
            kw = dict(j["kw"])
            if kw.pop("keyring", None):
                try:
                    os.link(w.p("kr_full"), os.path.join(d, "kr_full"))
                except OSError:
                    shutil.copyfile(w.p("kr_full"), os.path.join(d, "kr_full"))
                kw["keyring"] = os.path.join(d, "kr_full") if j["cwd"] else "kr_full"
            argv, env, stdin = wire(j["wcmd"], j["cfg"], j["inp"].replace("@D", d), j["out"].replace("@D", d), **kw)
            before = kvc_tree_snapshot(d)
            run, _ = kvc_run(w, argv, env=env, stdin=stdin, cwd=os.path.join(d, j["cwd"]) if j["cwd"] else d, timeout=90)
            after = kvc_tree_snapshot(d)
            return run, before, after, j["inp"].replace("@D", "<run dir>")
        finally:
            shutil.rmtree(d, ignore_errors=True)


props.REGISTRY[C13.id] = C13()


# =========================================================================== argument parsing vs Model/CliParse.v
# (the argv half of C09 "never a panic" and the spelling independence of C12)
PARSE_VOCAB = ["encrypt", "enc", "decrypt", "dec", "key", "gen", "generate", "change-pass", "extract-pub", "password", "pass",
               "-t", "--to", "-t=x", "--to=x", "-to", "-o", "--output", "-k", "--keyring=k", "-f", "--from", "--env-pass", "-env-pass",
               "-h", "--help", "-v", "--version", "x", "file", "--", "-", "", "-tx", "--tox"]
TOP_COMMANDS = ["encrypt", "enc", "decrypt", "dec", "key", "password", "pass"]


def hx_args(args):
    return [a.encode("utf-8").hex() if isinstance(a, str) else a.hex() for a in args]


def parse_prelude():
    return "".join("Definition av%d : list N := %s.\n" % (i, g_text(t.encode("utf-8"))) for i, t in enumerate(["kestrel"] + PARSE_VOCAB))


def spell_variants(rng, inv):
    """inv = (cmd words, [(option name, value|None)], [free arguments]); all renderings must parse to the same options"""
    words, opts, free = inv
    ALIAS = {"encrypt": "enc", "decrypt": "dec", "password": "pass", "generate": "gen"}
    LONG = {"t": "to", "f": "from", "o": "output", "k": "keyring"}
    out = []
    for spell in ("short", "long", "eq", "dash1", "dash1eq", "mixed"):
        for alias in (False, True):
            w = [ALIAS.get(x, x) if alias else x for x in words]
            o = []
            for name, val in opts:
                if val is None:
                    o.append([("--" if spell != "dash1" or rng.random() < 0.5 else "-") + name])
                    continue
                sp = rng.choice(["short", "long", "eq", "dash1", "dash1eq"]) if spell == "mixed" else spell
                o.append({"short": ["-" + name, val], "long": ["--" + LONG[name], val], "eq": ["--" + LONG[name] + "=" + val],
                          "dash1": ["-" + LONG[name], val], "dash1eq": ["-" + LONG[name] + "=" + val]}[sp])
            rng.shuffle(o)
            flat = [x for g in o for x in g]
            # free arguments may sit before, between or after the options (FloatingFrees)
            pos = rng.randint(0, len(o))
            flat = [x for g in o[:pos] for x in g] + list(free) + [x for g in o[pos:] for x in g]
            out.append(["kestrel"] + w + flat)
    return out


def near_miss_argvs():
    """near misses of every command word (every proper prefix, extensions, other case, stray blanks / dashes) in command
    position, followed by a well-formed tail; the exact words are included"""
    out = []
    tails = {"encrypt": ["in", "-t", "a", "-f", "b"], "enc": ["in", "-t", "a", "-f", "b"], "decrypt": ["in", "-t", "a"], "dec": ["in", "-t", "a"],
             "key": ["generate"], "password": ["encrypt", "in"], "pass": ["dec", "in"]}
    for w in ["encrypt", "enc", "decrypt", "dec", "key", "password", "pass", "gen", "generate", "change-pass", "extract-pub"]:
        for v in sorted(set([w[:k] for k in range(1, len(w) + 1)] + [w + "x", w + "s", w.upper(), w.capitalize(), " " + w, w + " ",
                             w.replace("-", "_"), "-" + w, "--" + w])):
            if w in tails:
                out.append(["kestrel", v] + tails[w])
            elif w in ("gen", "generate"):
                out.append(["kestrel", "key", v, "-o", "f"])
            else:
                out.append(["kestrel", "key", v, "ZWdrMA", "--env-pass"])
            if w in ("encrypt", "enc", "decrypt", "dec"):
                out.append(["kestrel", "pass", v, "in"])
    return out


def dispatch_cases(ctx):
    """the SAME near-miss vectors through the real process: clidrv's `parse` op carries its own copy of try_main's dispatch
    (harness/clidrv/src/driver.rs), so only a process run exercises main.rs::try_main's `match args[1]` itself"""
    direct = []
    cases = [CliCase("dispatch " + " ".join(a[1:]), a[1:], {}, pw=b"pw", stdin=b"name\n", rnd=bytes(64), tags=["dispatch-process"], oracle=no_stray)
             for a in near_miss_argvs()]
    cases += [CliCase("dispatch " + " ".join(a), a, {}, tags=["dispatch-process"]) for a in
              ([], ["-h"], ["--help"], ["-v"], ["--version"], ["x", "--help"], ["enc", "-h"], ["-v", "x"], ["--version", "--help"], ["-V"], ["help"])]
    def exit01(r):
        if r["consumed"] not in (0, 1):
            return ("the process ends with status 0 or 1 (an error value), never a panic (101) or a signal", r["raw"][:300])
        if r["consumed"] == 1 and "Error: " not in r["raw"]:
            return ("a failing run prints an Error: line", r["raw"][:300])
        return no_stray(r)
    for path in ("", "nodir/..", "/nodir_kv/sub/..", "..", "/", ".", "nodir/", "a/../..", "x\u00e9/.."):
        for argv in (["encrypt", path, "-t", "a", "-f", "b", "-k", "nokr", "--env-pass"], ["dec", path, "-t", "a", "--env-pass"],
                     ["password", "encrypt", path, "--env-pass"], ["pass", "decrypt", "--env-pass", path, "-o", "out"]):
            c = CliCase("input path %r: %s" % (path, " ".join(argv[:2])), argv, {}, pw=b"pw", rnd=bytes(64), watch=["out"],
                        tags=["odd-input-path"], oracle=exit01)
            # "..", "/", "." EXIST (directories): outside the model's world of plain files -> direct oracle only
            (direct if path in ("..", "/", ".") else cases).append(c)
    root = tempfile.mkdtemp(prefix="kv_dispatch_", dir="/tmp")
    try:
        exec_cli_cases(cases + direct, root)
    finally:
        shutil.rmtree(root, ignore_errors=True)
    return cases, direct


def parse_cases(ctx):
    rng = ctx.rng
    V = PARSE_VOCAB
    full = ctx.thorough()
    cases = []

    def mk(idx, tag):
        return KCase("parse", argv=hx_args(["kestrel"] + [V[i] for i in idx]), voc=[i + 1 for i in idx], tags=[tag])
    n = len(V)
    cases.append(KCase("parse", argv=[], tags=["argv-empty", "trivial"]))
    cases.append(KCase("parse", argv=hx_args(["kestrel"]), tags=["argv-len0"]))
    for a in range(n):
        cases.append(mk((a,), "argv-len1"))
        for b in range(n):
            cases.append(mk((a, b), "argv-len2"))
    tops = [V.index(t) for t in TOP_COMMANDS]
    l3 = [(a, b, c) for a in (range(n) if full else tops) for b in range(n) for c in range(n)]
    if not full:
        l3 = rng.sample(l3, 2200)
    cases += [mk(t, "argv-len3") for t in l3]
    if full:
        l4 = [(a, b, c, d) for a in tops for b in range(n) for c in range(n) for d in range(n)]
        cases += [mk(t, "argv-len4") for t in rng.sample(l4, 40000)]
    # random longer vectors: a command, then options mostly with their values
    vals = ["x", "file", "a b", "-", "--", "", "=", "k=v", "\u00e9\u3000", "-t", "--help2", "ZWdrMA"]
    for _ in range(3000 if full else 450):
        first = rng.choice([["encrypt"], ["enc"], ["decrypt"], ["dec"], ["key", "gen"], ["key", "generate"], ["key", "change-pass"],
                            ["key", "extract-pub"], ["password", "encrypt"], ["pass", "dec"], ["pass", "enc"], ["password", "decrypt"],
                            ["key"], ["pass"], ["bogus"]])
        rest = []
        for _ in range(rng.randint(0, 6)):
            r = rng.random()
            if r < 0.55:
                o = rng.choice(["-t", "--to", "-to", "-f", "--from", "-o", "--output", "-output", "-k", "--keyring", "--t", "--o", "-tf", "-ot", "--TO"])
                if rng.random() < 0.3:
                    rest.append(o + "=" + rng.choice(vals))
                else:
                    rest.append(o)
                    if rng.random() < 0.85:
                        rest.append(rng.choice(vals))
            elif r < 0.7:
                rest.append(rng.choice(["--env-pass", "-env-pass", "--env-pass=1", "--env", "--env-pas"]))
            elif r < 0.75:
                rest.append(rng.choice(["-v", "--version", "--hel", "-hh", "--help=1"]))
            else:
                rest.append(rng.choice(vals))
        cases.append(KCase("parse", argv=hx_args(["kestrel"] + first + rest), tags=["argv-random"]))
    for argv in near_miss_argvs():
        cases.append(KCase("parse", argv=hx_args(argv), tags=["argv-near-miss"]))
    # arguments that are not UTF-8: an error value from convert_args, never a panic (no model: it starts after convert_args)
    nonutf = []
    for bad in (b"\xff", b"caf\xe9", b"\xc3", b"\xed\xa0\x80", b"-t\xfe"):
        for pos in (0, 1, 2, 3):
            argv = [b"kestrel", b"decrypt", b"-t", b"x"]
            argv[pos] = bad

            def orc(r):
                return None if r["code"] == 31 else ("an argument that is not UTF-8 is reported as an error value", r["raw"][:200])
            nonutf.append(KCase("parse", argv=[a.hex() for a in argv], oracle=orc, tags=["argv-not-utf8"]))
    return cases, nonutf


def spelling_cases(ctx):
    """the same invocation in every spelling: identical parsed options (direct oracle), each also compared with the model"""
    rng = ctx.rng
    invs = []
    for _ in range(60 if ctx.thorough() else 14):
        kind = rng.choice(["encrypt", "decrypt", "pass-enc", "pass-dec", "gen"])
        v = lambda: rng.choice(["x", "file", "a b", "k=v", "-", "--", "\u00e9", "-o", "--to"])
        fl = [("env-pass", None)] if rng.random() < 0.6 else []
        free = [rng.choice(["in.txt", "-", "x y"])] if rng.random() < 0.6 else []
        if kind == "encrypt":
            opts = [("t", v()), ("f", v())] + ([("o", v())] if rng.random() < 0.6 else []) + ([("k", v())] if rng.random() < 0.6 else [])
            invs.append((["encrypt"], opts + fl, free))
        elif kind == "decrypt":
            opts = [("t", v())] + ([("o", v())] if rng.random() < 0.6 else []) + ([("k", v())] if rng.random() < 0.6 else [])
            invs.append((["decrypt"], opts + fl, free))
        elif kind == "gen":
            invs.append((["key", "generate"], ([("o", v())] if rng.random() < 0.7 else []) + fl, []))
        else:
            invs.append((["password", "encrypt" if kind == "pass-enc" else "decrypt"], ([("o", v())] if rng.random() < 0.7 else []) + fl, free))
    groups = []
    for inv in invs:
        # a value that begins with '-' directly after a separate option is taken as the value by getopts as well; but a free
        # argument beginning with '-' would be an option: keep free arguments plain except the lone "-"
        vs = spell_variants(rng, inv)
        groups.append([KCase("parse", argv=hx_args(a), tags=["spelling"]) for a in vs])
    base = [g[0] for g in groups]
    run_impl_k(base)
    cases = []
    for g in groups:
        b = g[0].result
        cases.append(g[0])
        for c in g[1:]:
            def same(r, b=b, a0=g[0].a["argv"]):
                if (r["code"], r["out"]) != (b["code"], b["out"]):
                    return ("long / short / '=' / single-dash spellings and aliases of one invocation parse to the same options as %r: %s"
                            % ([bytes.fromhex(x).decode() for x in a0], b["raw"][:200]), r["raw"][:300])
                if not (23 <= r["code"] <= 29):
                    return ("a well-formed invocation is accepted", r["raw"][:300])
                return None
            c.expect_fn = same
            cases.append(c)
    return cases


def parse_correspondence(ctx):
    """entry point for C09 (props.py) and C12"""
    cases, nonutf = parse_cases(ctx)
    cases += spelling_cases(ctx)
    dc, direct = dispatch_cases(ctx)
    cases += dc
    k_run_cases(ctx, cases, model=True, prelude=parse_prelude() + cli_prelude(), tag=ctx.pid + "p")
    k_run_cases(ctx, nonutf + direct, model=False)
    ctx.distribution["parse:model-compared"] = ctx.distribution.get("parse:model-compared", 0) + len(cases)


# =========================================================================== the whole program vs Model/CliGlue.v::real_cli_main
def cli_texts():
    """(help text, version text) as the program prints them: USAGE and CARGO_PKG_VERSION read from the sources"""
    import re
    src = open(os.path.join(vlib.REPO, "src", "cli", "src", "main.rs"), encoding="utf-8").read()
    m = re.search(r'const USAGE: &str = "(.*?)";', src, re.S)
    toml = open(os.path.join(vlib.REPO, "src", "cli", "Cargo.toml"), encoding="utf-8").read()
    v = re.search(r'^version = "(.*?)"', toml, re.M)
    return (m.group(1) if m else "?").encode("utf-8") + b"\n", b"v" + (v.group(1) if v else "?").encode() + b"\n"


def cli_prelude():
    h, v = cli_texts()
    return "Definition help_txt : bytes := %s.\nDefinition ver_txt : bytes := %s.\n" % (vlib.g_bytes(h), vlib.g_bytes(v))


STATUS_MSG = [  # (prefix of the text after "Error: ", status class of Run/RunCli.v)
    ("Input and output files must be different.", 10), ("Input file '", 11), ("Specify a keyring with -k", 12),
    ("Could not open keyring:", 13), ("Invalid keyinrg encoding", 14), ("Recipient key '", 15), ("Sender key '", 16),
    ("Public key checksum did not match.", 21), ("Invalid public key length.", 22),
    ("--env-pass requires setting the KESTREL_PASSWORD", 30), ("--env-pass with change-pass requires setting the KESTREL_NEW_PASSWORD", 31),
    ("Key unlock failed.", 33), ("Failed to unlock the private key.", 43), ("Invalid private key length.", 44),
    ("Unsupported private key file format.", 45), ("Plaintext read failed", 62), ("Ciphertext write failed", 63),
    ("Key exchange failed", 64), ("Chunk length is too large", 71), ("Ciphertext read failed", 74), ("Plaintext write failed", 75),
    ("Invalid file format.", 76), ("This is a password encrypted file.", 77), ("This is a key encrypted file.", 77),
    ("Decrypt failed. Check key used.", 90), ("Decrypt failed. Check password used.", 91),
    ("stream did not contain valid UTF-8", 92), ("Name must be between 1 and 128 characters.", 93),
    ("Invalid Private Key length", 94), ("Could not decode private key", 94)]


def classify_run(argv, rc, out, err, help_txt, ver_txt):
    """the real process's result -> (status class, status text) in the vocabulary of Run/RunCli.v"""
    t = err.decode("utf-8", "replace")
    if rc == 101 or "panicked at" in t:
        return 1, b""
    i = t.find("Error: ")
    if rc == 0:
        for l in t.splitlines():
            if l.startswith("Success. File from: "):
                return 3, l[len("Success. File from: "):].encode("utf-8")
            if l.startswith("Unknown key: "):
                return 4, l[len("Unknown key: "):].encode("utf-8")
        if out == help_txt:
            return 201, b""
        if out == ver_txt:
            return 202, b""
        return 0, b""
    if i < 0:
        return 998, b""
    m = t[i + len("Error: "):]
    m = m[:-1] if m.endswith("\n") else m
    dec = len(argv) > 0 and argv[0] in ("dec", "decrypt")
    if m.endswith("\nFor more info use '--help'"):
        return 203, m.encode("utf-8")
    if m.startswith(PERR_PREFIX):
        return perr_code(m), b""
    if m.startswith("Key '") and m.endswith("' not found."):
        return 18, b""
    if m.startswith("Key '") and m.endswith("' needs a private key."):
        return 19, b""
    if m.startswith("Sender '") and m.endswith("' needs a private key."):
        return 17, b""
    if "(os error 6)" in m:
        return 32, b""
    if m == "Decrypt failed":
        return 78, b""
    if m == "Diffie-Hellman operation failed":
        return (79 if dec else 50), b""
    if m.startswith("Expected end of stream. Found extra data"):
        return (73 if (dec or argv[:2] in (["pass", "dec"], ["pass", "decrypt"], ["password", "dec"], ["password", "decrypt"])) else 61), b""
    for pre, code in STATUS_MSG:
        if m.startswith(pre):
            return code, b""
    return 997, b""


def render_paths(files, watch):
    out = b""
    for p in watch:
        c = files.get(p)
        out += b"\x00" if c is None else b"\x01" + len(c).to_bytes(4, "big") + c
    return out


class CliCase(KCase):
    """one run of the whole program: files (name -> bytes) in the working directory, environment, stdin, argv (after the
    program name), random stream.  Implementation = the clidrv binary as a process; model = RunCli.run_cli."""
    synthetic = True

    def __init__(self, label, argv, files, pw=None, npw=None, keyring_env=None, stdin=b"", rnd=b"", watch=(), tags=(), oracle=None):
        a = {"label": label, "argv": list(argv), "files": {k: v.hex() for k, v in files.items()},
             "pw": None if pw is None else pw.hex(), "npw": None if npw is None else npw.hex(), "keyring_env": keyring_env,
             "stdin": stdin.hex(), "rnd": rnd.hex(), "watch": sorted(set(list(watch) + list(files)))}
        Case.__init__(self, "cli", tags=list(tags), oracle=oracle, **a)

    def files(self):
        return {k: bytes.fromhex(v) for k, v in self.a["files"].items()}

    def rust_line(self):
        return "%s cli %s" % (self.id, hashlib.sha256(repr(sorted((k, repr(v)) for k, v in self.a.items())).encode()).hexdigest())

    def env(self):
        e = {}
        a = self.a
        if a["pw"] is not None:
            e["KESTREL_PASSWORD"] = bytes.fromhex(a["pw"]).decode("utf-8")
        if a["npw"] is not None:
            e["KESTREL_NEW_PASSWORD"] = bytes.fromhex(a["npw"]).decode("utf-8")
        if a["keyring_env"] is not None:
            e["KESTREL_KEYRING"] = a["keyring_env"]
        if a["rnd"]:
            e["KESTREL_VERIF_RANDOM"] = a["rnd"]
        return e

    def model_term(self):
        a = self.a
        gb = vlib.g_bytes
        gt = lambda s: g_text(s.encode("utf-8"))
        go = lambda h: "None" if h is None else "(Some %s)" % gb(bytes.fromhex(h))
        fs = "; ".join("(%s, %s)" % (gt(k), gb(bytes.fromhex(v))) for k, v in sorted(a["files"].items()))
        rnd = bytes.fromhex(a["rnd"])
        r1 = rnd[:32] if len(rnd) >= 32 else bytes(32)
        r2 = rnd[32:64] if len(rnd) >= 64 else bytes(32)
        return "run_cli T (mkw [%s] %s %s %s %s) [%s] %s %s help_txt ver_txt [%s]" % (
            fs, go(a["pw"]), go(a["npw"]), "None" if a["keyring_env"] is None else "(Some %s)" % gt(a["keyring_env"]),
            gb(bytes.fromhex(a["stdin"])), "; ".join(gt(x) for x in ["kestrel"] + a["argv"]), gb(r1), gb(r2),
            "; ".join(gt(x) for x in a["watch"]))

    def kdf_need(self):
        """every (password, salt) the model could ask for: passwords of the environment x salts of every locked key in a file or
        on the command line, of every kestrel file, and the blocks of the random stream"""
        a = self.a
        pws = [bytes.fromhex(x) for x in (a["pw"], a["npw"]) if x is not None]
        salts = []
        texts = [bytes.fromhex(v) for v in a["files"].values()] + [x.encode("utf-8") for x in a["argv"]]
        for t in texts:
            if t[:3] == b"egk" and len(t) >= 36:
                salts.append(t[4:36])
            for tok in t.replace(b"\r", b"\n").replace(b"=", b" = ").split():
                if len(tok) == 112 and tok[:5] == b"ZWdrM":
                    d = b64_lenient(tok)
                    if d is not None and len(d) == 84:
                        salts.append(d[4:36])
        rnd = bytes.fromhex(a["rnd"])
        salts += [rnd[i:i + 32] for i in (0, 32) if len(rnd) >= i + 32]
        return [(p, s) for p in pws for s in salts]

    def describe(self):
        a = self.a
        return {"argv": ["kestrel"] + a["argv"], "env": self.env(), "stdin_hex": a["stdin"][:200], "files": {k: v[:120] for k, v in a["files"].items()},
                "result": (self.result or {}).get("raw", "")[:300]}


def exec_cli_cases(cases, root):
    """run every case as a real process in its own directory under root; fills c.result (observation of RunCli.run_cli)"""
    help_txt, ver_txt = cli_texts()

    def one(ic):
        i, c = ic
        d = os.path.join(root, "case%d_%s" % (i, hashlib.sha256(c.rust_line().encode()).hexdigest()[:8]))
        os.makedirs(d)
        for k, v in c.files().items():
            with open(os.path.join(d, k), "wb") as f:
                f.write(v)
        e = {"PATH": "/usr/bin:/bin", "HOME": d, "LANG": "C.UTF-8"}
        e.update(c.env())
        try:
            pr = subprocess.run([vlib.CLIDRV] + c.a["argv"], env=e, input=bytes.fromhex(c.a["stdin"]), stdout=subprocess.PIPE,
                                stderr=subprocess.PIPE, start_new_session=True, timeout=120, cwd=d)
            rc, out, err = pr.returncode, pr.stdout, pr.stderr
        except subprocess.TimeoutExpired:
            rc, out, err = 124, b"", b"[timeout]"
        after = {}
        for nm in os.listdir(d):
            p = os.path.join(d, nm)
            if os.path.isfile(p):
                with open(p, "rb") as f:
                    after[nm] = f.read()
        code, text = classify_run(c.a["argv"], rc, out, err, help_txt, ver_txt)
        stray = sorted(set(after) - set(c.a["watch"])) + kvc_stray_entries(d)
        if rc < 0:
            rc = 1000 - rc          # killed by signal -rc
        c.result = {"id": None, "code": code, "outcome": "exit%d:class%d" % (rc, code), "out": out, "consumed": rc, "trace": [],
                    "extra": render_paths(after, c.a["watch"]) + text, "entries": None, "msg": "", "after": after, "stray": stray,
                    "raw": "exit=%d class=%d stdout=%s stderr=%r files=%s" % (rc, code, out[:80].hex(), err.decode("utf-8", "replace")[-200:],
                                                                           {k: len(v) for k, v in after.items()})}
        shutil.rmtree(d, ignore_errors=True)
    with ThreadPoolExecutor(max_workers=NPROC) as ex:
        list(ex.map(one, list(enumerate(cases))))


def kvc_stray_entries(d):
    """what a run directory holds besides regular files at its top level (directories, links, anything nested): the program
    never creates such entries, and the files of a case are all top-level regular files"""
    out = []
    for rel, e in sorted(kvc_tree_snapshot(d).items()):
        if e[0] != "file" or os.sep in rel:
            out.append(rel + ("/" if e[0] == "dir" else " (%s)" % e[0] if e[0] != "file" else ""))
    return out


def no_stray(r):
    if r.get("stray"):
        return ("no file other than the named output is created", "new files %r" % r["stray"])
    return None


# =========================================================================== the TREE world (kvw_*): directories, missing parents,
# dotted / absolute spellings, one file under two names, directories as input.  Model = Run/RunCli.v::run_cli_tree over
# Model/Cli.v's tree world; observation = exit code, message class, stdout and the WHOLE resulting tree.
KVW_IO_ERR = __import__("re").compile(r"^[A-Za-z][A-Za-z ]* \(os error \d+\)$")


def kvw_classify(argv, rc, out, err, help_txt, ver_txt):
    """classify_run plus the two messages only a tree can provoke: key generate onto a directory (95) and the bare io::Error of
    key generate's write_all when the file cannot be created (96)"""
    code, text = classify_run(argv, rc, out, err, help_txt, ver_txt)
    if code == 997:
        t = err.decode("utf-8", "replace")
        i = t.find("Error: ")
        m = t[i + len("Error: "):].rstrip("\n") if i >= 0 else ""
        if m.startswith("Could not open output file:"):
            return 95, b""
        if KVW_IO_ERR.match(m):
            return 96, b""
    return code, text


def kvw_read_tree(d):
    """every entry below d: relative path -> bytes (regular file) | None (directory) | ('other', kind)"""
    out = {}
    for rel, e in kvc_tree_snapshot(d).items():
        if e[0] == "file":
            with open(os.path.join(d, rel), "rb") as f:
                out[rel] = f.read()
        elif e[0] == "dir":
            out[rel] = None
        else:
            out[rel] = ("other", e[0])
    return out


class KvwCase(CliCase):
    """one run of the whole program in a TREE.  tree: path relative to the run directory -> bytes (regular file) | None
    (directory); cwd: the sub-directory the process starts in ('' = the run directory R); '@R' inside an argument or
    KESTREL_KEYRING stands for the absolute path of R.  R is <case dir>/r, so that '..' from R stays inside the case."""

    def __init__(self, label, argv, tree, cwd="", pw=None, npw=None, keyring_env=None, stdin=b"", rnd=b"", tags=(), oracle=None):
        CliCase.__init__(self, label, argv, {k: v for k, v in tree.items() if v is not None}, pw=pw, npw=npw, keyring_env=keyring_env,
                         stdin=stdin, rnd=rnd, watch=(), tags=tags, oracle=oracle)
        self.a["dirs"] = sorted(k for k, v in tree.items() if v is None)
        self.a["cwd"] = cwd
        self.a["kvw"] = True
        self.a["rundir"] = None
        self.a["watch"] = []

    def rust_line(self):
        return "%s cli %s" % (self.id, hashlib.sha256(repr(sorted((k, repr(v)) for k, v in self.a.items()
                                                                 if k not in ("rundir", "watch", "after_paths"))).encode()).hexdigest())

    def sub(self, s):
        return None if s is None else s.replace("@R", self.a["rundir"] or "@R")

    def env(self):
        e = CliCase.env(self)
        if "KESTREL_KEYRING" in e:
            e["KESTREL_KEYRING"] = self.sub(e["KESTREL_KEYRING"])
        return e

    def parts(self, rel=""):
        """canonical absolute path (list of components) of <run dir>/rel"""
        p = [x for x in self.a["rundir"].split("/") if x]
        return p + [x for x in rel.split("/") if x]

    def model_term(self):
        a = self.a
        gb = vlib.g_bytes
        gt = lambda s: g_text(s.encode("utf-8"))
        gp = lambda comps: "[" + "; ".join(gt(c) for c in comps) + "]"
        go = lambda h: "None" if h is None else "(Some %s)" % gb(bytes.fromhex(h))
        R = self.parts()
        nodes = [(R[:i], None) for i in range(1, len(R) + 1)]          # /tmp, ..., the case directory, r
        nodes += [(self.parts(k), None) for k in a["dirs"]]
        nodes += [(self.parts(k), bytes.fromhex(v)) for k, v in sorted(a["files"].items())]
        nd = "; ".join("(%s, %s)" % (gp(p), "nd" if c is None else "(nf %s)" % gb(c)) for p, c in nodes)
        rnd = bytes.fromhex(a["rnd"])
        r1 = rnd[:32] if len(rnd) >= 32 else bytes(32)
        r2 = rnd[32:64] if len(rnd) >= 64 else bytes(32)
        kr = self.sub(a["keyring_env"])
        return "run_cli_tree T (mkw_tree [%s] %s %s %s %s %s) [%s] %s %s help_txt ver_txt [%s]" % (
            nd, gp(self.parts(a["cwd"])), go(a["pw"]), go(a["npw"]), "None" if kr is None else "(Some %s)" % gt(kr),
            gb(bytes.fromhex(a["stdin"])), "; ".join(gt(self.sub(x)) for x in ["kestrel"] + a["argv"]), gb(r1), gb(r2),
            "; ".join(gp(p) for p in a["watch"]))

    def describe(self):
        a = self.a
        return {"argv": ["kestrel"] + a["argv"], "cwd": a["cwd"] or ".", "env": CliCase.env(self), "dirs": a["dirs"],
                "files": {k: v[:80] for k, v in a["files"].items()}, "stdin_hex": a["stdin"][:120],
                "result": (self.result or {}).get("raw", "")[:400]}


def kvw_exec_cases(cases, root):
    """run every KvwCase as a real process; c.result = observation of RunCli.run_cli_tree: the whole tree of the case directory"""
    help_txt, ver_txt = cli_texts()
    os.makedirs(root, exist_ok=True)

    def one(ic):
        i, c = ic
        d = os.path.join(root, "kvw%d_%s" % (i, hashlib.sha256(c.rust_line().encode()).hexdigest()[:8]))
        R = os.path.join(d, "r")
        os.makedirs(R)
        c.a["rundir"] = R
        for k in c.a["dirs"]:
            os.makedirs(os.path.join(R, k), exist_ok=True)
        for k, v in c.files().items():
            os.makedirs(os.path.dirname(os.path.join(R, k)), exist_ok=True)
            with open(os.path.join(R, k), "wb") as f:
                f.write(v)
        before = kvw_read_tree(d)
        e = {"PATH": "/usr/bin:/bin", "HOME": d, "LANG": "C.UTF-8"}
        e.update(c.env())
        argv = [c.sub(x) for x in c.a["argv"]]
        try:
            pr = subprocess.run([vlib.CLIDRV] + argv, env=e, input=bytes.fromhex(c.a["stdin"]), stdout=subprocess.PIPE,
                                stderr=subprocess.PIPE, start_new_session=True, timeout=120, cwd=os.path.join(R, c.a["cwd"]))
            rc, out, err = pr.returncode, pr.stdout, pr.stderr
        except subprocess.TimeoutExpired:
            rc, out, err = 124, b"", b"[timeout]"
        after = kvw_read_tree(d)
        code, text = kvw_classify(c.a["argv"], rc, out, err, help_txt, ver_txt)
        if rc < 0:
            rc = 1000 - rc
        D = [x for x in d.split("/") if x]
        watch = sorted(set(tuple(D[:k]) for k in range(1, len(D) + 1)) | set(tuple(D + rel.split("/")) for rel in set(before) | set(after)))
        c.a["watch"] = [list(p) for p in watch]
        extra = (len(D) + len(after)).to_bytes(4, "big")
        for p in watch:
            if len(p) <= len(D):
                extra += b"\x02"
                continue
            rel = "/".join(p[len(D):])
            if rel not in after:
                extra += b"\x00"
            elif after[rel] is None:
                extra += b"\x02"
            elif isinstance(after[rel], tuple):
                extra += b"\x03"
            else:
                extra += b"\x01" + len(after[rel]).to_bytes(4, "big") + after[rel]
        diff = sorted(k for k in set(before) | set(after) if before.get(k, 0) != after.get(k, 0))
        c.result = {"id": None, "code": code, "outcome": "exit%d:class%d" % (rc, code), "out": out, "consumed": rc, "trace": [],
                    "extra": extra + text, "entries": None, "msg": "", "before": before, "after": after, "changed": diff, "stray": [],
                    "raw": "exit=%d class=%d stdout=%s stderr=%r changed=%s" % (rc, code, out[:60].hex(), err.decode("utf-8", "replace")[-160:],
                                                                             {k: (None if after.get(k) is None else len(after[k]) if isinstance(after.get(k), bytes) else after.get(k)) for k in diff})}
        shutil.rmtree(d, ignore_errors=True)
    with ThreadPoolExecutor(max_workers=NPROC) as ex:
        list(ex.map(one, list(enumerate(cases))))


def kvw_unchanged(why):
    def f(r):
        if r["consumed"] != 1:
            return ("%s: the command fails with exit 1" % why, "exit %d" % r["consumed"])
        if r["changed"]:
            return ("%s: nothing is created, no directory either, and nothing present is altered" % why, "changed entries %r" % r["changed"])
        return None
    return f


def kvw_only(rel, why, rc=0):
    def f(r):
        if r["consumed"] != rc:
            return ("%s: exit %d" % (why, rc), "exit %d" % r["consumed"])
        if r["changed"] != [rel]:
            return ("%s: exactly r/%s is written, nothing else changes" % (why, rel[2:] if rel.startswith("r/") else rel), "changed entries %r" % r["changed"])
        return None
    return f


def kvw_exit(rc, why):
    def f(r):
        if r["consumed"] != rc:
            return ("%s: exit %d" % (why, rc), "exit %d" % r["consumed"])
        return None
    return f


def kvw_two_chunk_pct(mw, c1, c2):
    """a password-mode file with two SMALL chunks (the decryptor accepts any chunk length up to 64 KiB), written with the
    independent RFC 8439 code of the C15 check; None without OpenSSL's scrypt"""
    salt = mw.pct[4:36]
    key = py_scrypt(mw.passpw, salt)
    if key is None:
        return None
    magic = mw.pct[:4]
    out = magic + salt
    for n, (pt, last) in enumerate(((c1, 0), (c2, 1))):
        flag, ln = last.to_bytes(4, "big"), len(pt).to_bytes(4, "big")
        out += n.to_bytes(8, "big") + flag + ln + c15_aead_seal(key, bytes(4) + n.to_bytes(8, "little"), magic + flag + ln, pt)
    return out


def kvw_cases(ctx, mw, which):
    """the tree cases of C12 ('c12': exit status over write failures, dotted spellings, directory inputs) and of C13 ('c13': what
    the failing runs leave behind; aliases).  quick: a few dozen, thorough: the whole sweep."""
    rng = ctx.rng
    A, Bp = mw.pw["alice"], mw.pw["bob"]
    base = {"pt": mw.plain, "ct": mw.ct, "pct": mw.pct, "kr": mw.kr["full"], "sub": None, "sub/deep": None, "sub/f": b"in the sub-directory\n"}
    ops = {  # name -> (argv builder(infile, out) , password, random, reads a keyring)
        "encrypt": (lambda i, o: ["encrypt"] + ([i] if i is not None else []) + ["-t", "bob", "-f", "alice", "-k", "kr", "--env-pass"] + ([] if o is None else ["-o", o]), A, "pt"),
        "decrypt": (lambda i, o: ["decrypt"] + ([i] if i is not None else []) + ["-t", "bob", "-k", "kr", "--env-pass"] + ([] if o is None else ["-o", o]), Bp, "ct"),
        "pass-encrypt": (lambda i, o: ["password", "encrypt"] + ([i] if i is not None else []) + ["--env-pass"] + ([] if o is None else ["--output", o]), mw.passpw, "pt"),
        "pass-decrypt": (lambda i, o: ["pass", "dec"] + ([i] if i is not None else []) + ["--env-pass"] + ([] if o is None else ["-o=" + o]), mw.passpw, "pct"),
    }
    cases = []

    def add(label, argv, tree=None, cwd="", pw=None, rnd=None, stdin=b"", kenv=None, tag="", oracle=None):
        cases.append(KvwCase(label, argv, dict(base) if tree is None else tree, cwd=cwd, pw=pw, keyring_env=kenv, stdin=stdin,
                             rnd=ctx.rbytes(64) if rnd is None else rnd, tags=["model:tree-" + tag], oracle=oracle))
    pick = (lambda l, n: l) if ctx.thorough() else (lambda l, n: rng.sample(l, min(n, len(l))))
    GEN = ["key", "generate", "--env-pass"]
    bad_out = ["nodir/out", "", "sub", ".", "..", "/", "sub/", "pt/x", "pt/", "new/", "sub/../nodir/x", "/nodir_kvw/x", "@R/nodir/x", "sub/deep/../../nodir/x",
               "./nodir/../out", "sub/f/../out"]
    good_out = [("./out", "r/out"), ("sub/out", "r/sub/out"), ("sub/../out", "r/out"), ("./sub//deep/out", "r/sub/deep/out"), ("@R/out", "r/out"),
                ("sub/deep/../../out", "r/out"), ("../r/out", "r/out"), ("sub/./f", "r/sub/f"), ("//" + "@R/sub/out", "r/sub/out"), ("../x", "x")]
    if which == "c12":
        # ---- exit 0 iff the operation completed, over -o paths that cannot be created (every command, every shape) ...
        for name, (mk, pw, inp) in ops.items():
            for o in pick(bad_out, 3):
                add("%s, -o %r cannot be created" % (name, o), mk(inp, o), pw=pw, tag="bad-output", oracle=kvw_unchanged("the -o path cannot be created"))
        for o in pick(bad_out, 4):
            add("key generate, -o %r cannot be created" % o, GEN + ["-o", o], pw=b"gen pw", stdin=b"newkey\n", tag="bad-output",
                oracle=kvw_unchanged("the -o path cannot be created"))
        # ---- ... and over spellings of an -o path that CAN be created: the bytes land in the file the path denotes
        for name, (mk, pw, inp) in ops.items():
            for o, land in pick(good_out, 2):
                add("%s, -o %r" % (name, o), mk(inp, o), pw=pw, tag="dotted-output", oracle=kvw_only(land, "the path denotes r/.. " + land))
        for o, land in pick(good_out, 2):
            add("key generate, -o %r" % o, GEN + ["-o", o], pw=b"gen pw", stdin=b"newkey\n", tag="dotted-output", oracle=kvw_only(land, "the path denotes " + land))
        # ---- the process started in a sub-directory: relative paths are relative to IT
        for name, (mk, pw, inp) in pick(list(ops.items()), 2):
            add("%s from sub/, input ../%s, -o out" % (name, inp), [("../kr" if x == "kr" else x) for x in mk("../" + inp, "out")], cwd="sub", pw=pw, tag="cwd",
                oracle=kvw_only("r/sub/out", "relative to the current directory"))
            add("%s from sub/deep, -o ../../out2" % name, [("../../kr" if x == "kr" else x) for x in mk("../../" + inp, "../../out2")], cwd="sub/deep", pw=pw,
                tag="cwd", oracle=kvw_only("r/out2", "relative to the current directory"))
        # ---- spellings of the INPUT path and of the keyring path
        for name, (mk, pw, inp) in pick(list(ops.items()), 2):
            for i in pick(["./" + inp, "sub/../" + inp, "@R/" + inp, "sub/deep/../.././" + inp], 2):
                add("%s, input spelled %r" % (name, i), mk(i, "out"), pw=pw, tag="dotted-input", oracle=kvw_only("r/out", "the input path denotes the file"))
            for i in pick([inp + "/", inp + "/.", "sub/../nodir/../" + inp, "nodir/../" + inp, inp + "/../" + inp], 2):
                add("%s, input %r does not resolve" % (name, i), mk(i, "out"), pw=pw, tag="missing-input", oracle=kvw_unchanged("the input path does not resolve"))
        for k, ok in pick([("./sub/../kr", True), ("@R/kr", True), ("sub", False), ("kr/", False), ("nodir/kr", False), (".", False), ("sub/../kr/.", False)], 4):
            argv = [(k if x == "kr" else x) for x in ops["decrypt"][0]("ct", "out")]
            add("decrypt, keyring path %r" % k, argv, pw=Bp, tag="keyring-path",
                oracle=kvw_only("r/out", "the keyring path denotes the keyring") if ok else kvw_unchanged("the keyring cannot be read"))
        add("decrypt, KESTREL_KEYRING = absolute path", [x for x in ops["decrypt"][0]("ct", "out") if x not in ("-k", "kr")], pw=Bp, kenv="@R/sub/../kr",
            tag="keyring-path", oracle=kvw_only("r/out", "the variable names the keyring"))
        # ---- a directory as input never gives exit 0
        for name, (mk, pw, inp) in ops.items():
            for i in pick([".", "..", "/", "sub", "sub/", "./sub/.", "@R", "sub/deep/.."], 2):
                add("%s, input %r is a directory" % (name, i), mk(i, "out"), pw=pw, tag="directory-input", oracle=kvw_exit(1, "a directory cannot be read"))
        return cases
    # ------------------------------------------------------------------ c13
    SENT = dict(base, out=SENTINEL)
    # every command x every kind of -o path that cannot be created, the rest of the invocation valid: nothing is created, no directory either
    for name, (mk, pw, inp) in ops.items():
        for o in pick(bad_out, 2):
            add("%s, -o %r cannot be created" % (name, o), mk(inp, o), pw=pw, tag="bad-output", oracle=kvw_unchanged("the -o path cannot be created"))
        add("%s, -o below a regular file that holds the sentinel" % name, mk(inp, "out/x"), tree=SENT, pw=pw, tag="bad-output",
            oracle=kvw_unchanged("a regular file is not a directory"))
    for o in pick(bad_out, 3):
        add("key generate, -o %r cannot be created" % o, GEN + ["-o", o], pw=b"gen pw", stdin=b"newkey\n", tag="bad-output",
            oracle=kvw_unchanged("the -o path cannot be created"))
    # a failure cause of the property TOGETHER with such a path, and with dotted spellings of a path that could be created
    for name, (mk, pw, inp) in ops.items():
        for o in pick(["nodir/out", "sub/../out", "./sub/out", "@R/out", "sub", ""], 2):
            add("%s, unset password, -o %r" % (name, o), mk(inp, o), pw=None, tag="cause-and-path", oracle=kvw_unchanged("the password variable is unset"))
            add("%s, missing input, -o %r" % (name, o), mk("nofile", o), tree=SENT, pw=pw, tag="cause-and-path", oracle=kvw_unchanged("the input is missing"))
    # ---- a directory as input: the decryptors leave everything; the encryptors leave their header (compared with the model byte for byte)
    for name, (mk, pw, inp) in ops.items():
        for i in pick([".", "..", "/", "sub", "sub/", "./sub/.", "@R"], 2):
            dec = "decrypt" in name
            for tr, st in ((base, "absent"), (SENT, "sentinel")):
                add("%s, input %r is a directory, -o out (%s)" % (name, i, st), mk(i, "out"), tree=tr, pw=pw, tag="directory-input",
                    oracle=kvw_unchanged("a decryptor reads before it writes") if dec else kvw_exit(1, "a directory cannot be read"))
        add("%s, input is a directory, to stdout" % name, mk("sub", None), pw=pw, tag="directory-input", oracle=kvw_unchanged("nothing is written to a file"))
        add("%s, input is a directory, -o cannot be created" % name, mk(".", "nodir/out"), pw=pw, tag="directory-input", oracle=kvw_unchanged("neither end works"))
        add("%s, input is a directory, unset password" % name, mk("sub", "out"), tree=SENT, pw=None, tag="directory-input", oracle=kvw_unchanged("the password variable is unset"))
    # ---- one file under two names: the program compares strings.  Observations (exit 0, the input is replaced), compared with the model.
    al = [("pass-encrypt", "pt", "./pt"), ("pass-encrypt", "pt", "sub/../pt"), ("pass-encrypt", "./pt", "@R/pt"), ("pass-decrypt", "pct", "./pct"),
          ("pass-decrypt", "sub/deep/../../pct", "pct"), ("decrypt", "ct", "sub/../ct"), ("decrypt", "@R/ct", "ct"), ("encrypt", "pt", "./pt"), ("encrypt", "pt", "//@R/pt")]
    for name, i, o in pick(al, 5):
        add("%s %r -o %r: one file, two names" % (name, i, o), ops[name][0](i, o), pw=ops[name][1], tag="alias")
    for name, (mk, pw, inp) in pick(list(ops.items()), 2):
        add("%s, the same string twice" % name, mk("./" + inp, "./" + inp), pw=pw, tag="alias", oracle=kvw_unchanged("input and output are the same string"))
    # (C13 same-file family) every command, the same string twice in a spelling that making-absolute and resolving treat differently
    for name, (mk, pw, inp) in ops.items():
        for s in pick(["sub/../" + inp, "sub/deep/../../" + inp, "@R/sub/../" + inp, "./sub/./../" + inp, "../r/" + inp, "//@R/" + inp, inp], 1):
            add("%s, the same string %r twice" % (name, s), mk(s, s), pw=pw, tag="alias", oracle=kvw_unchanged("input and output are the same string"))
    add("password decrypt, alias, data after the last chunk", ops["pass-decrypt"][0]("px", "./px"), tree=dict(base, px=mw.pct + b"garbage"), pw=mw.passpw,
        tag="alias", oracle=kvw_unchanged("the last chunk is not released"))
    add("password decrypt, alias, wrong password", ops["pass-decrypt"][0]("pct", "./pct"), pw=b"not the password", tag="alias", oracle=kvw_unchanged("nothing is authenticated"))
    add("encrypt, -o names the keyring by another spelling", ops["encrypt"][0]("pt", "./kr"), pw=A, tag="alias")
    add("key generate, -o ./sub/../kr (an existing keyring by another spelling)", GEN + ["-o", "./sub/../kr"], pw=b"gen pw", stdin=b"newkey\n", tag="alias",
        oracle=kvw_only("r/kr", "the key is appended"))
    two = kvw_two_chunk_pct(mw, ctx.rbytes(40), ctx.rbytes(25))
    if two is not None:
        add("password decrypt, two small chunks, control", ops["pass-decrypt"][0]("p2", "out"), tree=dict(base, p2=two), pw=mw.passpw, tag="alias",
            oracle=kvw_only("r/out", "a two-chunk file decrypts"))
        add("password decrypt, two small chunks, -o ./p2: the first chunk's plaintext replaces the input, the second chunk is gone",
            ops["pass-decrypt"][0]("p2", "./p2"), tree=dict(base, p2=two), pw=mw.passpw, tag="alias")
    return cases


def kvw_model_cases(ctx, mw, root, which):
    """the tree cases, EXECUTED (model_cli_part then only compares them with the model)"""
    cases = kvw_cases(ctx, mw, which)
    kvw_exec_cases(cases, os.path.join(root, "kvw_" + which))
    for c in cases:
        ctx.distribution["tree:" + c.tags[0].split("model:tree-")[-1]] = ctx.distribution.get("tree:" + c.tags[0].split("model:tree-")[-1], 0) + 1
        if c.tags[0].endswith("directory-input") and c.result["changed"]:
            ctx.distribution["tree:directory-input-left-a-header"] = ctx.distribution.get("tree:directory-input-left-a-header", 0) + 1
        if c.tags[0].endswith("alias") and c.result["consumed"] == 0 and c.result["changed"]:
            ctx.distribution["tree:alias-exit-0-input-replaced"] = ctx.distribution.get("tree:alias-exit-0-input-replaced", 0) + 1
    return cases


class ModelWorld:
    """small key material with KNOWN passwords and salts (so that the kdf table can be filled), files for the model cases"""

    def __init__(self, ctx):
        names = ["alice", "bob", "carol"]
        ks = make_keys(ctx, 4)
        self.pw = {"alice": b"pw-alice", "bob": "b\u00f6b \u2713".encode("utf-8"), "carol": b""}
        salts = [ctx.rbytes(32) for _ in names]
        locked = lock_keys([(ks[i][0], self.pw[n], salts[i]) for i, n in enumerate(names)])
        self.pub = {n: ks[i][2] for i, n in enumerate(names)}
        self.sk = {n: ks[i][0] for i, n in enumerate(names)}
        self.block = {n: key_block(n.encode(), ks[i][2], locked[i]) for i, n in enumerate(names)}
        self.locked = {n: locked[i] for i, n in enumerate(names)}
        self.dave_pub = ks[3][2]
        B = self.block
        pubonly = lambda n: key_block(n.encode(), self.pub[n])
        self.kr = {"full": B["alice"] + b"\n" + B["bob"] + b"\n" + B["carol"],
                   "first": pubonly("alice") + b"\n" + B["bob"] + b"\n" + B["carol"],
                   "last": B["carol"] + b"\n" + B["bob"] + b"\n# the sender comes last\n" + pubonly("alice"),
                   "absent": B["bob"] + b"\n" + B["carol"]}
        self.plain = ctx.rbytes(150)
        self.passpw = "p\u00e4ss".encode("utf-8")
        self.rnd = ctx.rbytes(64)
        # authentic files made by the program itself
        mk = [CliCase("setup-encrypt", ["encrypt", "pt", "-t", "bob", "-f", "alice", "-o", "ct", "-k", "kr", "--env-pass"],
                      {"pt": self.plain, "kr": self.kr["full"]}, pw=self.pw["alice"], rnd=self.rnd, watch=["ct"]),
              CliCase("setup-pass-encrypt", ["password", "encrypt", "pt", "-o", "pct", "--env-pass"], {"pt": self.plain},
                      pw=self.passpw, rnd=self.rnd[:32], watch=["pct"])]
        root = tempfile.mkdtemp(prefix="kv_mw_", dir="/tmp")
        try:
            exec_cli_cases(mk, root)
        finally:
            shutil.rmtree(root, ignore_errors=True)
        self.setup_cases = mk
        self.ct = mk[0].result["after"].get("ct") or b""
        self.pct = mk[1].result["after"].get("pct") or b""
        fl = lambda b, off: b[:off] + bytes([b[off] ^ 0x01]) + b[off + 1:]
        self.ct_bad1 = fl(self.ct, HDR + 16 + 20) if len(self.ct) > HDR + 40 else self.ct
        self.pct_bad1 = fl(self.pct, PHDR + 16 + 20) if len(self.pct) > PHDR + 40 else self.pct


MW4 = [BASE_WIRING,
       {"inp": "stdin", "out": "stdout", "kr": "env", "spell": "long", "alias": True, "first": False},
       {"inp": "arg", "out": "stdout", "kr": "k", "spell": "eq", "alias": False, "first": False},
       {"inp": "stdin", "out": "o", "kr": "env", "spell": "dash1", "alias": True, "first": True}]


def wired_case(label, cmd, cfg, infile, data, files, to=None, frm=None, keyring=None, pw=None, rnd=b"", tags=(), pre=None, out="out"):
    """a CliCase from the wiring helpers of the direct checks"""
    argv, env, stdin = wire(cmd, cfg, infile, out, to=to, frm=frm, keyring=keyring, pw=None)
    fs = dict(files)
    sin = b""
    if cfg["inp"] == "stdin":
        sin = data
        fs.pop(infile, None)
    if pre is not None:
        fs[out] = pre
    return CliCase(label + " [" + wname(cfg) + "]", argv, fs, pw=pw, keyring_env=env.get("KESTREL_KEYRING"), stdin=sin, rnd=rnd,
                   watch=[out], tags=list(tags), oracle=no_stray)


def c12_model_cases(ctx, mw):
    cases = list(mw.setup_cases)
    for c in cases:
        c.tags = ["model:setup-encrypt"]
    krs = ["first", "last", "absent"]
    inputs = [("valid", mw.ct, "bob"), ("bad-chunk1", mw.ct_bad1, "bob"), ("wrong-recipient", mw.ct, "carol"), ("password-file", mw.pct, "bob")]
    for i, (nm, data, to) in enumerate(inputs):
        for j, cfg in enumerate(MW4):
            kr = krs[(i + j) % 3]
            cases.append(wired_case("decrypt %s kr_%s" % (nm, kr), "decrypt", cfg, "in.ct", data, {"in.ct": data, "kr": mw.kr[kr]}, to=to,
                                    keyring="kr", pw=mw.pw[to], tags=["model:decrypt-" + nm]))
    for j, cfg in enumerate(MW4[:2] if not ctx.thorough() else MW4):
        cases.append(wired_case("decrypt wrong-password kr_full", "decrypt", cfg, "in.ct", mw.ct, {"in.ct": mw.ct, "kr": mw.kr["full"]}, to="bob",
                                keyring="kr", pw=b"not the password", tags=["model:decrypt-wrong-password"]))
        cases.append(wired_case("encrypt wrong-password", "encrypt", MW4[3 - j], "pt", mw.plain, {"pt": mw.plain, "kr": mw.kr["full"]}, to="bob",
                                frm="alice", keyring="kr", pw=b"not the password", rnd=mw.rnd, tags=["model:encrypt-wrong-password"]))
    for j, cfg in enumerate(MW4[:2] if not ctx.thorough() else MW4):
        cases.append(wired_case("encrypt", "encrypt", cfg, "pt", mw.plain, {"pt": mw.plain, "kr": mw.kr["full"]}, to="bob", frm="alice",
                                keyring="kr", pw=mw.pw["alice"], rnd=ctx.rbytes(64), tags=["model:encrypt"]))
    pcfg = [dict(c, kr="k") for c in MW4]
    cases.append(wired_case("password encrypt", "pass-encrypt", pcfg[1], "pt", mw.plain, {"pt": mw.plain}, pw=mw.passpw, rnd=ctx.rbytes(32),
                            tags=["model:pass-encrypt"]))
    # KESTREL_NEW_PASSWORD set as well, to another value: only change-pass reads it (Cli.v::confirm_password reads env_password)
    for cfg in (pcfg[0], pcfg[3]):
        c = wired_case("password encrypt, KESTREL_NEW_PASSWORD also set", "pass-encrypt", cfg, "pt", mw.plain, {"pt": mw.plain}, pw=mw.passpw,
                       rnd=ctx.rbytes(32), tags=["model:both-password-variables"])
        c.a["npw"] = DECOY_NEW_PASSWORD.hex()
        cases.append(c)
    c = wired_case("encrypt, KESTREL_NEW_PASSWORD also set", "encrypt", MW4[0], "pt", mw.plain, {"pt": mw.plain, "kr": mw.kr["full"]}, to="bob",
                   frm="alice", keyring="kr", pw=mw.pw["alice"], rnd=ctx.rbytes(64), tags=["model:both-password-variables"])
    c.a["npw"] = DECOY_NEW_PASSWORD.hex()
    cases.append(c)
    for j, (nm, data, pw) in enumerate([("valid", mw.pct, mw.passpw), ("valid", mw.pct, mw.passpw), ("wrong-password", mw.pct, b"other"),
                                        ("bad-chunk1", mw.pct_bad1, mw.passpw), ("key-file", mw.ct, mw.passpw)]):
        cases.append(wired_case("password decrypt %s" % nm, "pass-decrypt", pcfg[j % 4], "in.ct", data, {"in.ct": data}, pw=pw,
                                tags=["model:pass-decrypt-" + nm]))
    # an authentic file followed by one byte / by a copy of its only record, both modes
    for nm, data, cmd, to, pw in (("valid + 1 byte", mw.ct + b"\x00", "decrypt", "bob", mw.pw["bob"]),
                                  ("valid + copy of the last record", mw.ct + mw.ct[HDR:], "decrypt", "bob", mw.pw["bob"]),
                                  ("valid + 1 byte", mw.pct + b"\x00", "pass-decrypt", None, mw.passpw),
                                  ("valid + copy of the last record", mw.pct + mw.pct[PHDR:], "pass-decrypt", None, mw.passpw)):
        for cfg in (MW4[0], MW4[1]):
            cfg = cfg if to else dict(cfg, kr="k")
            cases.append(wired_case("%s %s" % (cmd, nm), cmd, cfg, "in.ct", data, dict({"in.ct": data}, **({"kr": mw.kr["first"]} if to else {})),
                                    to=to, keyring="kr" if to else None, pw=pw, tags=["model:trailing-data"]))
    # -k and KESTREL_KEYRING together: the option names the keyring (Cli.v::keyring_path)
    renamed = key_block(b"zed", mw.pub["alice"]) + b"\n" + mw.block["bob"] + b"\n" + mw.block["carol"]
    D = ["decrypt", "in.ct", "-t", "bob", "-o", "out", "--env-pass"]
    for lbl, kfile, envkr, fs in (("-k first, variable renamed", "kr1", "kr2", {"kr1": mw.kr["first"], "kr2": renamed}),
                                  ("-k renamed, variable first", "kr2", "kr1", {"kr1": mw.kr["first"], "kr2": renamed}),
                                  ("-k first, variable missing file", "kr1", "nokr", {"kr1": mw.kr["first"]}),
                                  ("-k first, variable malformed", "kr1", "junk", {"kr1": mw.kr["first"], "junk": b"not a keyring\n"}),
                                  ("-k missing file, variable first", "nokr", "kr1", {"kr1": mw.kr["first"]}),
                                  ("-k malformed, variable first", "junk", "kr1", {"kr1": mw.kr["first"], "junk": b"not a keyring\n"})):
        for opt_ in (["-k", kfile], ["--keyring=" + kfile]):
            cases.append(CliCase("decrypt valid, " + lbl, D + opt_, dict({"in.ct": mw.ct}, **fs), pw=mw.pw["bob"], keyring_env=envkr, watch=["out"],
                                 tags=["model:keyring-option-and-variable"], oracle=no_stray))
    cases.append(CliCase("help", ["--help"], {}, tags=["model:help"]))
    cases.append(CliCase("version", ["-v"], {}, tags=["model:version"]))
    return cases


C12_MODEL_TARGETS = ["dev-null", "dev-stdout-pipe", "proc-self-fd-1-pipe", "fifo-with-reader", "stdout-to-file", "dev-stdout-to-file",
                     "symlink-to-absent", "regular-existing", "absolute-path", "existing-subdirectory", "symlink-to-dev-null"]


def c12_target_model_cases(ctx, mw):
    """the CLI model knows one kind of output file (a name in a flat world) and stdout.  Here the REAL run sends its output to
    another kind of target (device, pipe, FIFO with a reader, link, redirected stdout) while the model is evaluated on the
    plain wiring (-o out, or stdout): it must predict the exit status, the message class and the bytes that ARRIVE at the
    target, because the result does not depend on how the output is wired.  The cases come back executed."""
    rng = ctx.rng
    ops = [("decrypt valid", "decrypt", "in.ct", mw.ct, {"kr": mw.kr["first"]}, "bob", None, mw.pw["bob"], b""),
           ("decrypt valid, sender absent", "decrypt", "in.ct", mw.ct, {"kr": mw.kr["absent"]}, "bob", None, mw.pw["bob"], b""),
           ("decrypt bad-chunk1", "decrypt", "in.ct", mw.ct_bad1, {"kr": mw.kr["last"]}, "bob", None, mw.pw["bob"], b""),
           ("decrypt wrong-password", "decrypt", "in.ct", mw.ct, {"kr": mw.kr["full"]}, "bob", None, b"not the password", b""),
           ("password decrypt valid", "pass-decrypt", "in.ct", mw.pct, {}, None, None, mw.passpw, b""),
           ("password decrypt wrong-password", "pass-decrypt", "in.ct", mw.pct, {}, None, None, b"other", b""),
           ("encrypt", "encrypt", "pt", mw.plain, {"kr": mw.kr["full"]}, "bob", "alice", mw.pw["alice"], ctx.rbytes(64)),
           ("password encrypt", "pass-encrypt", "pt", mw.plain, {}, None, None, mw.passpw, ctx.rbytes(32))]
    combos = [(op, t) for t in C12_MODEL_TARGETS for op in ops]
    if not ctx.thorough():
        combos = [(rng.choice(ops[:2] + ops[4:5] + ops[6:]), t) for t in C12_MODEL_TARGETS] + [(rng.choice(ops[2:4] + ops[5:6]), rng.choice(C12_MODEL_TARGETS)) for _ in range(2)]
    cases = []
    for (lbl, cmd, infile, data, files, to, frm, pw, rnd), t in combos:
        spell = rng.choice(["long", "short", "eq", "dash1"])
        cfg = {"inp": "arg", "out": "stdout", "kr": "k", "spell": spell, "alias": rng.random() < 0.5, "first": True}
        argv, env, _ = wire(cmd, cfg, infile, None, to=to, frm=frm, keyring="kr" if to else None, pw=None)
        to_stdout = t == "stdout-to-file"
        fs = dict(files)
        fs[infile] = data
        pre = SENTINEL if t == "regular-existing" else None
        if pre is not None:
            fs["out"] = pre
        c = CliCase("%s, real output target %s" % (lbl, t), argv + ([] if to_stdout else opt(spell, "output", "out")), fs, pw=pw, rnd=rnd,
                    watch=[], tags=["model:output-target-" + t])
        c.a["watch"] = [] if (to_stdout or "dev-null" in t) else ["out"]
        c.a["target"], c.a["real_argv"], c.a["spell"] = t, argv, spell
        cases.append(c)
    help_txt, ver_txt = cli_texts()
    prop = props.REGISTRY["C12"]

    def one(ic):
        i, c = ic
        w = World(prefix="kv_tgm_")
        try:
            for k, v in c.files().items():
                if not (k == "out" and c.a["target"] == "regular-existing"):
                    w.write(k, v)
            r = prop.target_one(w, {"i": i, "argv": c.a["real_argv"], "env": c.env(), "target": c.a["target"], "spell": c.a["spell"],
                                    "plain": None, "nbytes": 0})
        finally:
            w.close()
        run, arrived = r["run"], r["arrived"]
        code, text = classify_run(run.argv, run.rc, run.out, run.err, help_txt, ver_txt)
        rc = run.rc if run.rc >= 0 else 1000 - run.rc
        if c.a["target"] == "stdout-to-file":
            out, after = arrived, {}
        else:
            out = r["stray"]
            # the model's "file out exists": something arrived, or the run succeeded (an empty output still creates its file);
            # a failed run onto an existing file leaves its content (read back through the path)
            after = {"out": arrived} if (arrived is not None and (rc == 0 or arrived != b"")) else {}
        c.result = {"id": None, "code": code, "outcome": "exit%d:class%d" % (rc, code), "out": out, "consumed": rc, "trace": [],
                    "extra": render_paths(after, c.a["watch"]) + text, "entries": None, "msg": "", "after": after, "stray": [],
                    "raw": "exit=%d class=%d target=%s arrived=%s stderr=%r note=%r" % (rc, code, c.a["target"], "?" if arrived is None else len(arrived),
                                                                                 run.errtext()[-200:], r.get("note"))}
    with ThreadPoolExecutor(max_workers=NPROC) as ex:
        list(ex.map(one, list(enumerate(cases))))
    return cases


def c13_model_cases(ctx, mw):
    zero, low8 = cli_ops(["pk_encode " + "00" * 32, "pk_encode e0eb7a7c3b41b8ae1656e3faf19fc46ada098deb9c32b1fd866205165f49b800"])
    bad = bytearray(mw.dave_pub)
    bad[-1] = ord("A") if bad[-1] != ord("A") else ord("B")
    kr = mw.kr["full"] + b"\n" + key_block(b"dave", mw.dave_pub) + b"\n" + key_block(b"zero", unhex(zero["out"])) + b"\n" + key_block(b"badck", bytes(bad))
    A, Bp = mw.pw["alice"], mw.pw["bob"]
    ct, pct = mw.ct, mw.pct
    fl = lambda b, off: b[:off] + bytes([b[off] ^ 0x01]) + b[off + 1:]
    base = {"kr": kr, "pt": mw.plain, "ct": ct, "pct": pct}
    D = ["decrypt", "ct", "-t", "bob", "-o", "out", "-k", "kr", "--env-pass"]
    E = ["encrypt", "pt", "-t", "bob", "-f", "alice", "-o", "out", "-k", "kr", "--env-pass"]
    sub = lambda argv, a, b: [b if x == a else x for x in argv]
    L = [  # (class, argv, files override, pw, stdin, rnd)
        ("bad-arguments", [x for x in D if x not in ("-t", "bob")], {}, Bp, b"", b""),
        ("bad-arguments:--from", D + ["--from", "alice"], {}, Bp, b"", b""),
        ("input=output", sub(D, "ct", "out"), {}, Bp, b"", b""),
        ("missing-input", sub(D, "ct", "nofile"), {}, Bp, b"", b""),
        ("keyring-unspecified", [x for x in D if x not in ("-k", "kr")], {}, Bp, b"", b""),
        ("keyring-missing", sub(D, "kr", "nokr"), {}, Bp, b"", b""),
        ("keyring-malformed", D, {"kr": b"this is not a keyring\n"}, Bp, b"", b""),
        ("keyring-duplicate-name", D, {"kr": mw.kr["full"] + b"\n" + mw.block["alice"]}, Bp, b"", b""),
        ("keyring-not-utf8", D, {"kr": kr + b"# caf\xe9\n"}, Bp, b"", b""),
        ("unknown-key-name", sub(D, "bob", "nobody"), {}, Bp, b"", b""),
        ("missing-private-key", sub(D, "bob", "dave"), {}, Bp, b"", b""),
        ("bad-public-key-checksum", sub(E, "bob", "badck"), {}, A, b"", mw.rnd),
        ("wrong-password", D, {}, b"not the password", b"", b""),
        ("unset-password-variable", D, {}, None, b"", b""),
        ("no-terminal", D[:-1], {}, Bp, b"", b""),
        ("wrong-header:junk", D, {"ct": ctx.rbytes(300)}, Bp, b"", b""),
        ("wrong-header:empty", D, {"ct": b""}, Bp, b"", b""),
        ("wrong-header:other-mode", D, {"ct": pct}, Bp, b"", b""),
        ("corrupted-header", D, {"ct": fl(ct, 50)}, Bp, b"", b""),
        ("truncated-header", D, {"ct": ct[:100]}, Bp, b"", b""),
        ("corrupted-first-chunk", D, {"ct": mw.ct_bad1}, Bp, b"", b""),
        ("corrupted-first-chunk:length", D, {"ct": fl(ct, HDR + 13)}, Bp, b"", b""),
        ("truncated-first-chunk", D, {"ct": ct[:HDR + 16 + 40]}, Bp, b"", b""),
        ("appended-data", D, {"ct": ct + b"x"}, Bp, b"", b""),
        ("refused-key-exchange:decrypt", D, {"ct": ct[:4] + bytes(32) + ct[36:]}, Bp, b"", b""),
        ("refused-key-exchange:encrypt", sub(E, "bob", "zero"), {}, A, b"", mw.rnd),
        ("encrypt:unknown-sender", sub(E, "alice", "nobody"), {}, A, b"", mw.rnd),
        ("encrypt:sender-without-private-key", sub(E, "alice", "dave"), {}, A, b"", mw.rnd),
        ("encrypt:wrong-password", E, {}, b"nope", b"", mw.rnd),
        ("pass-encrypt:unset-password", ["password", "encrypt", "pt", "-o", "out", "--env-pass"], {}, None, b"", mw.rnd[:32]),
        ("pass-decrypt:wrong-password", ["pass", "dec", "pct", "-o", "out", "--env-pass"], {}, b"nope", b"", b""),
        ("pass-decrypt:key-file", ["pass", "dec", "ct", "-o", "out", "--env-pass"], {}, mw.passpw, b"", b""),
        ("pass-decrypt:truncated", ["pass", "dec", "pct", "-o", "out", "--env-pass"], {"pct": pct[:PHDR + 20]}, mw.passpw, b"", b""),
        ("pass-decrypt:appended-data", ["pass", "dec", "pct", "-o", "out", "--env-pass"], {"pct": pct + b"x"}, mw.passpw, b"", b""),
        ("pass-decrypt:appended-record", ["pass", "dec", "pct", "-o", "out", "--env-pass"], {"pct": pct + pct[PHDR:]}, mw.passpw, b"", b""),
        ("appended-record", D, {"ct": ct + ct[HDR:]}, Bp, b"", b""),
        ("missing-input:empty path", sub(D, "ct", ""), {}, Bp, b"", b""),
        ("missing-input:path ending in ..", sub(D, "ct", "nodir/.."), {}, Bp, b"", b""),
        ("generate:invalid-name", ["key", "generate", "-o", "out", "--env-pass"], {}, b"pw", b"  \t \n", mw.rnd),
        ("generate:name-129-bytes", ["key", "gen", "-o", "out", "--env-pass"], {}, b"pw", "\u00e9".encode("utf-8") * 64 + b"a\n", mw.rnd),
        ("generate:name-with-tab", ["key", "gen", "-o", "out", "--env-pass"], {}, b"pw", b"a\tb\n", mw.rnd),
        ("generate:name-not-utf8", ["key", "gen", "-o", "out", "--env-pass"], {}, b"pw", b"caf\xe9\n", mw.rnd),
        ("generate:unset-password", ["key", "generate", "-o", "out", "--env-pass"], {}, None, b"newkey\n", mw.rnd),
        ("generate:bad-option", ["key", "generate", "-o", "out", "--bogus"], {}, b"pw", b"newkey\n", mw.rnd),
    ]
    cases = []
    for (cls, argv, over, pw, sin, rnd) in L:
        for pre in (None, SENTINEL):
            fs = dict(base)
            fs.update(over)
            if pre is not None:
                fs["out"] = pre
            if cls == "input=output" and pre is None:
                pass          # the path named twice does not exist: the program reports the same-path error first all the same
            want = pre

            def untouched(r, want=want):
                got = r["after"].get("out")
                if got != want:
                    return ("a failed command leaves the output path untouched (%s)" % ("absent" if want is None else "%d bytes" % len(want)),
                            "absent" if got is None else "%d bytes" % len(got))
                if r["consumed"] != 1:
                    return ("the command fails with exit 1", "exit %d" % r["consumed"])
                return no_stray(r)
            cases.append(CliCase("%s, output path %s" % (cls, "absent" if pre is None else "sentinel"), argv, fs, pw=pw, stdin=sin, rnd=rnd,
                                 watch=["out"], tags=["model:" + cls.split(":")[0]], oracle=untouched))
    # the same failures with an -o path whose parent directories do not exist: the model's world is unchanged (nothing is created:
    # the run directory must afterwards hold its files and NOTHING else, no directory either)
    deep = ["nd/out", "nd/a/b/out", "nd/../out", "./nd/./out"]
    for (cls, argv, over, pw, sin, rnd) in (L if ctx.thorough() else ctx.rng.sample(L, 8)):
        o = ctx.rng.choice(deep)
        if "out" not in argv:
            continue
        fs = dict(base)
        fs.update(over)

        def nothing(r, o=o):
            if r["consumed"] != 1:
                return ("the command fails with exit 1", "exit %d" % r["consumed"])
            if r.get("stray"):
                return ("a failed command creates nothing, whatever the shape of the -o path (%s): no file, no directory" % o,
                        "new entries %r" % r["stray"])
            return None
        cases.append(CliCase("%s, output path %s (no such directory)" % (cls, o), sub(argv, "out", o), fs, pw=pw, stdin=sin, rnd=rnd,
                             watch=[o], tags=["model:missing-parent-directory"], oracle=nothing))
    return cases


def c14_model_cases(ctx, mw, root):
    """histories of key generate -o F, each step started from the REAL file the previous step left"""
    rng = ctx.rng
    b1 = mw.block["alice"]
    states = [("absent", None), ("empty", b""), ("one-key-newline", b1), ("one-key-no-newline", b1[:-1])]
    if ctx.thorough():
        states += [("two-keys", b1 + b"\n" + mw.block["bob"]), ("comments", b"# keys\n\n" + b1 + b"\n# end\n")]
    lens = [1, 2, 3, 2, 3, 1]
    H = []
    for i, (nm, init) in enumerate(states):
        names = rng.sample(["n1", "Bob B", "k\u00e9y \U0001F511", "x=y", "e" * 128, "# h"], lens[i])
        H.append({"state": nm, "files": {} if init is None else {"F": init}, "names": names,
                  "pws": [rng.choice(PROC_PASSWORDS) for _ in names]})
    # the prompt answered the way users and scripts answer it: names with Unicode blanks inside, white space (ASCII and Unicode)
    # around them, LF / CRLF / no line end, further lines behind the first (ask_user_stdin = trim (take_line stdin))
    ends = [b"\n", b"\r\n", b"", b"\nsecond line\nthird\n", b"\r\nbob@example.org\r\n", "\n\u3000\n".encode("utf-8")]
    for i, (nm, init) in enumerate(states[:4] if ctx.thorough() else [states[0], states[2]]):
        names = blank_names(rng, 2)
        H.append({"state": nm + ", prompt answered with blanks", "files": {} if init is None else {"F": init}, "names": names,
                  "stdin": [pad_ws(rng, n_).encode("utf-8") + ends[(2 * i + k) % len(ends)] for k, n_ in enumerate(names)],
                  "pws": [rng.choice(PROC_PASSWORDS) for _ in names]})
    out = []
    for step in range(3):
        batch = []
        for h in H:
            if step < len(h["names"]):
                c = CliCase("generate #%d into F, initially %s" % (step + 1, h["state"]), ["key", "generate", "-o", "F", "--env-pass"],
                            h["files"], pw=h["pws"][step], npw=(DECOY_NEW_PASSWORD if step % 2 == 0 else None),
                            stdin=(h["stdin"][step] if "stdin" in h else h["names"][step].encode("utf-8") + b"\n"), rnd=ctx.rbytes(64), watch=["F"],
                            tags=["model:generate-%s" % h["state"]], oracle=no_stray)
                batch.append((h, c))
        exec_cli_cases([c for _, c in batch], os.path.join(root, "s%d" % step))
        for h, c in batch:
            f = c.result["after"].get("F")
            h["files"] = {} if f is None else {"F": f}
            out.append(c)
    return out


def c16_model_cases(ctx, mw):
    S, pw = mw.locked["alice"].decode(), mw.pw["alice"]
    CP = ["key", "change-pass", S, "--env-pass"]
    XP = ["key", "extract-pub", S, "--env-pass"]
    L = [("change-pass", CP, pw, b"new password ", ctx.rbytes(32)),
         ("change-pass to trailing U+3000", CP, pw, "wide\u3000".encode("utf-8"), ctx.rbytes(32)),
         ("change-pass to empty", ["key", "change-pass", "--env-pass", S], pw, b"", ctx.rbytes(32)),
         ("change-pass wrong old password", CP, b"wrong", b"new", ctx.rbytes(32)),
         ("change-pass unset new password", CP, pw, None, ctx.rbytes(32)),
         ("change-pass unset password", CP, None, b"new", ctx.rbytes(32)),
         ("change-pass malformed key", ["key", "change-pass", S[:-4], "--env-pass"], pw, b"new", ctx.rbytes(32)),
         ("change-pass not base64", ["key", "change-pass", "!!" + S[2:], "--env-pass"], pw, b"new", ctx.rbytes(32)),
         ("change-pass other version", ["key", "change-pass", base64.b64encode(b"egk1" + b64_lenient(mw.locked["alice"])[4:]).decode(), "--env-pass"],
          pw, b"new", ctx.rbytes(32)),
         ("change-pass no key", ["key", "change-pass", "--env-pass"], pw, b"new", ctx.rbytes(32)),
         ("change-pass no terminal", ["key", "change-pass", S], pw, b"new", ctx.rbytes(32)),
         ("extract-pub", XP, pw, None, b""),
         ("extract-pub wrong password", XP, b"pw-alice ", None, b""),
         ("extract-pub malformed key", ["key", "extract-pub", "ZWdrMA", "--env-pass"], pw, None, b""),
         ("extract-pub two keys", XP + [S], pw, None, b""),
         ("generate to stdout", ["key", "gen", "--env-pass"], b"gen pw\t", None, ctx.rbytes(64)),
         ("generate to stdout, KESTREL_NEW_PASSWORD also set", ["key", "generate", "--env-pass"], b"gen pw", DECOY_NEW_PASSWORD, ctx.rbytes(64))]
    return [CliCase(lbl, argv, {}, pw=p, npw=n, stdin=(b"fresh key\n" if argv[1] in ("gen", "generate") else b""), rnd=r,
                    tags=["model:" + " ".join(lbl.split()[:1])], oracle=no_stray) for (lbl, argv, p, n, r) in L]


def model_cli_part(ctx, build):
    """build(ctx, mw, root) -> executed-or-not CliCases; runs the processes still missing, then the model comparison"""
    root = tempfile.mkdtemp(prefix="kv_model_", dir="/tmp")
    try:
        mw = ModelWorld(ctx)
        cases = build(ctx, mw, root)
        todo = [c for c in cases if c.result is None]
        if todo:
            exec_cli_cases(todo, os.path.join(root, "x"))
        k_run_cases(ctx, cases, model=True, prelude=cli_prelude(), tag=ctx.pid + "m")
        ctx.distribution["model:cli-runs-compared"] = ctx.distribution.get("model:cli-runs-compared", 0) + len(cases)
    finally:
        shutil.rmtree(root, ignore_errors=True)


def model_expect_case(ctx, case):
    """what Model/CliGlue.v::real_cli_main says about one CliCase: dict(status, exit, stdout, extra) or None"""
    case.id = "1"
    table = kdf_table_par(ctx.bin, [case])
    if case.result is None:
        case.result = {"code": 0, "out": b"", "consumed": 0, "trace": [], "extra": b""}
    shown = vlib.run_model([case], table, ctx.pid + "e", extra_import=MODEL_IMPORT, prelude=cli_prelude(), show=True)
    import re
    m = re.match(r'\s*(\d+),\s*"([0-9a-fA-F]*)",\s*(\d+),\s*\[.*?\],\s*"([0-9a-fA-F]*)"', shown.get("1", ""))
    if not m:
        return None
    return {"status": int(m.group(1)), "exit": int(m.group(3)), "stdout": bytes.fromhex(m.group(2)), "extra": bytes.fromhex(m.group(4))}


# =========================================================================== EVERY process run of the direct-oracle matrices vs the CLI model
# (mx_*).  The process-running helpers (World.run, kvc_run, run_fed, run_with_stdout, the non-UTF-8 runs) call mx_begin /
# mx_end when the world carries a log (w.mx_log = []): what the model needs is RECORDED per run -- argv, the KESTREL_ variables,
# the stdin bytes, the part of the file-system tree the run can name (every path string among its arguments and variables,
# walked component by component; the whole tree when the run has a private working directory) before and after, exit code,
# stdout, stderr.  mx_compare turns the records into MxCase objects (a KvwCase: the existing tree-world encoder) and evaluates
# them through vlib.run_model in shards.  Runs the model's world cannot express, or whose data would cost minutes in vm_compute,
# are NOT compared and are counted by reason (model-skipped:<reason>); nothing is excluded silently.
MX_DATA_MAX = 6144             # input stream of a run that reaches the library (bytes): above, no model evaluation
MX_WORLD_MAX = 16 * 1024       # everything the run can name, together (a 264 KiB world costs 38 s and 2.3 GB in coqc: the literal)
MX_STREAM_CLASSES = set([0, 3, 4, 61, 62, 63, 64, 71, 72, 73, 74, 75, 78, 79, 80, 90, 91, 1])   # the library ran over the input
MX_BASE_POINT = bytes([9]) + bytes(31)
# estimated CPU seconds of coqc (quick-tier budget), calibrated on the evidence of C12 / C13 / C14 (estimate ~ measured cpu-seconds:model-matrix)
MX_COST_DH = 3.0               # an X25519 with what hangs on it
MX_COST_BYTE = 0.0004          # a byte of the input stream through ChaCha20-Poly1305
MX_COST_CASE = 0.12
MX_COST_WORLD_BYTE = 0.00004   # a byte of the hex literals: the world, and the observed tree (superlinear far above the 16 KiB bound)


def mx_walk(R, tok, nodes, notes):
    """what the path string `tok` names for a process whose working directory is R, component by component the way the kernel
    walks it, nothing followed: every existing directory and the regular file at the end are registered in `nodes` (path
    relative to R -> bytes | None for a directory); a link, FIFO or device on the way, or an existing node outside R that is
    not one of R's ancestors, is noted (the model's world is the tree below R plus R's ancestors)."""
    import stat as _st
    if not tok or "\x00" in tok:
        return
    cur = "/" if tok.startswith("/") else R
    for c in tok.split("/"):
        if c in ("", "."):
            continue
        if c == "..":
            cur = os.path.dirname(cur)
            continue
        nxt = os.path.join(cur, c)
        try:
            st = os.lstat(nxt)
        except (OSError, ValueError):
            return
        inside = nxt.startswith(R + "/")
        above = nxt == R or R.startswith(nxt + "/")
        if _st.S_ISDIR(st.st_mode):
            if inside:
                nodes[nxt[len(R) + 1:]] = None
            elif not above:
                notes.append("outside")
            cur = nxt
            continue
        if _st.S_ISREG(st.st_mode):
            if inside:
                try:
                    with open(nxt, "rb") as f:
                        nodes[nxt[len(R) + 1:]] = f.read()
                except OSError:
                    notes.append("special:unreadable")
            else:
                notes.append("outside")
            return
        kind = ("symlink" if _st.S_ISLNK(st.st_mode) else "fifo" if _st.S_ISFIFO(st.st_mode) else
                "character-device" if _st.S_ISCHR(st.st_mode) else "other")
        notes.append("special:" + kind)
        return


def mx_tokens(argv, env):
    toks = []
    for a in list(argv) + [env.get("KESTREL_KEYRING") or ""]:
        for t in ((a, a.split("=", 1)[1]) if "=" in a else (a,)):
            if t and t not in toks:
                toks.append(t)
    return toks


def mx_state(rec):
    """the tree the run can see below its working directory: relative path -> bytes | None (directory) | ('other', kind)"""
    nodes, notes = {}, []
    if rec["private"]:
        for k, v in kvw_read_tree(rec["R"]).items():
            nodes[k] = v
            if isinstance(v, tuple):
                notes.append("special:" + str(v[1]))
    for t in rec["tokens"]:
        mx_walk(rec["R"], t, nodes, notes)
    return nodes, notes


def mx_begin(w, site, argv, env, stdin, cwd=None, captured=True):
    """called by the process-running helpers before a run: None when the world records nothing"""
    log = getattr(w, "mx_log", None)
    if log is None:
        return None
    rec = {"log": log, "site": site, "argv": list(argv), "skip": None, "R": cwd or w.dir, "private": bool(cwd) and cwd != w.dir,
           "captured": captured}
    try:
        env = dict(env or {})
        if not all(isinstance(a, str) for a in argv):
            rec["skip"] = "argv-not-text"
            return rec
        try:
            for a in argv:
                a.encode("utf-8")
        except UnicodeError:
            rec["skip"] = "argv-not-text"
            return rec
        if not all(isinstance(k, str) and isinstance(v, str) for k, v in env.items()):
            rec["skip"] = "environment-not-utf8"
            return rec
        rec["env"] = {k: v for k, v in env.items() if k.startswith("KESTREL_")}
        if stdin is None:
            rec["stdin"] = b""
        elif isinstance(stdin, tuple):
            with open(os.path.join(w.dir, stdin[1]), "rb") as f:
                rec["stdin"] = f.read()
        else:
            rec["stdin"] = bytes(stdin)
        rec["tokens"] = mx_tokens(rec["argv"], rec["env"])
        rec["before"], rec["notes"] = mx_state(rec)
    except Exception as ex:                                   # the recorder must never disturb the direct checks
        rec["skip"] = "recorder-error:" + type(ex).__name__
    return rec


def mx_end(rec, rc, out, err):
    if rec is None:
        return
    rec["rc"], rec["out"], rec["err"] = rc, out or b"", err or b""
    if rec["skip"] is None:
        try:
            rec["after"], notes = mx_state(rec)
            rec["notes"] = rec["notes"] + notes
        except Exception as ex:
            rec["skip"] = "recorder-error:" + type(ex).__name__
    rec.pop("log").append(rec)


MX_OPT_NAMES = {"t": "to", "to": "to", "f": "from", "from": "from", "o": "output", "output": "output", "k": "keyring", "keyring": "keyring"}


def mx_scan(argv):
    """a tolerant reading of an argument vector the generators build: command class, option values, positional arguments.  It only
    chooses what to PRECOMPUTE (X25519 memo entries, which random bytes can be recovered from the output): a wrong guess costs
    evaluation time or turns an exact comparison into a lengths-only one, it cannot make a comparison pass."""
    import re
    a = list(argv)
    cmd, i = None, 1
    if a[:1] and a[0] in ("encrypt", "enc"):
        cmd = "enc"
    elif a[:1] and a[0] in ("decrypt", "dec"):
        cmd = "dec"
    elif len(a) >= 2 and a[0] in ("password", "pass") and a[1] in ("encrypt", "enc", "decrypt", "dec"):
        cmd, i = ("penc" if a[1].startswith("enc") else "pdec"), 2
    elif len(a) >= 2 and a[0] == "key" and a[1] in ("generate", "gen", "change-pass", "extract-pub"):
        cmd, i = {"generate": "gen", "gen": "gen", "change-pass": "chpass", "extract-pub": "xpub"}[a[1]], 2
    opts, pos = {}, []
    while i < len(a):
        m = re.match(r"^--?([a-z]+)(?:=(.*))?$", a[i], re.S)
        if m and m.group(1) in MX_OPT_NAMES:
            if m.group(2) is not None:
                opts[MX_OPT_NAMES[m.group(1)]] = m.group(2)
            elif i + 1 < len(a):
                opts[MX_OPT_NAMES[m.group(1)]] = a[i + 1]
                i += 1
        elif not a[i].startswith("-"):
            pos.append(a[i])
        i += 1
    return cmd, opts, pos


def mx_lookup(nodes, path):
    """the regular file a simple relative path string names in a recorded state (None: not a plain file there)"""
    if not path or path.startswith("/"):
        return None
    v = nodes.get(os.path.normpath(path))
    return v if isinstance(v, bytes) else None


def mx_keyring_entries(data):
    out, cur = [], None
    for line in data.decode("utf-8", "replace").split("\n"):
        l = rust_trim(line)
        if l == "[Key]":
            cur = {}
            out.append(cur)
        elif cur is not None and "=" in l and not l.startswith("#"):
            k, v = l.split("=", 1)
            cur.setdefault(rust_trim(k), rust_trim(v))
    return out


def mx_pub32(enc):
    d = b64_lenient(enc.encode("utf-8") if isinstance(enc, str) else enc)
    return d[:32] if d is not None and len(d) == 36 else None


def mx_locked_salt(s):
    d = b64_lenient(s.encode("utf-8") if isinstance(s, str) else s)
    return d[4:36] if d is not None and len(d) == 84 else None


class MxCase(KvwCase):
    """a RECORDED process run as a tree-world case: rundir = the working directory of the real run.  The model term is the one of
    KvwCase with the batch runner of Run/RunCli.v (X25519 memo table DH, lengths-only flag)."""

    def model_term(self):
        t = KvwCase.model_term(self)
        head = "run_cli_tree T "
        assert t.startswith(head)
        return "run_cli_tree_x T DH %s %s" % ("true" if self.a.get("mask") else "false", t[len(head):])

    def kdf_need(self):
        a = self.a
        pws = [bytes.fromhex(x) for x in (a["pw"], a["npw"]) if x is not None]
        rnd = bytes.fromhex(a["rnd"])
        if mx_scan(a["argv"])[0] == "gen":
            # key generate locks the new key under (KESTREL_PASSWORD, the second block drawn) and unlocks nothing: the keys already
            # in the file are not looked at (a missing table entry would show as a disagreement, not pass)
            return [(p, rnd[i:i + 32]) for p in pws[:1] for i in (0, 32) if len(rnd) >= i + 32]
        need = CliCase.kdf_need(self)
        sin = bytes.fromhex(a["stdin"])
        if sin[:3] == b"egk" and len(sin) >= 36:
            need += [(p, sin[4:36]) for p in pws]
        return need

    def describe(self):
        d = KvwCase.describe(self)
        d["recorded_run_of"] = self.a.get("matrix")
        return d


def mx_matrix(names):
    """recorded run -> name of the matrix it belongs to: by the helper that ran it (names: site -> matrix), the runs that build
    the world (key generate / encryptions into ct_* / pct_*) and the fixed-wiring decryptions of what a run produced apart"""
    def f(rec):
        m = names.get(rec["site"], rec["site"])
        if rec["site"] != "run" or not names.get("setup"):
            return m
        cmd, opts, pos = mx_scan(rec["argv"])
        o = opts.get("output") or ""
        if o.startswith(("ct_", "pct_")) or (cmd == "gen" and names["setup"] == "gen" and not o):
            return "world-setup"
        if o.endswith(".pt") or (pos and pos[0].startswith("tg_")):
            return m + "-follow-up-decrypt"
        return m
    return f


def mx_prepare(rec):
    """skip reason or None; fills rec['code'], rec['text'], rec['cmd'] ..."""
    if rec["skip"]:
        return rec["skip"].split(":")[0] if rec["skip"].startswith("recorder-error") else rec["skip"]
    if rec["rc"] == 124 and b"[timeout]" in rec["err"]:
        return "timeout"
    if not rec["captured"]:
        return "stdout-not-captured"
    for n in rec["notes"]:
        if n.startswith("special:"):
            return "special-file:" + n.split(":", 1)[1]
    if "outside" in rec["notes"]:
        return "path-outside-run-directory"
    for k, v in list(rec["before"].items()) + list(rec["after"].items()):
        if isinstance(v, tuple):
            return "special-file:" + str(v[1])
    help_txt, ver_txt = cli_texts()
    rec["code"], rec["text"] = kvw_classify(rec["argv"], rec["rc"], rec["out"], rec["err"], help_txt, ver_txt)
    if rec["code"] in (3, 4):
        # the sender's name / key as PRINTED, up to the line feed: classify_run cuts stderr with str.splitlines, which also
        # breaks at U+001C..U+001E, U+0085, U+2028, U+2029 and VT / FF -- characters a key name may contain
        pre = "Success. File from: " if rec["code"] == 3 else "Unknown key: "
        for l in rec["err"].decode("utf-8", "replace").split("\n"):
            if l.startswith(pre):
                rec["text"] = l[len(pre):].encode("utf-8")
                break
    rec["cmd"], rec["opts"], rec["pos"] = mx_scan(rec["argv"])
    if rec["code"] in MX_STREAM_CLASSES and rec["cmd"] in ("enc", "dec", "penc", "pdec"):
        inp = mx_lookup(rec["before"], rec["pos"][0]) if rec["pos"] else rec["stdin"]
        rec["datalen"] = len(inp or b"")
        if rec["datalen"] > MX_DATA_MAX:
            return "data-over-%dKiB" % (MX_DATA_MAX // 1024)
    else:
        rec["datalen"] = 0
    sizes = [len(v) for v in rec["before"].values() if isinstance(v, bytes)] + [len(rec["stdin"])]
    if sum(sizes) > MX_WORLD_MAX:
        return "world-over-%dKiB" % (MX_WORLD_MAX // 1024)
    return None


def mx_product(rec):
    """the bytes a successful run produced: the -o file, or stdout"""
    o = rec["opts"].get("output")
    if o is None:
        return rec["out"]
    return mx_lookup(rec["after"], o)


def mx_keys_of(rec):
    """keyring entries the run consults and the locked private keys it would unlock: -> (entries, [(locked string, password)])"""
    kr = rec["opts"].get("keyring") or rec["env"].get("KESTREL_KEYRING")
    data = mx_lookup(rec["before"], kr) if kr else None
    ents = mx_keyring_entries(data) if data else []
    pw = rec["env"].get("KESTREL_PASSWORD")
    want = []
    if pw is not None:
        names = [rec["opts"].get("from") if rec["cmd"] == "enc" else rec["opts"].get("to")]
        for e in ents:
            if e.get("Name") in names and e.get("PrivateKey"):
                want.append((e["PrivateKey"], pw.encode("utf-8")))
                break
    return ents, want


def mx_compare(ctx, w, matrix_of, budget=None):
    """compare the recorded runs of world w with the CLI model.  matrix_of(rec) -> name of the matrix the run belongs to (for the
    evidence counters).  quick tier: a CPU budget (VERIF_MX_BUDGET seconds of wall time at VERIF_JOBS shards, default 60) decides
    how many of the runs that need an X25519 on a fresh key are evaluated exactly; thorough: everything that can be expressed."""
    import random as _random, resource as _resource
    t0 = time.time()
    cpu0 = _resource.getrusage(_resource.RUSAGE_CHILDREN)
    recs = list(getattr(w, "mx_log", None) or [])
    w.mx_log = None
    # the helpers run in threads: a canonical order, so that what a seed samples does not depend on scheduling
    recs.sort(key=lambda r: (r["site"], r["R"] if r["private"] else "", repr(r["argv"]), repr(sorted((r.get("env") or {}).items())),
                             hashlib.sha256(r.get("stdin") or b"").hexdigest()))
    dist = collections.Counter()
    rng = _random.Random(ctx.seed * 1000003 + 7919)
    fake = bytes(rng.getrandbits(8) for _ in range(64))
    todo = []
    for rec in recs:
        rec["matrix"] = matrix_of(rec)
        why = mx_prepare(rec)
        if why:
            dist["model-skipped:" + why] += 1
            dist["model-skipped-in:%s" % rec["matrix"]] += 1
        else:
            todo.append(rec)
    # ---- keys the runs unlock (memo KEYS only: the implementation's unlock tells which scalar the model will feed to X25519)
    asks = []
    for rec in todo:
        rec["ents"], rec["unlock"] = mx_keys_of(rec) if rec["cmd"] in ("enc", "dec") else ([], [])
        pw = rec["env"].get("KESTREL_PASSWORD")
        if rec["cmd"] == "xpub" and rec["pos"] and pw is not None:
            rec["unlock"] = [(rec["pos"][0], pw.encode("utf-8"))]
        if rec["cmd"] == "gen" and rec["rc"] == 0 and "KESTREL_VERIF_RANDOM" not in rec["env"] and pw is not None:
            prod = mx_product(rec) or b""
            locked = [l.split(b"=", 1)[1].strip() for l in prod.split(b"\n") if l.startswith(b"PrivateKey")]
            if locked:
                rec["gen_locked"] = locked[-1].decode("utf-8", "replace")
                rec["unlock"] = [(rec["gen_locked"], pw.encode("utf-8"))]
        for u in rec["unlock"]:
            if u not in asks:
                asks.append(u)
    unl = {}
    if asks:
        for u, r in zip(asks, cli_ops(["sk_unlock %s %s" % (hexs(s.encode("utf-8")), hexs(p)) for s, p in asks])):
            if r.get("outcome") == "ok":
                unl[u] = unhex(r["out"])
    # ---- who sent the files that decrypt (stderr of the successful runs), by ephemeral key: memo keys for the failing runs
    def eph_of(rec):
        inp = mx_lookup(rec["before"], rec["pos"][0]) if rec["pos"] else rec["stdin"]
        return inp[4:36] if inp and len(inp) >= 36 and inp[:4] == b"egk\x10" else None
    senders = {}
    for rec in todo:
        if rec["cmd"] == "dec" and rec["code"] in (3, 4) and eph_of(rec):
            pk = None
            if rec["code"] == 4:
                pk = mx_pub32(rec["text"])
            else:
                for e in rec["ents"]:
                    if e.get("Name", "").encode("utf-8") == rec["text"]:
                        pk = mx_pub32(e.get("PublicKey", ""))
            if pk:
                senders.setdefault(eph_of(rec), set()).add(pk)
    # ---- random bytes: injected | recovered from the output | a fixed stand-in (then nothing drawn may show: lengths only)
    for rec in todo:
        rec["mask"] = False
        inj = rec["env"].get("KESTREL_VERIF_RANDOM")
        rec["rnd"], rec["rnd_how"] = fake, "none-needed"
        if inj is not None:
            try:
                rec["rnd"], rec["rnd_how"] = bytes.fromhex(inj), "injected"
            except ValueError:
                pass
        elif rec["rc"] == 0 and rec["cmd"] == "penc":
            prod = mx_product(rec)
            if prod is not None and len(prod) >= 36:
                rec["rnd"], rec["rnd_how"] = prod[4:36], "recovered"
            else:
                rec["mask"], rec["rnd_how"] = True, "stand-in"
        elif rec["rc"] == 0 and rec["cmd"] == "chpass":
            salt = mx_locked_salt(rec["out"].split(b"=", 1)[1].strip()) if b"=" in rec["out"] else None
            if salt:
                rec["rnd"], rec["rnd_how"] = salt, "recovered"
            else:
                rec["mask"], rec["rnd_how"] = True, "stand-in"
        elif rec["rc"] == 0 and rec["cmd"] == "gen":
            sk = unl.get(rec["unlock"][0]) if rec.get("unlock") else None
            salt = mx_locked_salt(rec.get("gen_locked", ""))
            if sk and salt:
                rec["rnd"], rec["rnd_how"] = sk + salt, "recovered"
            else:
                rec["mask"], rec["rnd_how"] = True, "stand-in"
        elif rec["rc"] == 0 and rec["cmd"] == "enc":
            rec["mask"], rec["rnd_how"] = True, "stand-in"
        if len(rec["rnd"]) < 64:
            rec["rnd"] = rec["rnd"] + bytes(64 - len(rec["rnd"])) if len(rec["rnd"]) >= 32 else fake
    # ---- X25519 pairs each run needs
    def pairs_of(rec):
        sks = [unl[u] for u in rec.get("unlock", []) if u in unl]
        ps = []
        if rec["cmd"] == "dec":
            e = eph_of(rec)
            for sk in sks:
                ps += [(sk, MX_BASE_POINT)] + ([(sk, e)] if e else []) + [(sk, s) for s in sorted(senders.get(e, ()))]
        elif rec["cmd"] == "enc":
            to = [mx_pub32(x.get("PublicKey", "")) for x in rec["ents"] if x.get("Name") == rec["opts"].get("to")][:1]
            e = rec["rnd"][32:64]
            for sk in sks:
                ps += [(sk, MX_BASE_POINT), (e, MX_BASE_POINT)] + [(k, p) for p in to if p for k in (e, sk)]
        elif rec["cmd"] == "gen":
            ps.append((rec["rnd"][:32], MX_BASE_POINT))
        elif rec["cmd"] == "xpub":
            ps += [(sk, MX_BASE_POINT) for sk in sks]
        return [p for i, p in enumerate(ps) if p not in ps[:i]]
    def recount():
        fr = collections.Counter()
        for rec in todo:
            rec["pairs"] = pairs_of(rec)
            fr.update(rec["pairs"])
        return fr
    freq = recount()
    wbytes = lambda rec: sum(len(v) for st in (rec["before"], rec["after"]) for v in st.values() if isinstance(v, bytes)) + len(rec["stdin"])
    cost0 = lambda rec: MX_COST_CASE + MX_COST_BYTE * rec["datalen"] + MX_COST_WORLD_BYTE * wbytes(rec)
    cost = lambda rec: cost0(rec) + MX_COST_DH * len([p for p in rec["pairs"] if freq[p] < 2])
    # ---- quick tier: the runs with an X25519 nobody shares (a freshly generated key, the ephemeral key of an os-random
    # encryption) within the budget; the others: key generate -> lengths only on the stand-in stream, the rest -> skipped, counted
    if not ctx.thorough():
        if budget is None:
            budget = float(os.environ.get("VERIF_MX_BUDGET", "60"))
        cpu = budget * NPROC
        drop = lambda r, why: (todo.remove(r), dist.update({"model-skipped:" + why: 1, "model-skipped-in:%s" % r["matrix"]: 1}))
        for _ in range(6):
            freq = recount()
            over = sum(cost(r) for r in todo) + MX_COST_DH * len([p for p in freq if freq[p] >= 2]) - cpu
            fresh = [r for r in todo if any(freq[p] < 2 for p in r["pairs"])]
            if over <= 0 or not fresh:
                break
            rng.shuffle(fresh)
            fresh.sort(key=lambda r: -len([p for p in r["pairs"] if freq[p] < 2]))      # the dearest first (stable: random among equals)
            for r in fresh:
                if over <= 0:
                    break
                over -= MX_COST_DH * len([p for p in r["pairs"] if freq[p] < 2])
                if r["cmd"] == "gen" and r["rnd_how"] == "recovered":
                    r["rnd"], r["mask"], r["rnd_how"] = fake, True, "stand-in (over the quick budget)"
                else:
                    drop(r, "fresh-key-X25519-over-the-quick-budget")
        # the bulk (AEAD bytes, literals) over the budget as well: a deterministic sample of the runs with data
        freq = recount()
        over = sum(cost(r) for r in todo) + MX_COST_DH * len([p for p in freq if freq[p] >= 2]) - cpu
        if over > 0:
            heavy = [r for r in todo if r["datalen"] >= 256]
            rng.shuffle(heavy)
            for r in heavy:
                if over <= 0:
                    break
                over -= cost(r)
                drop(r, "sampled-out-over-the-quick-budget")
            freq = recount()
    # ---- cases
    cases, seen = [], {}
    for rec in sorted(todo, key=lambda r: -cost(r)):
        env = rec["env"]
        pw, npw = env.get("KESTREL_PASSWORD"), env.get("KESTREL_NEW_PASSWORD")
        tree = {k: v for k, v in rec["before"].items()}
        c = MxCase("%s: %s" % (rec["matrix"], " ".join(rec["argv"])[:160]), rec["argv"], tree, cwd="",
                   pw=None if pw is None else pw.encode("utf-8"), npw=None if npw is None else npw.encode("utf-8"),
                   keyring_env=env.get("KESTREL_KEYRING"), stdin=rec["stdin"], rnd=rec["rnd"][:64], tags=["model-matrix:" + rec["matrix"]])
        c.a["rundir"], c.a["mask"], c.a["matrix"] = rec["R"], rec["mask"], rec["matrix"]
        mk = (lambda b: bytes(len(b))) if rec["mask"] else (lambda b: b)
        D = [x for x in rec["R"].split("/") if x]
        before, after = rec["before"], rec["after"]
        watch = sorted(set(tuple(D[:k]) for k in range(1, len(D) + 1)) | set(tuple(D + rel.split("/")) for rel in set(before) | set(after)))
        c.a["watch"] = [list(p) for p in watch]
        extra = (len(D) + len(after)).to_bytes(4, "big")
        for p in watch:
            rel = "/".join(p[len(D):])
            if len(p) <= len(D) or (rel in after and after[rel] is None):
                extra += b"\x02"
            elif rel not in after:
                extra += b"\x00"
            else:
                extra += b"\x01" + len(after[rel]).to_bytes(4, "big") + mk(after[rel])
        rc = rec["rc"] if rec["rc"] >= 0 else 1000 - rec["rc"]
        changed = sorted(k for k in set(before) | set(after) if before.get(k, 0) != after.get(k, 0))
        c.result = {"id": None, "code": rec["code"], "outcome": "exit%d:class%d" % (rc, rec["code"]), "out": mk(rec["out"]), "consumed": rc,
                    "trace": [], "extra": extra + rec["text"], "entries": None, "msg": "",
                    "raw": "exit=%d class=%d stdout=%d bytes %s stderr=%r changed=%s random=%s%s" % (
                        rc, rec["code"], len(rec["out"]), rec["out"][:40].hex(), rec["err"].decode("utf-8", "replace")[-200:],
                        {k: (len(after[k]) if isinstance(after.get(k), bytes) else "dir" if k in after else "absent") for k in changed},
                        rec["rnd_how"], ", lengths only" if rec["mask"] else "")}
        c.mx_rec = rec
        key = hashlib.sha256((c.model_term() + "\x00" + vlib.g_obs(c.result)).encode()).hexdigest()
        if key in seen:
            seen[key].mx_same.append(c)
            continue
        c.mx_same = []
        seen[key] = c
        cases.append(c)
    def merge():
        for k, v in dist.items():
            ctx.distribution[k] = ctx.distribution.get(k, 0) + v
    if not cases:
        merge()
        return
    for i, c in enumerate(cases):
        c.id = str(i + 1)
    tag = ctx.pid + "x"
    memo = [p for p, n in freq.most_common() if n >= 2]
    t1 = time.time()
    dh_prelude, dh_files = mx_dh_memo(memo, tag)
    dist["seconds:model-matrix-x25519-memo"] = round(time.time() - t1, 1)
    try:
        t1 = time.time()
        table = kdf_table_par(ctx.bin, cases)
        dist["seconds:model-matrix-scrypt-table"] = round(time.time() - t1, 1)
        dist["model-matrix:scrypt-table-entries"] = len(table)
        prelude = cli_prelude() + dh_prelude
        t1 = time.time()
        log = vlib.run_model(cases, table, tag, extra_import=MODEL_IMPORT, prelude=prelude)
        dist["seconds:model-matrix-coqc"] = round(time.time() - t1, 1)
        dist["model-matrix:estimated-cpu-seconds"] = int(sum(cost(c.mx_rec) for c in cases) + MX_COST_DH * len(memo))
        bad = [c for c in cases if c.agree is not True]
        for c in cases:
            n = 1 + len(c.mx_same)
            for k in [c] + c.mx_same:
                dist[("model-compared-lengths-only:" if k.a["mask"] else "model-compared:") + k.a["matrix"]] += 1
                dist["model-random-bytes:" + k.mx_rec["rnd_how"].split(" (")[0]] += 1
            if c.agree is True:
                ctx.agreed += n
        if bad:
            shown = vlib.run_model(bad[:6], table, tag + "s", extra_import=MODEL_IMPORT, prelude=prelude, show=True)
            for c in bad[:20]:
                ctx.disagreements.append({"input": c.full(), "implementation": c.result["raw"][:600], "implementation_code": c.result["code"],
                                          "model": shown.get(c.id, "model evaluation failed" if c.agree is None else "?")})
            ctx.broken.append({"kind": "correspondence",
                               "what": "correspondence %s: the CLI model and the recorded process runs of the direct-oracle matrices differ on %d of %d runs "
                                       "(first: %s)%s" % (ctx.pid, sum(1 + len(c.mx_same) for c in bad), sum(1 + len(c.mx_same) for c in cases),
                                                          bad[0].a["label"][:200], (" [" + log[-200:] + "]") if log else "")})
    finally:
        for f in dh_files:
            for q in [f + ext for ext in (".v", ".vo", ".vok", ".vos", ".glob")] + [os.path.join(os.path.dirname(f), "." + os.path.basename(f) + ".aux")]:
                try:
                    os.remove(q)
                except OSError:
                    pass
    dist["model-matrix:x25519-memo-entries"] = len(memo)
    dist["model-matrix:distinct-evaluations"] = len(cases)
    dist["seconds:model-matrix"] = round(time.time() - t0, 1)
    cpu1 = _resource.getrusage(_resource.RUSAGE_CHILDREN)
    dist["cpu-seconds:model-matrix"] = round(cpu1.ru_utime + cpu1.ru_stime - cpu0.ru_utime - cpu0.ru_stime, 1)
    merge()


def mx_dh_memo(pairs, tag):
    """the X25519 memo of a batch, computed BY THE GALLINA DEFINITION: the pairs are dealt over VERIF_JOBS files
    Run/cases/<tag>dh_<k>.v (`Definition dh_<k> := Eval vm_compute in [dh_entry k u; ...]`) compiled in parallel; the case
    files load the .vo.  -> (prelude text defining DH, file stems to remove afterwards)"""
    if not pairs:
        return "Definition DH : dh_table := [].\n", []
    os.makedirs(vlib.CASEDIR, exist_ok=True)
    n = min(NPROC, len(pairs))
    stems, names = [], []
    for k in range(n):
        name = "%sdh_%d" % (tag, k)
        stem = os.path.join(vlib.CASEDIR, name)
        with open(stem + ".v", "w") as f:
            f.write(vlib.MODEL_HEADER % MODEL_IMPORT)
            f.write("Definition tab : dh_table := Eval vm_compute in [%s].\n"
                    % "; ".join("dh_entry %s %s" % (vlib.g_bytes(a), vlib.g_bytes(b)) for a, b in pairs[k::n]))
        stems.append(stem)
        names.append(name)

    def one(name):
        return vlib.sh("ulimit -s unlimited 2>/dev/null; coqc -q -noglob -Q . Kestrel Run/cases/%s.v" % name, cwd=vlib.COQ, timeout=900)[0]
    with ThreadPoolExecutor(max_workers=NPROC) as ex:
        rcs = list(ex.map(one, names))
    good = [nm for nm, rc in zip(names, rcs) if rc == 0]
    pre = "".join("Require Kestrel.Run.cases.%s.\n" % nm for nm in good)
    pre += "Definition DH : dh_table := (%s)%%list.\n" % (" ++ ".join("Kestrel.Run.cases.%s.tab" % nm for nm in good) or "[]")
    return pre, stems
