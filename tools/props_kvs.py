"""props_kvs - input / environment families of the keyring and CLI surfaces that the generators of C14, C17 and C09 did not reach:

  * keyrings LARGER than any buffer a reader might stop at (4 KiB .. 4 MiB), the key under test placed before, behind and across
    each power-of-two offset (C14: generate into such a keyring, then use every key; C17: the lookups of the real program equal
    those of a reference reader of the format),
  * names that read like another field of the file (another entry's PublicKey / PrivateKey text, keywords, option-looking strings),
  * forged locked private keys given to every command that unlocks one, run under a CPU-time and address-space limit (C09:
    errors only, cost of rejecting bounded by what a legitimate wrong-password unlock costs),
  * keyring LOCATIONS (-k / KESTREL_KEYRING) of every shape, with HOME set / unset / empty (C09: never a panic).

Called from the classes in props_cli.py (C14, C17) and props.py (C09); everything here runs real processes of the harness build of
the CLI inside scratch directories that are removed afterwards."""
import base64, hashlib, json, os, signal, subprocess, sys, time, zlib
from concurrent.futures import ThreadPoolExecutor

import vlib
import props_cli as pc
from vlib import hexs, unhex

KIB = 1024
MIB = 1024 * 1024


# =========================================================================== a reference reader of the keyring format
def ref_b64_of(s, n):
    """s (text) is the padded, canonical standard-alphabet base64 of exactly n bytes"""
    try:
        b = s.encode("ascii")
        d = base64.b64decode(b, validate=True)
    except Exception:
        return False
    return len(d) == n and base64.b64encode(d) == b


def ref_parse(data):
    """The keyring format as the documentation and property C17 describe it, read by an independent little reader (not a
    transcription of keyring.rs; it is compared with the Gallina parser through the implementation on every small kr_parse case of
    C17).  UTF-8 text; lines end with LF; TABs are dropped and white space around a line is ignored; a line beginning with [Key]
    opens a section; Name / PublicKey / PrivateKey lines (key, '=', value; white space around the value ignored) may occur once per
    section and only inside one; '#' lines and blank lines are skipped; anything else is refused; every section needs a Name of
    1..128 bytes and a PublicKey that is the base64 of 36 bytes, a PrivateKey if present is the base64 of 84 bytes; no name and no
    public key occurs twice; at least one section.
    -> ("ok", [(name, pub, priv | None)])  (bytes, in file order)   |   ("err", why)"""
    try:
        s = data.decode("utf-8")
    except UnicodeDecodeError:
        return ("err", "not UTF-8")
    WS = pc.RUST_WS
    secs, cur = [], None
    names, pubs = set(), set()

    def close(c):
        if "n" not in c or "p" not in c:
            return "a section without Name / PublicKey"
        if c["n"] in names:
            return "name twice"
        if c["p"] in pubs:
            return "public key twice"
        names.add(c["n"])
        pubs.add(c["p"])
        secs.append((c["n"].encode("utf-8"), c["p"].encode("utf-8"), c["s"].encode("utf-8") if "s" in c else None))
        return None
    for line in s.split("\n"):
        l = line.replace("\t", "") if "\t" in line else line
        if l and (ord(l[0]) in WS or ord(l[-1]) in WS):
            l = pc.rust_trim(l)
        if not l or l[0] == "#":
            continue
        if l.startswith("[Key]"):
            if cur is not None:
                e = close(cur)
                if e:
                    return ("err", e)
            cur = {}
            continue
        for key, fld, size in (("Name", "n", None), ("PublicKey", "p", 36), ("PrivateKey", "s", 84)):
            if l.startswith(key):
                if cur is None:
                    return ("err", key + " outside a section")
                if fld in cur:
                    return ("err", key + " twice in a section")
                if "=" not in l:
                    return ("err", key + " without a value")
                v = pc.rust_trim(l.split("=", 1)[1])
                if size is None:
                    if not (1 <= len(v.encode("utf-8")) <= 128):
                        return ("err", "name of %d bytes" % len(v.encode("utf-8")))
                elif not ref_b64_of(v, size):
                    return ("err", "malformed " + key)
                cur[fld] = v
                break
        else:
            return ("err", "a line that is neither a section head, a field, a comment nor blank")
    if cur is None:
        return ("err", "no section")
    e = close(cur)
    if e:
        return ("err", e)
    return ("ok", secs)


def ref_oracle_on_case(c):
    """direct oracle for a kr_parse case of the in-process driver: acceptance and entries equal the reference reader's"""
    want = ref_parse(c.a["text"])
    inner = c.expect_fn

    def f(r):
        m = inner(r) if inner else None
        if m:
            return m
        if r["code"] in (1, 999) or r["code"] >= 900:
            return None                 # a crash: reported by the no-crash oracle
        if want[0] == "ok" and r["code"] != 0:
            return ("the keyring is well-formed (reference reader: %d sections): it is accepted" % len(want[1]), r["outcome"] + " " + r["msg"])
        if want[0] == "err" and r["code"] == 0:
            return ("accepted only if well-formed; the reference reader refuses the text: " + want[1], "accepted, entries=%r" % (r["entries"],))
        if want[0] == "ok" and r["entries"] != want[1]:
            return ("the accepted entries are exactly the sections of the file, in order: %r" % (want[1][:6],), "entries=%r" % (r["entries"][:6],))
        return None
    return f


# =========================================================================== text of large keyrings
FIRST = ["Ana", "Bo", "Chidi", "Dmitri", "Eve", "Farid", "Gudrun", "Hye-jin", "Ines", "Jürgen", "Kōji", "Li Na", "Mélanie"]
WORDS = ["keys", "of", "the", "team", "ops", "do", "not", "edit", "by", "hand", "rotated", "2024", "contact", "über", "préféré", "山田",
         "offsite", "backup", "ask", "before", "removing", "=", "[old]", "Name", "PublicKey"]


class Filler:
    """keyring text of an exact length made of contact sections (Name + PublicKey with a correct checksum, names unique by a running
    number), comment blocks, blank lines; every piece ends with a line feed"""

    def __init__(self, rng, tag, share):
        self.rng, self.tag, self.share, self.n = rng, tag, share, 0
        self.contacts = []              # (name, pub) in the order produced

    def contact(self):
        rng = self.rng
        self.n += 1
        k = rng.getrandbits(256).to_bytes(32, "big")
        name = ("%s %s%05d" % (rng.choice(FIRST), self.tag, self.n)).encode("utf-8")
        pub = base64.b64encode(k + hashlib.sha256(k).digest()[:4])
        self.contacts.append((name, pub))
        r = rng.random()
        if r < 0.8:
            return b"[Key]\nName = " + name + b"\nPublicKey = " + pub + b"\n" + (b"\n" if r < 0.4 else b"")
        if r < 0.9:
            return b"[Key]\r\nPublicKey = " + pub + b"\r\nName = " + name + b"\r\n"
        return b"  [Key]\n# " + name + b"\n\tName=" + name + b"\n  PublicKey =" + pub + b"  \n"

    def comments(self, room):
        rng = self.rng
        out = b""
        for _ in range(rng.randint(1, 30)):
            l = ("# " + " ".join(rng.choice(WORDS) for _ in range(rng.randint(0, 14)))).encode("utf-8") + rng.choice([b"\n", b"\n", b"\n", b"\r\n", b"\n\n"])
            if len(out) + len(l) > room:
                break
            out += l
        return out

    def fill(self, n):
        """exactly n bytes (n >= 0), ending with a line feed when n > 0"""
        rng = self.rng
        out, left = [], n
        while left > 700:
            b = self.contact() if rng.random() < self.share else self.comments(left - 400)
            if not b or len(b) > left - 300:
                break
            out.append(b)
            left -= len(b)
        while left > 0:
            k = min(left, 900)
            if left - k == 1:
                k -= 1
            out.append(b"\n" if k == 1 else b"#" + b"." * (k - 2) + b"\n")
            left -= k
        r = b"".join(out)
        assert len(r) == n
        return r


def sec_np(name, pub, priv=None):
    return pc.key_block(name, pub, priv)


def sec_pn(name, pub, priv=None):
    return b"[Key]\nPublicKey = " + pub + b"\n" + (b"PrivateKey = " + priv + b"\n" if priv else b"") + b"Name = " + name + b"\n"


BIG_VARIANTS = ["first", "last", "section-starts-at-B", "section-ends-at-B", "file-ends-at-B", "file-ends-at-B+1", "file-ends-at-B-1",
                "B-inside-Name-value", "B-inside-multibyte-character-of-Name", "B-inside-PublicKey-value", "B-inside-PrivateKey-value",
                "B-between-Name-and-PublicKey-lines", "B-behind-section-head"]
TARGET_NAMES = ["bobby", "alice smith", "carol-anne", "dave the 2nd", "Name", "robert=bob"]


def big_keyring(rng, B, variant, me, tgt, share, tag):
    """a well-formed keyring in which the byte offset B - the place where a reader that takes only the first B bytes stops - falls
    where `variant` says relative to the section of the key under test `tgt`.  me / tgt: (name, pub, priv) bytes; tgt's name is chosen here.
    -> (text, info) with info = {variant, B, target, cut (the name a reader stopping at B would see, or None), contacts}"""
    fl = Filler(rng, tag, share)
    meb = sec_np(*me) + b"\n"
    name = rng.choice(TARGET_NAMES).encode("utf-8")
    cut = None
    extra = rng.randint(300, 6000)
    if variant == "B-inside-multibyte-character-of-Name":
        name = rng.choice(["bobéby", "alïce", "könig", "山田太郎"]).encode("utf-8")
    pub, priv = tgt[1], tgt[2]
    np_, pn_ = sec_np(name, pub, priv), sec_pn(name, pub, priv)
    tail_end = sec_np(b"zz last " + tag.encode(), base64.b64encode((lambda k: k + hashlib.sha256(k).digest()[:4])(rng.getrandbits(256).to_bytes(32, "big"))))

    def tail():
        return fl.fill(extra) + tail_end
    if variant == "first":
        text = np_ + b"\n" + meb
        text += fl.fill(max(0, B - len(text)) + extra) + tail_end
    elif variant == "last":
        text = meb + fl.fill(B - len(meb) + extra) + np_
    elif variant in ("file-ends-at-B", "file-ends-at-B+1", "file-ends-at-B-1"):
        total = B + {"file-ends-at-B": 0, "file-ends-at-B+1": 1, "file-ends-at-B-1": -1}[variant]
        text = meb + fl.fill(total - len(meb) - len(np_)) + np_
        assert len(text) == total
    else:
        sec = np_
        if variant == "section-starts-at-B":
            off = 0
        elif variant == "section-ends-at-B":
            off = len(np_)
        elif variant == "B-behind-section-head":
            off = 6
        elif variant == "B-between-Name-and-PublicKey-lines":
            off = np_.index(b"PublicKey")
        elif variant == "B-inside-PublicKey-value":
            off = np_.index(b"PublicKey = ") + 12 + rng.randint(1, len(pub) - 1)
        elif variant == "B-inside-PrivateKey-value":
            off = np_.index(b"PrivateKey = ") + 13 + rng.randint(1, len(priv) - 1)
        elif variant == "B-inside-Name-value":
            sec = pn_
            k = rng.randint(1, len(name) - 1)
            off = pn_.index(b"Name = ") + 7 + k
            cut = name[:k].strip() or None
        elif variant == "B-inside-multibyte-character-of-Name":
            sec = pn_
            k = rng.choice(pc.cut_points_utf8(name))
            off = pn_.index(b"Name = ") + 7 + k
        else:
            raise ValueError(variant)
        head = meb + fl.fill(B - off - len(meb))
        text = head + sec + (tail() if (variant.startswith("section-") or rng.random() < 0.5) else b"")
        assert len(head) + off == B
    return text, {"variant": variant, "B": B, "target": name, "cut": cut, "contacts": fl.contacts}


def describe_big(text, info):
    B = info["B"]
    d = {"bytes": len(text), "sha256": hashlib.sha256(text).hexdigest(), "offset_B": B, "B_falls": info["variant"],
         "key_under_test": info["target"].decode("utf-8"), "sections": text.count(b"[Key]"),
         "bytes_B-120..B": text[max(0, B - 120):B].decode("utf-8", "replace"), "bytes_B..B+120": text[B:B + 120].decode("utf-8", "replace"),
         "construction": "props_kvs.big_keyring (contact sections and comment blocks from the run's seed)"}
    if len(text) <= 160 * KIB:
        d["keyring_zlib_base64"] = base64.b64encode(zlib.compress(text, 9)).decode()
    return d


# =========================================================================== processes with limits and resource usage
LIMIT_HELPER = r'''
import os, sys, resource, json, time
cpu, asl, rep, cwd = int(sys.argv[1]), int(sys.argv[2]), sys.argv[3], sys.argv[4]
t0 = time.time()
pid = os.fork()
if pid == 0:
    try:
        os.chdir(cwd)
        resource.setrlimit(resource.RLIMIT_CORE, (0, 0))
        if cpu:
            resource.setrlimit(resource.RLIMIT_CPU, (cpu, cpu + 2))
        if asl:
            resource.setrlimit(resource.RLIMIT_AS, (asl, asl))
        os.execv(sys.argv[5], sys.argv[5:])
    finally:
        os._exit(127)
_, st, ru = os.wait4(pid, 0)
with open(rep, "w") as f:
    json.dump({"status": st, "cpu": ru.ru_utime + ru.ru_stime, "maxrss": ru.ru_maxrss, "wall": time.time() - t0}, f)
'''
import itertools
_seq = itertools.count(1)


def run_limited(w, argv, env=None, home="scratch", stdin=None, cpu=0, aslimit=0, timeout=120, cwd=None):
    """one process of the CLI in the scratch world w; argv items are str or bytes (bytes: arguments that are not UTF-8).
    home: "scratch" (HOME = the scratch directory) | None (no HOME in the environment) | a string.  cpu / aslimit: RLIMIT_CPU in
    seconds / RLIMIT_AS in bytes for the CLI process only (0 = none).  The process is started by a small helper that forks, sets
    the limits, execs and collects wait4's resource usage: the returned Run carries .sig (signal number or None), .cpu (user +
    system seconds), .maxrss (KiB; of the CLI process: the helper is a 10 MB process, so what it leaves in ru_maxrss at exec is
    below scrypt's 32 MiB), .wall"""
    e = {"PATH": "/usr/bin:/bin", "LANG": "C.UTF-8"}
    if home == "scratch":
        e["HOME"] = w.dir
    elif home is not None:
        e["HOME"] = home
    if env:
        e.update(env)
    e = {os.fsencode(k): (v if isinstance(v, bytes) else os.fsencode(v)) for k, v in e.items()}
    rep = os.path.join(w.dir, ".rusage_%d_%d" % (os.getpid(), next(_seq)))
    cmd = [sys.executable, "-X", "utf8", "-I", "-S", "-c", LIMIT_HELPER, str(int(cpu)), str(int(aslimit)), rep, cwd or w.dir, w.bin] + \
        [a if isinstance(a, bytes) else a.encode("utf-8") for a in argv]
    pr = subprocess.Popen(cmd, env=e, stdin=subprocess.PIPE if stdin is not None else subprocess.DEVNULL, stdout=subprocess.PIPE,
                          stderr=subprocess.PIPE, start_new_session=True, cwd=w.dir)
    try:
        out, err = pr.communicate(stdin, timeout=timeout)
        timed_out = False
    except subprocess.TimeoutExpired:
        try:
            os.killpg(pr.pid, signal.SIGKILL)
        except OSError:
            pass
        out, err = pr.communicate()
        timed_out = True
    info = {}
    try:
        with open(rep) as f:
            info = json.load(f)
        os.unlink(rep)
    except (OSError, ValueError):
        pass
    st = info.get("status")
    sig = None
    if timed_out or st is None:
        rc, err = 124, (err or b"") + b"\n[timeout]"
    elif os.WIFSIGNALED(st):
        sig = os.WTERMSIG(st)
        rc = -sig
    else:
        rc = os.WEXITSTATUS(st)
    w.nruns += 1
    shown_env = dict(env or {})
    shown_env["HOME"] = {"scratch": "<scratch directory>", None: "<not set>"}.get(home, home)
    r = pc.Run(list(argv), shown_env, stdin, rc, out or b"", err or b"")
    r.sig, r.cpu, r.maxrss, r.wall = sig, info.get("cpu", 0.0), info.get("maxrss", 0), info.get("wall", 0.0)
    r.limits = {"RLIMIT_CPU_s": cpu, "RLIMIT_AS_bytes": aslimit}
    return r


def describe_run(r):
    def show(a):
        t = a if isinstance(a, str) else repr(a)
        return t if len(t) <= 400 else t[:200] + "... (%d characters)" % len(t)
    d = {"argv": ["kestrel"] + [show(a) for a in r.argv], "env": dict((k, show(v)) for k, v in r.env.items()), "exit": r.rc, "stderr": r.errtext()[-400:]}
    if r.stdin is not None:
        d["stdin"] = r.stdin if isinstance(r.stdin, str) else ("%d bytes: %s" % (len(r.stdin), r.stdin[:64].hex()))
    if getattr(r, "sig", None) is not None:
        d["killed_by_signal"] = r.sig
    if hasattr(r, "cpu"):
        d["cpu_s"], d["max_rss_KiB"], d["limits"] = round(r.cpu, 3), r.maxrss, r.limits
    return d


def error_exit(r):
    """None when the run ended as an ordinary error (exit 1 with an Error: line), else what it did instead"""
    if getattr(r, "sig", None) is not None:
        return "killed by signal %d; stderr %r" % (r.sig, r.errtext()[-200:])
    if r.rc != 1:
        return "exit %d; stderr %r" % (r.rc, r.errtext()[-200:])
    if "Error: " not in r.errtext():
        return "exit 1 without an Error: line; stderr %r" % r.errtext()[-200:]
    return None


def pmap(fn, items):
    with ThreadPoolExecutor(max_workers=pc.NPROC) as ex:
        return list(ex.map(fn, items))


MAX_REPORTED = 8          # failing inputs written per family and run; the rest are counted in the distribution


def viol(ctx, scenario, runs, expected, observed, extra=None):
    fam = "violations:" + scenario.split(":")[0].split(" given")[0].split(" keyring")[0][:40]
    count(ctx, fam)
    if ctx.distribution[fam] > MAX_REPORTED:
        return
    inp = {"kind": "proc", "scenario": scenario, "commands": [describe_run(r) for r in runs]}
    if extra:
        inp.update(extra)
    ctx.violations.append({"input": inp, "expected": expected, "observed": observed, "finding_key": None})


def count(ctx, key, n=1):
    ctx.distribution[key] = ctx.distribution.get(key, 0) + n


def timed(fn):
    """records the wall time of a family in the evidence (distribution key time_s:<family>)"""
    def g(*a, **k):
        t0 = time.time()
        try:
            return fn(*a, **k)
        finally:
            ctx = [x for x in a if hasattr(x, "distribution")][0]
            ctx.distribution["time_s:props_kvs." + fn.__name__] = round(time.time() - t0, 1)
    g.__name__, g.__doc__ = fn.__name__, fn.__doc__
    return g


# =========================================================================== C17: lookups in large keyrings, through the real program
def c17_boundaries(ctx):
    if ctx.thorough():
        return [(4 * KIB, BIG_VARIANTS), (8 * KIB, BIG_VARIANTS), (32 * KIB, BIG_VARIANTS[:4] + BIG_VARIANTS[7:10]), (64 * KIB, BIG_VARIANTS),
                (128 * KIB, BIG_VARIANTS[:4] + BIG_VARIANTS[7:10]), (MIB, BIG_VARIANTS), (2 * MIB, BIG_VARIANTS[:4] + BIG_VARIANTS[7:10]),
                (4 * MIB, BIG_VARIANTS[:5] + BIG_VARIANTS[7:10])]
    V = BIG_VARIANTS
    pick = [V[0], V[1], V[2], V[3], V[4], V[7], V[8], V[9], V[11]]
    return [(4 * KIB, [V[1], V[7], V[9]]), (8 * KIB, [V[1], V[7], V[10]]), (64 * KIB, pick), (MIB, pick)]


def share_for(B):
    """share of contact sections in the filler: the parser's duplicate check is quadratic in the number of sections"""
    return 0.9 if B <= 128 * KIB else 0.6 if B <= MIB else 0.3


@timed
def c17_large(self, ctx):
    """LARGE keyrings read by the real program (commands.rs::open_keyring + Keyring::new behind -k): every lookup by name
    (encrypt -t) and by key (the sender report of decrypt) equals the lookup in the entries of the reference reader; the key under test
    encrypts and decrypts.  In process, the parser's entries for the same text equal the reference reader's; texts up to 16 KiB
    (quick) / 136 KiB (thorough) are also evaluated by the Gallina parser (measured: about 0.3 s per KiB of text on an idle core)."""
    rng = ctx.rng
    ks = pc.make_keys(ctx, 2)
    S = pc.lock_keys([(ks[0][0], b"pw-me", ctx.rbytes(32)), (ks[1][0], b"pw-target", ctx.rbytes(32))])
    me = (b"me myself", ks[0][2], S[0])
    jobs = []
    for B, variants in c17_boundaries(ctx):
        for v in variants:
            text, info = big_keyring(rng, B, v, me, (None, ks[1][2], S[1]), share_for(B), "c%d-" % (len(jobs) + 1))
            jobs.append({"i": len(jobs), "text": text, "info": info, "ref": ref_parse(text), "pt": ctx.rbytes(rng.choice([1, 300, 70000]))})
    w = pc.World(prefix="kv_c17big_")
    T = [time.time()]
    def lap(what):
        if os.environ.get("KVS_TIMING"):
            print("  [c17_large] %s %.1f s" % (what, time.time() - T[0]))
        T[0] = time.time()
    try:
        for j in jobs:
            w.write("big%d.txt" % j["i"], j["text"])
        lap("built")
        # ---- in process: Keyring::new on the same text
        inproc = pc.cli_ops(["kr_parse " + hexs(j["text"]) for j in jobs])
        for j, r in zip(jobs, inproc):
            ctx.oracle_checks += 1
            ctx.evaluations += 1
            sc = "C17 large keyring, in process: kr_parse of %d bytes, B = %d %s" % (len(j["text"]), j["info"]["B"], j["info"]["variant"])
            count(ctx, "large:B=%d" % j["info"]["B"])
            count(ctx, "large:" + j["info"]["variant"])
            if j["ref"][0] != "ok":
                ctx.broken.append({"kind": "machinery", "what": "props_kvs.big_keyring built a text its own reference reader refuses: " + j["ref"][1]})
                continue
            got = None
            if r.get("outcome") == "ok":
                got = list(zip([unhex(x) for x in r["names"].split(",")], [unhex(x) for x in r["pubs"].split(",")],
                               [None if x == "none" else unhex(x) for x in r["privs"].split(",")]))
            if got != j["ref"][1]:
                ctx.violations.append({"input": {"kind": "proc", "scenario": sc, "commands": [], "keyring": describe_big(j["text"], j["info"])},
                                       "expected": "the accepted entries are exactly the %d sections of the file, in order" % len(j["ref"][1]),
                                       "observed": "kr_parse: %s %s" % (r.get("outcome"), ("%d entries" % len(got)) if got is not None else
                                                                        unhex(r.get("msg", "-")).decode("utf-8", "replace")), "finding_key": None})
        jobs = [j for j in jobs if j["ref"][0] == "ok"]
        lap("in-process")

        # ---- the real program
        def one(j):
            i, info, ents = j["i"], j["info"], j["ref"][1]
            f = "big%d.txt" % i
            byname = dict((e[0], e) for e in ents)
            cs = info["contacts"]
            chop = lambda n: n.decode("utf-8")[:-1].encode("utf-8")
            look = [me[0], info["target"], ents[-1][0], ents[0][0], b"nobody at all", info["target"] + b"x", chop(info["target"])]
            if info["cut"]:
                look.append(info["cut"])
            if cs:
                look += [cs[0][0], cs[-1][0], cs[len(cs) // 2][0], chop(cs[-1][0])]
            seen, L = set(), []
            w.write("pt%d" % i, j["pt"])
            for n in look:
                if n and n not in seen:
                    seen.add(n)
                    # present (and with a sound checksum) <=> the run gets as far as looking for the sender, who does not exist
                    r = w.run(["encrypt", "pt%d" % i, "-t", n.decode("utf-8"), "-f", "no such sender", "-k", f, "-o", "x%d_%d" % (i, len(L)), "--env-pass"],
                              env=pc.env_pw(b"pw-me"))
                    L.append((n, n in byname, r))
            tn = info["target"].decode("utf-8")
            e = w.run(["encrypt", "pt%d" % i, "-t", tn, "-f", "me myself", "-k", f, "-o", "ct%d" % i, "--env-pass"], env=pc.env_pw(b"pw-me"))
            d = w.run(["decrypt", "ct%d" % i, "-t", tn, "-k", f, "-o", "out%d" % i, "--env-pass"], env=pc.env_pw(b"pw-target"))
            # the same file opened by the key alone: -t selected the section that carries the name, not another one
            w.write("only%d.txt" % i, sec_np(b"t", byname[info["target"]][1], byname[info["target"]][2]))
            d2 = w.run(["decrypt", "ct%d" % i, "-t", "t", "-k", "only%d.txt" % i, "-o", "out2_%d" % i, "--env-pass"], env=pc.env_pw(b"pw-target"))
            j.update(look=L, rt=(e, d, d2, w.read("out%d" % i), w.read("out2_%d" % i)))
            for k in range(len(L)):
                try:
                    os.unlink(w.p("x%d_%d" % (i, k)))
                except OSError:
                    pass
            return j
        jobs = pmap(one, jobs)
        lap("processes")
        for j in jobs:
            info = j["info"]
            sc = "C17 large keyring behind -k: %d bytes, %d sections; offset B = %d: %s (key under test %r)" % (
                len(j["text"]), len(j["ref"][1]), info["B"], info["variant"], info["target"].decode("utf-8"))
            kd = {"keyring": describe_big(j["text"], info)}
            for n, present, r in j["look"]:
                ctx.oracle_checks += 1
                t = r.errtext()
                if r.rc not in (0, 1):
                    viol(ctx, sc, [r], "the program ends with status 0 or 1", "exit %d: %r" % (r.rc, t[-200:]), kd)
                elif present and "Sender key 'no such sender' not found." not in t:
                    viol(ctx, sc, [r], "%r is the Name of a section of the keyring file: the lookup by name finds it (the run then fails only "
                         "for the sender, who is not in the file)" % n.decode("utf-8"), "exit %d: %r" % (r.rc, t[-200:]), kd)
                elif not present and ("Recipient key '%s' not found." % n.decode("utf-8")) not in t:
                    viol(ctx, sc, [r], "no section of the keyring file is named %r: the lookup finds nothing" % n.decode("utf-8"),
                         "exit %d: %r" % (r.rc, t[-200:]), kd)
            e, d, d2, out, out2 = j["rt"]
            ctx.oracle_checks += 2
            if not (e.rc == 0 and d.rc == 0 and out == j["pt"] and "Success. File from: me myself" in d.errtext()):
                viol(ctx, sc, [e, d], "the key under test (a section of the file) receives a file from 'me myself' (another section): encrypt -t / -f and "
                     "decrypt -t succeed, the plaintext comes back, the sender is found by its public key and named",
                     "exit %d/%d, plaintext equal: %s, stderr %r" % (e.rc, d.rc, out == j["pt"], (e.errtext() + d.errtext())[-300:]), kd)
            elif not (d2.rc == 0 and out2 == j["pt"]):
                viol(ctx, sc, [e, d2], "encrypt -t NAME used the public key of the section named NAME: the holder of that key decrypts",
                     "exit %d, plaintext equal: %s, stderr %r" % (d2.rc, out2 == j["pt"], d2.errtext()[-200:]), kd)
        ctx.evaluations += w.nruns
        count(ctx, "proc:runs", w.nruns)
        if len(ctx.samples) < 8:
            ctx.samples.append({"large-keyrings": [{"bytes": len(j["text"]), "B": j["info"]["B"], "where": j["info"]["variant"],
                                                    "sections": len(j["ref"][1])} for j in jobs[:12]]})
    finally:
        w.close()
    # ---- the Gallina parser on the smaller ones (about 0.3 s per KiB of text)
    lim = 136 * KIB if ctx.thorough() else 16 * KIB
    small = [j for j in jobs if len(j["text"]) <= lim]
    cases = []
    for j in small:
        c = pc.KCase("kr_parse", text=j["text"], oracle=self.accepted_oracle(j["ref"][1]), tags=["large-%dKiB" % (j["info"]["B"] // KIB)])
        cases.append(c)
        ents = j["ref"][1]
        cases += self.lookup_cases(j["text"], ents, [j["info"]["target"], j["info"]["target"].decode("utf-8")[:-1].encode("utf-8")], [ents[-1][1]])
    self.run_kcases(ctx, cases, tag="C17big")
    lap("Gallina on %d texts" % len(small))


# =========================================================================== C17: names that read like another field
@timed
def c17_name_family(self, ctx):
    """Names and public keys are separate name spaces, and a name is any 1..128 bytes: keyrings in which a section's Name equals the
    PublicKey / PrivateKey TEXT of another section (listed before or after it), a keyword of the format, or an option-looking string.
    The keyring is accepted with exactly these sections; a lookup by name returns exactly the section that carries the name - for
    every string that is a name or a key text of the file - and nothing for a key text that is nobody's name.  In process (clidrv
    kr_parse / kr_get / kr_name_from_key against Run/RunKeyring.v) and, for a sample, through encrypt -t / decrypt -t."""
    rng = ctx.rng
    K = self.K
    P = [K["P1"], K["P2"], K["P3"]]
    words = [b"Name", b"[Key]", b"PublicKey", b"PrivateKey", b"PublicKey = " + K["P2"], b"Name = alice", b"-t", b"--to", b"-k", b"--", b"-",
             b"--env-pass", b"-h", b"--help", b"--keyring=x", b"=", b"= x", b"#"[:0] + b"x #y", b"[Key] alice", K["P1"][:47], K["P1"] + b"="]
    cases = []
    layouts = []
    # a name equal to the PublicKey text of an EARLIER / LATER section, to the own PublicKey, to a PrivateKey text
    layouts.append([(b"alice", P[0], K["S1"]), (b"bob", P[1], None), (P[1], P[2], None)])
    layouts.append([(P[1], P[2], None), (b"alice", P[0], K["S1"]), (b"bob", P[1], None)])
    layouts.append([(b"alice", P[0], K["S1"]), (P[0], P[1], K["S2"])])
    layouts.append([(P[1], P[0], K["S1"]), (P[0], P[1], K["S2"])])               # two sections named by each other's key
    layouts.append([(P[0], P[0], K["S1"]), (b"bob", P[1], None)])                 # named by its own key
    layouts.append([(b"alice", P[0], K["S1"]), (K["S1"], P[1], None), (K["S2"], P[2], K["S2"])])
    for _ in range(12 if ctx.thorough() else 4):
        nm = rng.sample(words, 3)
        layouts.append([(nm[0], P[0], K["S1"]), (nm[1], P[1], None), (nm[2], P[2], K["S2"])])
    for _ in range(20 if ctx.thorough() else 6):
        pool = [b"alice", b"bob"] + P + [K["S1"]] + rng.sample(words, 2)
        nms = rng.sample(pool, 3)
        order = rng.sample(P, 3)
        layouts.append([(nms[i], order[i], rng.choice([None, K["S1"], K["S2"]])) for i in range(3)])
    for secs in layouts:
        text = b"\n".join(rng.choice([sec_np, sec_np, sec_pn])(*e) for e in secs)
        if ref_parse(text) != ("ok", secs):
            ctx.broken.append({"kind": "machinery", "what": "props_kvs.c17_name_family: reference reader and intended sections differ for %r" % (secs,)})
            continue
        c = pc.KCase("kr_parse", text=text, oracle=self.accepted_oracle(secs), tags=["name-like-field"])
        cases.append(c)
        asked = sorted(set([e[0] for e in secs] + [e[1] for e in secs] + [e[2] for e in secs if e[2]] + P + [b"Name", b"PublicKey"]))
        for lc in self.lookup_cases(text, secs, asked, P):
            lc.tags = ["name-like-field-" + lc.tags[0]]
            cases.append(lc)
    self.run_kcases(ctx, cases, tag="C17n")
    # ---- through the real program: -t TEXT selects the section NAMED text
    ks = pc.make_keys(ctx, 3)
    S = pc.lock_keys([(k[0], b"pw%d" % i, ctx.rbytes(32)) for i, k in enumerate(ks)])
    w = pc.World(prefix="kv_c17nm_")
    try:
        plans = []
        odd = [ks[1][2], S[1], b"--to", b"-k", b"PublicKey", b"[Key]", b"Name = x", b"--env-pass"]
        for i, nm in enumerate(odd if ctx.thorough() else [odd[0], odd[1]] + rng.sample(odd[2:], 2)):
            # sections: me (key 0), bob (key 1), then the section NAMED nm with key 2; in the second layout the named section comes first
            for first in ((False, True) if (ctx.thorough() or i < 2) else (rng.random() < 0.5,)):
                secs = [(b"me", ks[0][2], S[0]), (b"bob", ks[1][2], S[1]), (nm, ks[2][2], S[2])]
                if first:
                    secs = [secs[2], secs[0], secs[1]]
                plans.append({"i": len(plans), "nm": nm, "secs": secs, "pt": ctx.rbytes(200)})

        def one(p):
            i = p["i"]
            w.write("kr%d.txt" % i, b"\n".join(sec_np(*e) for e in p["secs"]))
            w.write("c%d.txt" % i, sec_np(b"c", ks[2][2], S[2]))
            w.write("pt%d" % i, p["pt"])
            n = p["nm"].decode("utf-8")
            e = w.run(["encrypt", "pt%d" % i, "--to=" + n, "--from=me", "-k", "kr%d.txt" % i, "-o", "ct%d" % i, "--env-pass"], env=pc.env_pw(b"pw0"))
            d = w.run(["decrypt", "ct%d" % i, "--to=c", "-k", "c%d.txt" % i, "-o", "out%d" % i, "--env-pass"], env=pc.env_pw(b"pw2"))
            d2 = w.run(["decrypt", "ct%d" % i, "--to=" + n, "-k", "kr%d.txt" % i, "-o", "outb%d" % i, "--env-pass"], env=pc.env_pw(b"pw2"))
            p.update(runs=(e, d, d2), out=w.read("out%d" % i), outb=w.read("outb%d" % i))
            return p
        for p in pmap(one, plans):
            e, d, d2 = p["runs"]
            sc = "C17 keyring with sections %r: encrypt --to=%s" % ([x[0].decode("utf-8") for x in p["secs"]], p["nm"].decode("utf-8"))
            ctx.oracle_checks += 2
            count(ctx, "name-like-field:process")
            if not (e.rc == 0 and d.rc == 0 and p["out"] == p["pt"]):
                viol(ctx, sc, [e, d], "the lookup by name returns the section whose Name is the text given (there is exactly one): the file is "
                     "encrypted to ITS public key and the holder of that key decrypts it",
                     "exit %d/%d, plaintext equal: %s, stderr %r" % (e.rc, d.rc, p["out"] == p["pt"], (e.errtext() + d.errtext())[-300:]))
            elif not (d2.rc == 0 and p["outb"] == p["pt"]):
                viol(ctx, sc, [e, d2], "decrypt --to=NAME unlocks the private key of the section whose Name is NAME",
                     "exit %d, plaintext equal: %s, stderr %r" % (d2.rc, p["outb"] == p["pt"], d2.errtext()[-300:]))
        ctx.evaluations += w.nruns
        count(ctx, "proc:runs", w.nruns)
    finally:
        w.close()


# =========================================================================== C14: generating into large keyrings
GEN_BLOCK_FIXED = len(b"\n[Key]\nName = \nPublicKey = \nPrivateKey = \n") + 48 + 112


def c14_big_plans(self, ctx, hid):
    """histories of three `key generate -o F` into a keyring whose size is just below / at / above a power-of-two offset B, sized so
    that B falls inside the Name / PublicKey / PrivateKey value of a generated block, between its lines, right before / behind it"""
    rng = ctx.rng
    ks = pc.make_keys(ctx, 1)
    S = pc.lock_keys([(ks[0][0], b"oldpw", ctx.rbytes(32))])
    old = sec_np(b"old1", ks[0][2], S[0]) + b"\n"
    where = ["Name-value-of-key-1", "PublicKey-value-of-key-1", "PrivateKey-value-of-key-1", "between-lines-of-key-1", "key-1-starts-at-B",
             "separator-is-last-byte-before-B", "key-1-ends-at-B", "Name-value-of-key-2", "PublicKey-value-of-key-3", "keyring-already-larger-than-B"]
    if ctx.thorough():
        sel = [(B, where) for B in (4 * KIB, 8 * KIB, 64 * KIB, MIB)] + [(B, where[:3] + where[6:8]) for B in (16 * KIB, 32 * KIB, 128 * KIB, 2 * MIB, 4 * MIB)]
    else:
        sel = [(4 * KIB, [where[0], where[6]]), (8 * KIB, [where[1], where[7]]), (64 * KIB, where), (MIB, where[:3] + where[5:8] + where[9:])]
    plans = []
    for B, ws in sel:
        for wh in ws:
            names = rng.sample(["erin", "frank o", "gräfin", "heidi-2", "ivan", "judy =1"], 3)
            nb = [len(n.encode("utf-8")) for n in names]
            b1 = GEN_BLOCK_FIXED + nb[0]
            b2 = GEN_BLOCK_FIXED + nb[1]
            o_name, o_pub = 1 + 6 + 7, lambda k: 1 + 6 + 7 + nb[k] + 1 + 12
            if wh == "Name-value-of-key-1":
                L0 = B - o_name - rng.randint(1, max(1, nb[0] - 1))
            elif wh == "PublicKey-value-of-key-1":
                L0 = B - o_pub(0) - rng.randint(1, 47)
            elif wh == "PrivateKey-value-of-key-1":
                L0 = B - (o_pub(0) + 48 + 1 + 13) - rng.randint(1, 111)
            elif wh == "between-lines-of-key-1":
                L0 = B - (o_pub(0) - 12)
            elif wh == "key-1-starts-at-B":
                L0 = B
            elif wh == "separator-is-last-byte-before-B":
                L0 = B - 1
            elif wh == "key-1-ends-at-B":
                L0 = B - b1
            elif wh == "Name-value-of-key-2":
                L0 = B - b1 - o_name - rng.randint(1, max(1, nb[1] - 1))
            elif wh == "PublicKey-value-of-key-3":
                L0 = B - b1 - b2 - o_pub(2) - rng.randint(1, 47)
            else:
                L0 = B + rng.randint(1, 3000)
            fl = Filler(rng, "h%d-" % hid, share_for(B))
            init = old + fl.fill(L0 - len(old))
            ref = ref_parse(init)
            if ref[0] != "ok":
                ctx.broken.append({"kind": "machinery", "what": "props_kvs.c14_big_plans built a keyring its reference reader refuses: " + ref[1]})
                continue
            plans.append({"h": hid, "state": ("large-%dKiB:B-at-%s" % (B // KIB, wh), init, [e[0] for e in ref[1]]), "names": names,
                          "pws": [rng.choice([b"", b"a", "päss ✓".encode("utf-8")]) for _ in names], "rt": True, "pt": ctx.rbytes(rng.choice([1, 1000])),
                          "big": {"B": B, "where": wh, "L0": L0}})
            hid += 1
    return plans


@timed
def c14_big(self, ctx, w, hid):
    """C14 over large keyrings: the histories are judged by C14.judge_all (exit 0, old bytes a prefix, the file parses, every earlier
    and every generated entry present in order, generated keys unlock, first encrypts to last); then EVERY key with a private key in
    the file - the old one and each generated one - is used through the real program with -k F: it encrypts to itself and decrypts."""
    plans = c14_big_plans(self, ctx, hid)
    recs = pmap(lambda pl: self.one_history(w, pl), plans)
    self.judge_all(ctx, recs)
    uses = []
    for rec in recs:
        pl = rec["plan"]
        if not all(r.rc == 0 for r in rec["runs"]):
            continue
        for k, (nm, pw) in enumerate([("old1", b"oldpw")] + list(zip(pl["names"], pl["pws"]))):
            uses.append({"rec": rec, "k": k, "name": nm, "pw": pw})

    def use(u):
        pl = u["rec"]["plan"]
        h, k = pl["h"], u["k"]
        f = "kr%d.txt" % h
        e = w.run(["encrypt", "pt%d" % h, "-t", u["name"], "-f", u["name"], "-o", "u%d_%d.ct" % (h, k), "-k", f, "--env-pass"], env=pc.env_pw(u["pw"]))
        d = w.run(["decrypt", "u%d_%d.ct" % (h, k), "-t", u["name"], "-o", "u%d_%d.out" % (h, k), "-k", f, "--env-pass"], env=pc.env_pw(u["pw"]))
        u.update(runs=(e, d), out=w.read("u%d_%d.out" % (h, k)))
        return u
    for u in pmap(use, uses):
        rec = u["rec"]
        pl = rec["plan"]
        e, d = u["runs"]
        sizes = [None if s is None else len(s) for s in rec["snaps"]]
        sc = ("C14 history %d: 3 x key generate -o F into a keyring of %d bytes (one own key, contacts, comments); offset B = %d falls at: %s; "
              "sizes of F after each command %r; then the key %r is used with -k F" % (pl["h"], sizes[0], pl["big"]["B"], pl["big"]["where"], sizes[1:], u["name"]))
        count(ctx, "large:use-every-key")
        self.judge(ctx, e.rc == 0 and d.rc == 0 and u["out"] == pl["pt"] and ("Success. File from: " + u["name"]) in d.errtext(), sc, rec["runs"] + [e, d],
                   "every key of the keyring - %s - is present and usable after the generations: it encrypts to itself, decrypts, and is "
                   "reported as the sender" % ("the earlier one" if u["k"] == 0 else "generated key %d" % u["k"]),
                   "exit %d/%d plaintext equal: %s stderr: %r" % (e.rc, d.rc, u["out"] == pl["pt"], (e.errtext() + d.errtext())[-300:]))
    return len(plans)


# =========================================================================== C09: forged locked keys under resource limits
CPU_LIMIT_S = 20
AS_LIMIT = 1 << 30                 # generous for the legitimate N = 32768, r = 8: 32 MiB


def forged_locked_keys(ctx, genuine):
    """[(label, text bytes, is_genuine)]: the 84 bytes of a genuine locked key with the version field rewritten, other lengths, other
    spellings of the base64"""
    rng = ctx.rng
    d = base64.b64decode(genuine)
    full = ctx.thorough()
    out = [("the genuine key", genuine, True)]
    for pos in range(4):
        if pos == 3 or full:
            vals = range(256)
        else:
            vals = sorted(set([0, 0x20, 0x2f, 0x40, 0x7f, 0x80, 0xfe, 0xff, d[pos] ^ 1, d[pos] ^ 0x20, d[pos] ^ 0x80] + list(range(0x30, 0x40))
                              + [rng.randrange(256) for _ in range(6)]))
        for v in vals:
            if v != d[pos]:
                x = d[:pos] + bytes([v]) + d[pos + 1:]
                out.append(("version field byte %d = 0x%02x (genuine: 0x%02x)" % (pos, v, d[pos]), base64.b64encode(x), False))
    for ver in (b"egk1", b"egk?", b"egk\x3f", b"EGK0", bytes(4), b"\xff" * 4, b"0kge", b"egk\x10", b"egk\x20", ctx.rbytes(4), b"egk" + bytes([0x30 | rng.randrange(1, 16)])):
        out.append(("version field %s" % ver.hex(), base64.b64encode(ver + d[4:]), False))
        out.append(("version field %s, random salt and ciphertext" % ver.hex(), base64.b64encode(ver + ctx.rbytes(80)), False))
    for n in (0, 1, 3, 4, 5, 35, 36, 37, 52, 83, 85, 86, 87, 100, 168, 1000, 65536):
        body = (d + ctx.rbytes(max(0, n - 84)))[:n]
        out.append(("%d bytes instead of 84" % n, base64.b64encode(body), False))
        out.append(("%d bytes instead of 84, version field egk?" % n, base64.b64encode((b"egk\x3f" + body[4:])[:n] if n >= 4 else body), False))
    # every decoded length around the genuine 84 (83 / 82 bytes are 112 characters too: '=' / '==' padding)
    for n in (range(60, 110) if full else sorted(set(list(range(78, 91)) + rng.sample(range(60, 110), 4)))):
        if n != 84:
            out.append(("%d bytes instead of 84 (%d characters)" % (n, 4 * ((n + 2) // 3)), base64.b64encode((ctx.rbytes(4) if rng.random() < 0.3 else d[:4]) + ctx.rbytes(n - 4)), False))
    # every TEXT length 100..120, with no / one / two / three trailing '=' (well-formed padding or not)
    for L in (range(100, 121) if full else sorted(set([108, 110, 111, 112, 113, 114, 116] + rng.sample(range(100, 121), 4)))):
        for pad in range(4):
            t = (genuine.rstrip(b"=") + base64.b64encode(ctx.rbytes(30)).rstrip(b"="))[:L - pad] + b"=" * pad
            if t != genuine:
                out.append(("a text of %d characters ending in %d '='" % (L, pad), t, False))
    g = genuine
    for label, t in (("no padding / cut", g[:-1]), ("one more '='", g + b"="), ("blank inside", g[:40] + b" " + g[40:]), ("line feed at the end", g + b"\n"),
                     ("URL-safe alphabet", g.replace(b"+", b"-").replace(b"/", b"_") if (b"+" in g or b"/" in g) else b"-" + g[1:]),
                     ("a character outside base64", g[:10] + "é".encode("utf-8") + g[11:]), ("empty", b""), ("twice", g + g), ("hex", d.hex().encode())):
        if t != g:
            out.append(("base64 spelling: " + label, t, False))
    return out


@timed
def c09_forged_keys(ctx):
    """Locked private keys are untrusted bytes: every forged string - on the command line of `key extract-pub` / `key change-pass`, as the
    PrivateKey of the keyring section used by `decrypt -t` / `encrypt -f` - ends in exit 1 with an Error: line, never a signal or
    abort, within RLIMIT_CPU 20 s / RLIMIT_AS 1 GiB, and costs no more CPU time and resident memory than rejecting a GENUINE key whose
    password is wrong (the one scrypt run with the fixed parameters)."""
    rng = ctx.rng
    ks = pc.make_keys(ctx, 2)
    S = pc.lock_keys([(ks[0][0], b"right", ctx.rbytes(32)), (ks[1][0], b"right", ctx.rbytes(32))])
    forged = forged_locked_keys(ctx, S[0])
    w = pc.World(prefix="kv_c09fk_")
    try:
        bob = sec_np(b"bob", ks[1][2], S[1])
        w.write("pt", ctx.rbytes(100))
        w.write("bob.txt", sec_np(b"mallory", ks[0][2]) + b"\n" + bob)
        e0 = w.run(["encrypt", "pt", "-t", "mallory", "-f", "bob", "-k", "bob.txt", "-o", "ct", "--env-pass"], env=pc.env_pw(b"right"))
        if e0.rc != 0:
            ctx.broken.append({"kind": "machinery", "what": "props_kvs.c09_forged_keys: could not prepare a ciphertext: " + e0.errtext()[-200:]})
            return
        surfaces = ["key extract-pub", "key change-pass", "decrypt -t (PrivateKey in the keyring)", "encrypt -f (PrivateKey in the keyring)"]
        jobs = []

        def job(surf, label, text, genuine, pw=b"right"):
            jobs.append({"i": len(jobs), "surf": surf, "label": label, "text": text, "genuine": genuine, "pw": pw})
        # what rejecting legitimately costs: the genuine key with a wrong password, three times per surface
        for surf in surfaces:
            for _ in range(3):
                job(surf, "REFERENCE: the genuine key, wrong password", S[0], False, pw=b"wrong")
        def keep(f):
            if f[2]:
                return True
            if f[0].startswith("version field byte 3"):
                v = int(f[0].split("= 0x")[1][:2], 16)
                return 0x30 <= v <= 0x3f or v in (0, 0x20, 0x40, 0x7f, 0xff)
            return rng.random() < 0.25
        short = [f for f in forged if keep(f)]
        for surf in surfaces:
            for label, text, genuine in (forged if (surf == surfaces[0] or ctx.thorough()) else short):
                if not surf.startswith("key ") and (text != text.strip() or b"\n" in text):
                    continue            # inside a keyring the parser trims the value: that is the genuine key again
                job(surf, label, text, genuine)

        def one(j):
            i, t = j["i"], j["text"]
            env = pc.env_pw(j["pw"], b"new password")
            if j["surf"].startswith("key "):
                argv = ["key", j["surf"].split()[1], t, "--env-pass"]
            else:
                w.write("kr%d.txt" % i, sec_np(b"mallory", ks[0][2], t) + b"\n" + sec_np(b"bob", ks[1][2]))
                if j["surf"].startswith("decrypt"):
                    argv = ["decrypt", "ct", "-t", "mallory", "-k", "kr%d.txt" % i, "-o", "out%d" % i, "--env-pass"]
                else:
                    argv = ["encrypt", "pt", "-f", "mallory", "-t", "bob", "-k", "kr%d.txt" % i, "-o", "ct%d" % i, "--env-pass"]
            j["run"] = run_limited(w, argv, env=env, cpu=CPU_LIMIT_S, aslimit=AS_LIMIT, timeout=90)
            return j
        jobs = pmap(one, jobs)
        ref = {}
        for j in jobs:
            if j["label"].startswith("REFERENCE"):
                r = j["run"]
                ctx.oracle_checks += 1
                bad = error_exit(r)
                if bad:
                    viol(ctx, "C09 %s: a genuine locked key, wrong password" % j["surf"], [r], "exit 1 with an Error: line", bad)
                a = ref.setdefault(j["surf"], {"cpu": 0.0, "rss": 0})
                a["cpu"], a["rss"] = max(a["cpu"], r.cpu), max(a["rss"], r.maxrss)
        if any(ref.get(sf, {}).get("rss", 0) < 16 * KIB or ref[sf]["cpu"] <= 0 for sf in surfaces):
            ctx.broken.append({"kind": "machinery", "what": "props_kvs.c09_forged_keys: no resource usage measured for the reference runs: %r" % (ref,)})
            return
        nviol = 0
        for j in jobs:
            if j["label"].startswith("REFERENCE"):
                continue
            r = j["run"]
            ctx.oracle_checks += 2
            count(ctx, "forged-key:" + j["surf"].split(" (")[0])
            a = ref.get(j["surf"], {"cpu": 0.0, "rss": 0})
            sc = "C09 %s given a forged locked private key: %s (%d characters: %s)" % (
                j["surf"], j["label"], len(j["text"]), j["text"][:120].decode("utf-8", "replace") + ("..." if len(j["text"]) > 120 else ""))
            bad = None
            if j["genuine"]:
                if not (r.rc == 0 and r.sig is None):
                    bad = ("the genuine key with its password is accepted (exit 0)", "exit %d; stderr %r" % (r.rc, r.errtext()[-200:]))
            else:
                eb = error_exit(r)
                if eb:
                    bad = ("untrusted bytes in place of a locked private key are refused with an error: exit 1 and an Error: line, never a "
                           "panic, abort or signal (limits: %d s CPU, %d MiB address space)" % (CPU_LIMIT_S, AS_LIMIT >> 20), eb)
            if not bad and (r.maxrss > a["rss"] + 8 * KIB or r.cpu > 3 * a["cpu"] + 1.0):
                bad = ("the cost of handling the string is bounded by constants no byte of it can raise: at most what the genuine key with a wrong "
                       "password costs (one scrypt run with N = 32768, r = 8: measured %.2f s CPU, %d KiB resident; allowed: 3 x + 1 s, + 8 MiB)"
                       % (a["cpu"], a["rss"]), "%.2f s CPU, %d KiB resident, exit %d" % (r.cpu, r.maxrss, r.rc))
            if bad:
                nviol += 1
                if nviol <= 6:
                    viol(ctx, sc, [r], bad[0], bad[1])
        ctx.evaluations += w.nruns
        count(ctx, "proc:runs", w.nruns)
        if len(ctx.samples) < 8:
            ctx.samples.append({"forged-locked-keys": len(jobs), "reference_cost": ref})
    finally:
        w.close()


# =========================================================================== C09: keyring locations
@timed
def c09_keyring_locations(ctx):
    """The keyring LOCATION is part of the argument vector / environment the tool is started with: whatever string names it (-k,
    --keyring=, KESTREL_KEYRING), with HOME set, not set, empty or naming nothing, the run ends with status 1 and an Error: line -
    never a panic (101) or a signal - unless the location is a usable keyring (then 0).  Commands are complete (input file present,
    -o given) so that the keyring is the first thing that can fail."""
    rng = ctx.rng
    ks = pc.make_keys(ctx, 2)
    S = pc.lock_keys([(ks[0][0], b"pw", ctx.rbytes(32)), (ks[1][0], b"pw", ctx.rbytes(32))])
    kr = sec_np(b"alice", ks[0][2], S[0]) + b"\n" + sec_np(b"bob", ks[1][2], S[1])
    w = pc.World(prefix="kv_c09loc_")
    try:
        cwd = os.path.join(w.dir, "work")
        os.makedirs(os.path.join(cwd, "adir"))
        os.makedirs(os.path.join(w.dir, "home"))
        for name, data in (("work/kr.txt", kr), ("work/pt", ctx.rbytes(64)), ("work/empty", b""), ("work/notutf8", b"[Key]\nName = \xff\n"),
                           ("work/adir/kr.txt", kr)):
            w.write(name, data)
        e0 = w.run(["encrypt", "work/pt", "-t", "alice", "-f", "bob", "-k", "work/kr.txt", "-o", "work/ct", "--env-pass"], env=pc.env_pw(b"pw"))
        if e0.rc != 0:
            ctx.broken.append({"kind": "machinery", "what": "props_kvs.c09_keyring_locations: could not prepare a ciphertext: " + e0.errtext()[-200:]})
            return
        usable = ["kr.txt", "./kr.txt", "adir/kr.txt", "adir/../kr.txt", os.path.join(cwd, "kr.txt"), "adir//kr.txt"]
        tilde = ["~", "~/", "~/x", "~/kr-missing.txt", "~é", "~été/keyring.txt", "~　", "~\U0001F600", "~é", "~~", "~x", "~root", "~/../x", "~ /x",
                 "é~", "a~", "~" * 300, "~" + "é" * 200]
        other = ["", " ", "-", "--", ".", "adir", "adir/", "./", "kr.txt/", "kr.txt/x", "missing", "missing/kr.txt", "empty", "notutf8", "pt", "é", "\n", "kr.txt\n",
                 "kr.txt ", "a" * 255, "a" * 256, "d/" * 2100 + "kr.txt", "x" * 5000, "x" * 70000, "$HOME/kr.txt", "${HOME}", "%HOME%", "file://kr.txt", "\\", "*", "k?.txt",
                 "\u202ekr.txt", "\ufeffkr.txt", "kr.txt\u0001"]
        nonutf = [b"kr\xff.txt", b"~\xff", b"\xc3", b"~\xe9t\xe9", b"kr.txt\xed\xa0\x80", b"\xff" * 300]
        homes = [("HOME = the scratch directory", "scratch"), ("HOME = an empty directory", os.path.join(w.dir, "home")), ("HOME not set", None), ("HOME empty", ""),
                 ("HOME names nothing", os.path.join(w.dir, "nohome")), ("HOME = a relative path", "adir"), ("HOME = a multi-byte name", "hôme")]
        jobs = []

        def add(loc, usable_, homes_):
            raw = isinstance(loc, bytes)
            for hl, hv in homes_:
                for cmd in (["decrypt", "ct", "-t", "alice", "-o", "OUT", "--env-pass"], ["encrypt", "pt", "-t", "alice", "-f", "bob", "-o", "OUT", "--env-pass"]):
                    for ch in ("-k", "--keyring=", "env"):
                        if ch == "-k":
                            argv, env = cmd[:2] + [b"-k" if raw else "-k", loc] + cmd[2:], {}
                        elif ch == "--keyring=":
                            argv, env = cmd + [(b"--keyring=" if raw else "--keyring=") + loc], {}
                        else:
                            argv, env = list(cmd), {"KESTREL_KEYRING": loc}
                        jobs.append({"i": len(jobs), "loc": loc, "argv": argv, "env": env, "home": (hl, hv), "via": ch, "usable": usable_})
        full = ctx.thorough()
        for loc in usable:
            add(loc, True, homes if full else homes[:1] + [rng.choice(homes[1:])])
        for loc in tilde:
            add(loc, False, homes if full else homes[:2] + [rng.choice(homes[2:])])
        for loc in other:
            add(loc, False, homes if full else homes[:1] + ([rng.choice(homes[1:])] if rng.random() < 0.5 else []))
        for loc in nonutf:
            add(loc, False, homes if full else homes[:1] + [homes[2]])

        def one(j):
            argv = [(a.replace("OUT", "out%d" % j["i"]) if isinstance(a, str) else a) for a in j["argv"]]
            env = dict(pc.env_pw(b"pw"))
            env.update(j["env"])
            j["run"] = run_limited(w, argv, env=env, home=j["home"][1], cwd=cwd, cpu=CPU_LIMIT_S, aslimit=AS_LIMIT, timeout=60)
            return j
        jobs = pmap(one, jobs)
        nviol = 0
        for j in jobs:
            r = j["run"]
            ctx.oracle_checks += 1
            loc = j["loc"]
            count(ctx, "keyring-location:" + ("usable" if j["usable"] else "tilde" if (loc[:1] in ("~", b"~")) else "not-utf8" if isinstance(loc, bytes) else "other"))
            count(ctx, "keyring-location:" + j["home"][0])
            t = r.errtext()
            count(ctx, "keyring-location:outcome:" + ("exit 0" if r.rc == 0 else t[t.find("Error: "):][:40].split(":", 2)[1].strip()[:32] if "Error: " in t else "exit %d" % r.rc))
            shown = loc if isinstance(loc, str) else repr(loc)
            sc = "C09 keyring location %s given by %s; %s; %s" % (shown if len(shown) < 200 else shown[:80] + "... (%d characters)" % len(shown),
                                                                  {"-k": "-k", "--keyring=": "--keyring=LOCATION", "env": "KESTREL_KEYRING"}[j["via"]], j["home"][0], r.argv[0])
            if j["usable"]:
                ok = r.rc == 0 and r.sig is None
                exp = "the location names a well-formed keyring holding the keys asked for: the command succeeds"
                obs = "exit %d; stderr %r" % (r.rc, r.errtext()[-200:])
            else:
                eb = error_exit(r)
                ok = eb is None
                exp = ("whatever string names the keyring, and whatever HOME is: when no usable keyring is there the tool ends with status 1 and an "
                       "Error: line, never a panic (status 101) or a signal")
                obs = eb
            if not ok:
                nviol += 1
                if nviol <= 6:
                    viol(ctx, sc, [r], exp, obs)
        ctx.evaluations += w.nruns
        count(ctx, "proc:runs", w.nruns)
    finally:
        w.close()


# =========================================================================== C09: keyring field VALUES made of punctuation
R3_PUNCT = ['"', "'", "=", "#", "[", "]", ";", ":", "\\", "/", "-", "~", "*", "?", "%", "$", "`", ",", ".", "!", "(", ")", "{", "}", "<", ">", "|", "&", "@", "^",
            "+", "_", "\u00e9", "\u201d", "\u00ab", "\U0001F511"]
R3_SHORT = ['""', "''", '"x', 'x"', '"x"', "'x'", "[]", "==", "\"'", '" "', '"\t"', '"""', "[Key]", "[Key", "Name", "Name = x", "= x", "#x", '"alice"', "\\\"", "x=",
            '"=', "<x>", "${HOME}", "%s", "\u201cx\u201d"]


@timed
def c09_r3_keyring_values(ctx):
    """A keyring FILE is untrusted bytes: sections whose Name / PublicKey / PrivateKey VALUE is a single punctuation character (every
    ASCII punctuation mark used by configuration formats, some multi-byte ones) or a short string of them (quote pairs, brackets, field
    keywords), written in several spellings (blanks / TABs around the '=', CRLF line end, no blanks), placed before or behind a
    well-formed section, then read by `decrypt` and `encrypt` processes: exit 0, or exit 1 with an Error: line - never a panic (101),
    abort, signal or hang (60 s)."""
    rng = ctx.rng
    full = ctx.thorough()
    ks = pc.make_keys(ctx, 2)
    S = pc.lock_keys([(ks[0][0], b"pw", ctx.rbytes(32))])
    alice = sec_np(b"alice", ks[0][2], S[0])
    w = pc.World(prefix="kv_c09val_")
    try:
        w.write("pt", ctx.rbytes(50))
        w.write("kr0.txt", alice)
        e0 = w.run(["encrypt", "pt", "-t", "alice", "-f", "alice", "-k", "kr0.txt", "-o", "ct", "--env-pass"], env=pc.env_pw(b"pw"))
        if e0.rc != 0:
            ctx.broken.append({"kind": "machinery", "what": "props_kvs.c09_r3_keyring_values: could not prepare a ciphertext: " + e0.errtext()[-200:]})
            return
        spell = [("F = V", lambda f, v: f + " = " + v), ("F=V", lambda f, v: f + "=" + v), ("TAB F =   V  ", lambda f, v: "\t" + f + " =   " + v + "  "),
                 ("F = V CR", lambda f, v: f + " = " + v + "\r"), ("F =V TAB", lambda f, v: f + " =" + v + "\t")]
        jobs = []

        def add(field, val, sp, pos, cmd):
            other = {"Name": "Name = mallory", "PublicKey": "PublicKey = " + ks[1][2].decode(), "PrivateKey": None}
            lines = ["[Key]"]
            for f in ("Name", "PublicKey", "PrivateKey"):
                if f == field:
                    lines.append(sp[1](f, val))
                elif other[f]:
                    lines.append(other[f])
            sec = ("\n".join(lines) + "\n").encode("utf-8")
            text = {"before": sec + b"\n" + alice, "behind": alice + b"\n" + sec, "alone": sec}[pos]
            jobs.append({"i": len(jobs), "field": field, "val": val, "spell": sp[0], "pos": pos, "cmd": cmd, "text": text})
        vals = R3_PUNCT + R3_SHORT
        for field in ("Name", "PublicKey", "PrivateKey"):
            for val in vals:
                combos = [(sp, pos) for sp in spell for pos in ("before", "behind", "alone")]
                for sp, pos in (combos if full else rng.sample(combos, 2 if (field == "Name" and len(val) == 1) else 1)):
                    add(field, val, sp, pos, "decrypt-nobody")
                if full or rng.random() < 0.12:
                    add(field, val, rng.choice(spell), rng.choice(["before", "behind"]), rng.choice(["encrypt-alice", "decrypt-alice"]))

        def one(j):
            kr = "kr%d.txt" % j["i"]
            w.write(kr, j["text"])
            argv = {"decrypt-nobody": ["decrypt", "ct", "-t", "nobody", "-k", kr, "-o", "out%d" % j["i"], "--env-pass"],
                    "decrypt-alice": ["decrypt", "ct", "-t", "alice", "-k", kr, "-o", "out%d" % j["i"], "--env-pass"],
                    "encrypt-alice": ["encrypt", "pt", "-t", "alice", "-f", "alice", "-k", kr, "-o", "out%d" % j["i"], "--env-pass"]}[j["cmd"]]
            j["run"] = w.run(argv, env=pc.env_pw(b"pw"), timeout=60)
            return j
        jobs = pmap(one, jobs)
        nviol = 0
        for j in jobs:
            r = j["run"]
            r.sig = -r.rc if r.rc < 0 else None
            ctx.oracle_checks += 1
            count(ctx, "keyring-value:" + j["field"])
            count(ctx, "keyring-value:outcome:exit %d" % r.rc)
            if r.rc == 0 and r.sig is None:
                continue
            eb = error_exit(r)
            if eb:
                nviol += 1
                if nviol <= 6:
                    viol(ctx, "C09 keyring value: a section whose %s value is %r (spelling '%s', section %s the well-formed one), read by %s"
                         % (j["field"], j["val"], j["spell"], j["pos"], j["cmd"]), [r],
                         "whatever bytes the keyring file holds, the tool ends with status 0, or status 1 and an Error: line - never a panic (status 101), "
                         "abort or signal", eb, extra={"keyring": j["text"].decode("utf-8", "replace")})
        ctx.evaluations += w.nruns
        count(ctx, "proc:runs", w.nruns)
    finally:
        w.close()


def c09_cli_hostile(ctx):
    """entry point for C09 (props.py)"""
    c09_forged_keys(ctx)
    c09_keyring_locations(ctx)
    c09_r3_keyring_values(ctx)
