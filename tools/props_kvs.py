"""props_kvs - input / environment families of the keyring and CLI surfaces that the generators of C14, C17 and C09 did not reach:

  * keyrings LARGER than any buffer a reader might stop at (4 KiB .. 4 MiB), the key under test placed before, behind and across
    each power-of-two offset (C14: generate into such a keyring, then use every key; C17: the lookups of the real program equal
    those of a reference reader of the format),
  * names that read like another field of the file (another entry's PublicKey / PrivateKey text, keywords, option-looking strings),
  * forged locked private keys given to every command that unlocks one, run under a CPU-time and address-space limit (C09:
    errors only, cost of rejecting bounded by what a legitimate wrong-password unlock costs),
  * keyring LOCATIONS (-k / KESTREL_KEYRING) of every shape, with HOME set / unset / empty (C09: never a panic).

Called from the classes in props_cli.py (C14, C17) and props.py (C09); everything here runs real processes of the harness build of
the CLI inside scratch directories that are removed afterwards."""
import base64, hashlib, json, os, signal, subprocess, sys, time, zlib
from concurrent.futures import ThreadPoolExecutor

import vlib
import props_cli as pc
from vlib import hexs, unhex

KIB = 1024
MIB = 1024 * 1024


# =========================================================================== a reference reader of the keyring format
def ref_b64_of(s, n):
    """s (text) is the padded, canonical standard-alphabet base64 of exactly n bytes"""
    try:
        b = s.encode("ascii")
        d = base64.b64decode(b, validate=True)
    except Exception:
        return False
    return len(d) == n and base64.b64encode(d) == b


def ref_parse(data):
    """The keyring format as the documentation and property C17 describe it, read by an independent little reader (not a
    transcription of keyring.rs; it is compared with the Gallina parser through the implementation on every small kr_parse case of
    C17).  UTF-8 text; lines end with LF; TABs are dropped and white space around a line is ignored; a line beginning with [Key]
    opens a section; Name / PublicKey / PrivateKey lines (key, '=', value; white space around the value ignored) may occur once per
    section and only inside one; '#' lines and blank lines are skipped; anything else is refused; every section needs a Name of
    1..128 bytes and a PublicKey that is the base64 of 36 bytes, a PrivateKey if present is the base64 of 84 bytes; no name and no
    public key occurs twice; at least one section.
    -> ("ok", [(name, pub, priv | None)])  (bytes, in file order)   |   ("err", why)"""
    try:
        s = data.decode("utf-8")
    except UnicodeDecodeError:
        return ("err", "not UTF-8")
    WS = pc.RUST_WS
    secs, cur = [], None
    names, pubs = set(), set()

    def close(c):
        if "n" not in c or "p" not in c:
            return "a section without Name / PublicKey"
        if c["n"] in names:
            return "name twice"
        if c["p"] in pubs:
            return "public key twice"
        names.add(c["n"])
        pubs.add(c["p"])
        secs.append((c["n"].encode("utf-8"), c["p"].encode("utf-8"), c["s"].encode("utf-8") if "s" in c else None))
        return None
    for line in s.split("\n"):
        l = line.replace("\t", "") if "\t" in line else line
        if l and (ord(l[0]) in WS or ord(l[-1]) in WS):
            l = pc.rust_trim(l)
        if not l or l[0] == "#":
            continue
        if l.startswith("[Key]"):
            if cur is not None:
                e = close(cur)
                if e:
                    return ("err", e)
            cur = {}
            continue
        for key, fld, size in (("Name", "n", None), ("PublicKey", "p", 36), ("PrivateKey", "s", 84)):
            if l.startswith(key):
                if cur is None:
                    return ("err", key + " outside a section")
                if fld in cur:
                    return ("err", key + " twice in a section")
                if "=" not in l:
                    return ("err", key + " without a value")
                v = pc.rust_trim(l.split("=", 1)[1])
                if size is None:
                    if not (1 <= len(v.encode("utf-8")) <= 128):
                        return ("err", "name of %d bytes" % len(v.encode("utf-8")))
                elif not ref_b64_of(v, size):
                    return ("err", "malformed " + key)
                cur[fld] = v
                break
        else:
            return ("err", "a line that is neither a section head, a field, a comment nor blank")
    if cur is None:
        return ("err", "no section")
    e = close(cur)
    if e:
        return ("err", e)
    return ("ok", secs)


def ref_oracle_on_case(c):
    """direct oracle for a kr_parse case of the in-process driver: acceptance and entries equal the reference reader's"""
    want = ref_parse(c.a["text"])
    inner = c.expect_fn

    def f(r):
        m = inner(r) if inner else None
        if m:
            return m
        if r["code"] in (1, 999) or r["code"] >= 900:
            return None                 # a crash: reported by the no-crash oracle
        if want[0] == "ok" and r["code"] != 0:
            return ("the keyring is well-formed (reference reader: %d sections): it is accepted" % len(want[1]), r["outcome"] + " " + r["msg"])
        if want[0] == "err" and r["code"] == 0:
            return ("accepted only if well-formed; the reference reader refuses the text: " + want[1], "accepted, entries=%r" % (r["entries"],))
        if want[0] == "ok" and r["entries"] != want[1]:
            return ("the accepted entries are exactly the sections of the file, in order: %r" % (want[1][:6],), "entries=%r" % (r["entries"][:6],))
        return None
    return f


# =========================================================================== text of large keyrings
FIRST = ["Ana", "Bo", "Chidi", "Dmitri", "Eve", "Farid", "Gudrun", "Hye-jin", "Ines", "Jürgen", "Kōji", "Li Na", "Mélanie"]
WORDS = ["keys", "of", "the", "team", "ops", "do", "not", "edit", "by", "hand", "rotated", "2024", "contact", "über", "préféré", "山田",
         "offsite", "backup", "ask", "before", "removing", "=", "[old]", "Name", "PublicKey"]


class Filler:
    """keyring text of an exact length made of contact sections (Name + PublicKey with a correct checksum, names unique by a running
    number), comment blocks, blank lines; every piece ends with a line feed"""

    def __init__(self, rng, tag, share):
        self.rng, self.tag, self.share, self.n = rng, tag, share, 0
        self.contacts = []              # (name, pub) in the order produced

    def contact(self):
        rng = self.rng
        self.n += 1
        k = rng.getrandbits(256).to_bytes(32, "big")
        name = ("%s %s%05d" % (rng.choice(FIRST), self.tag, self.n)).encode("utf-8")
        pub = base64.b64encode(k + hashlib.sha256(k).digest()[:4])
        self.contacts.append((name, pub))
        r = rng.random()
        if r < 0.8:
            return b"[Key]\nName = " + name + b"\nPublicKey = " + pub + b"\n" + (b"\n" if r < 0.4 else b"")
        if r < 0.9:
            return b"[Key]\r\nPublicKey = " + pub + b"\r\nName = " + name + b"\r\n"
        return b"  [Key]\n# " + name + b"\n\tName=" + name + b"\n  PublicKey =" + pub + b"  \n"

    def comments(self, room):
        rng = self.rng
        out = b""
        for _ in range(rng.randint(1, 30)):
            l = ("# " + " ".join(rng.choice(WORDS) for _ in range(rng.randint(0, 14)))).encode("utf-8") + rng.choice([b"\n", b"\n", b"\n", b"\r\n", b"\n\n"])
            if len(out) + len(l) > room:
                break
            out += l
        return out

    def fill(self, n):
        """exactly n bytes (n >= 0), ending with a line feed when n > 0"""
        rng = self.rng
        out, left = [], n
        while left > 700:
            b = self.contact() if rng.random() < self.share else self.comments(left - 400)
            if not b or len(b) > left - 300:
                break
            out.append(b)
            left -= len(b)
        while left > 0:
            k = min(left, 900)
            if left - k == 1:
                k -= 1
            out.append(b"\n" if k == 1 else b"#" + b"." * (k - 2) + b"\n")
            left -= k
        r = b"".join(out)
        assert len(r) == n
        return r


def sec_np(name, pub, priv=None):
    return pc.key_block(name, pub, priv)


def sec_pn(name, pub, priv=None):
    return b"[Key]\nPublicKey = " + pub + b"\n" + (b"PrivateKey = " + priv + b"\n" if priv else b"") + b"Name = " + name + b"\n"


BIG_VARIANTS = ["first", "last", "section-starts-at-B", "section-ends-at-B", "file-ends-at-B", "file-ends-at-B+1", "file-ends-at-B-1",
                "B-inside-Name-value", "B-inside-multibyte-character-of-Name", "B-inside-PublicKey-value", "B-inside-PrivateKey-value",
                "B-between-Name-and-PublicKey-lines", "B-behind-section-head"]
TARGET_NAMES = ["bobby", "alice smith", "carol-anne", "dave the 2nd", "Name", "robert=bob"]


def big_keyring(rng, B, variant, me, tgt, share, tag):
    """a well-formed keyring in which the byte offset B - the place where a reader that takes only the first B bytes stops - falls
    where `variant` says relative to the section of the key under test `tgt`.  me / tgt: (name, pub, priv) bytes; tgt's name is chosen here.
    -> (text, info) with info = {variant, B, target, cut (the name a reader stopping at B would see, or None), contacts}"""
    fl = Filler(rng, tag, share)
    meb = sec_np(*me) + b"\n"
    name = rng.choice(TARGET_NAMES).encode("utf-8")
    cut = None
    extra = rng.randint(300, 6000)
    if variant == "B-inside-multibyte-character-of-Name":
        name = rng.choice(["bobéby", "alïce", "könig", "山田太郎"]).encode("utf-8")
    pub, priv = tgt[1], tgt[2]
    np_, pn_ = sec_np(name, pub, priv), sec_pn(name, pub, priv)
    tail_end = sec_np(b"zz last " + tag.encode(), base64.b64encode((lambda k: k + hashlib.sha256(k).digest()[:4])(rng.getrandbits(256).to_bytes(32, "big"))))

    def tail():
        return fl.fill(extra) + tail_end
    if variant == "first":
        text = np_ + b"\n" + meb
        text += fl.fill(max(0, B - len(text)) + extra) + tail_end
    elif variant == "last":
        text = meb + fl.fill(B - len(meb) + extra) + np_
    elif variant in ("file-ends-at-B", "file-ends-at-B+1", "file-ends-at-B-1"):
        total = B + {"file-ends-at-B": 0, "file-ends-at-B+1": 1, "file-ends-at-B-1": -1}[variant]
        text = meb + fl.fill(total - len(meb) - len(np_)) + np_
        assert len(text) == total
    else:
        sec = np_
        if variant == "section-starts-at-B":
            off = 0
        elif variant == "section-ends-at-B":
            off = len(np_)
        elif variant == "B-behind-section-head":
            off = 6
        elif variant == "B-between-Name-and-PublicKey-lines":
            off = np_.index(b"PublicKey")
        elif variant == "B-inside-PublicKey-value":
            off = np_.index(b"PublicKey = ") + 12 + rng.randint(1, len(pub) - 1)
        elif variant == "B-inside-PrivateKey-value":
            off = np_.index(b"PrivateKey = ") + 13 + rng.randint(1, len(priv) - 1)
        elif variant == "B-inside-Name-value":
            sec = pn_
            k = rng.randint(1, len(name) - 1)
            off = pn_.index(b"Name = ") + 7 + k
            cut = name[:k].strip() or None
        elif variant == "B-inside-multibyte-character-of-Name":
            sec = pn_
            k = rng.choice(pc.cut_points_utf8(name))
            off = pn_.index(b"Name = ") + 7 + k
        else:
            raise ValueError(variant)
        head = meb + fl.fill(B - off - len(meb))
        text = head + sec + (tail() if (variant.startswith("section-") or rng.random() < 0.5) else b"")
        assert len(head) + off == B
    return text, {"variant": variant, "B": B, "target": name, "cut": cut, "contacts": fl.contacts}


def describe_big(text, info):
    B = info["B"]
    d = {"bytes": len(text), "sha256": hashlib.sha256(text).hexdigest(), "offset_B": B, "B_falls": info["variant"],
         "key_under_test": info["target"].decode("utf-8"), "sections": text.count(b"[Key]"),
         "bytes_B-120..B": text[max(0, B - 120):B].decode("utf-8", "replace"), "bytes_B..B+120": text[B:B + 120].decode("utf-8", "replace"),
         "construction": "props_kvs.big_keyring (contact sections and comment blocks from the run's seed)"}
    if len(text) <= 160 * KIB:
        d["keyring_zlib_base64"] = base64.b64encode(zlib.compress(text, 9)).decode()
    return d


# =========================================================================== processes with limits and resource usage
LIMIT_HELPER = r'''
import os, sys, resource, json, time
cpu, asl, rep, cwd = int(sys.argv[1]), int(sys.argv[2]), sys.argv[3], sys.argv[4]
t0 = time.time()
pid = os.fork()
if pid == 0:
    try:
        os.chdir(cwd)
        resource.setrlimit(resource.RLIMIT_CORE, (0, 0))
        if cpu:
            resource.setrlimit(resource.RLIMIT_CPU, (cpu, cpu + 2))
        if asl:
            resource.setrlimit(resource.RLIMIT_AS, (asl, asl))
        os.execv(sys.argv[5], sys.argv[5:])
    finally:
        os._exit(127)
_, st, ru = os.wait4(pid, 0)
with open(rep, "w") as f:
    json.dump({"status": st, "cpu": ru.ru_utime + ru.ru_stime, "maxrss": ru.ru_maxrss, "wall": time.time() - t0}, f)
'''
import itertools
_seq = itertools.count(1)


def run_limited(w, argv, env=None, home="scratch", stdin=None, cpu=0, aslimit=0, timeout=120, cwd=None):
    """one process of the CLI in the scratch world w; argv items are str or bytes (bytes: arguments that are not UTF-8).
    home: "scratch" (HOME = the scratch directory) | None (no HOME in the environment) | a string.  cpu / aslimit: RLIMIT_CPU in
    seconds / RLIMIT_AS in bytes for the CLI process only (0 = none).  The process is started by a small helper that forks, sets
    the limits, execs and collects wait4's resource usage: the returned Run carries .sig (signal number or None), .cpu (user +
    system seconds), .maxrss (KiB; of the CLI process: the helper is a 10 MB process, so what it leaves in ru_maxrss at exec is
    below scrypt's 32 MiB), .wall"""
    e = {"PATH": "/usr/bin:/bin", "LANG": "C.UTF-8"}
    if home == "scratch":
        e["HOME"] = w.dir
    elif home is not None:
        e["HOME"] = home
    if env:
        e.update(env)
    e = {os.fsencode(k): (v if isinstance(v, bytes) else os.fsencode(v)) for k, v in e.items()}
    rep = os.path.join(w.dir, ".rusage_%d_%d" % (os.getpid(), next(_seq)))
    cmd = [sys.executable, "-X", "utf8", "-I", "-S", "-c", LIMIT_HELPER, str(int(cpu)), str(int(aslimit)), rep, cwd or w.dir, w.bin] + \
        [a if isinstance(a, bytes) else a.encode("utf-8") for a in argv]
    pr = subprocess.Popen(cmd, env=e, stdin=subprocess.PIPE if stdin is not None else subprocess.DEVNULL, stdout=subprocess.PIPE,
                          stderr=subprocess.PIPE, start_new_session=True, cwd=w.dir)
    try:
        out, err = pr.communicate(stdin, timeout=timeout)
        timed_out = False
    except subprocess.TimeoutExpired:
        try:
            os.killpg(pr.pid, signal.SIGKILL)
        except OSError:
            pass
        out, err = pr.communicate()
        timed_out = True
    info = {}
    try:
        with open(rep) as f:
            info = json.load(f)
        os.unlink(rep)
    except (OSError, ValueError):
        pass
    st = info.get("status")
    sig = None
    if timed_out or st is None:
        rc, err = 124, (err or b"") + b"\n[timeout]"
    elif os.WIFSIGNALED(st):
        sig = os.WTERMSIG(st)
        rc = -sig
    else:
        rc = os.WEXITSTATUS(st)
    w.nruns += 1
    shown_env = dict(env or {})
    shown_env["HOME"] = {"scratch": "<scratch directory>", None: "<not set>"}.get(home, home)
    r = pc.Run(list(argv), shown_env, stdin, rc, out or b"", err or b"")
    r.sig, r.cpu, r.maxrss, r.wall = sig, info.get("cpu", 0.0), info.get("maxrss", 0), info.get("wall", 0.0)
    r.limits = {"RLIMIT_CPU_s": cpu, "RLIMIT_AS_bytes": aslimit}
    return r


def describe_run(r):
    def show(a):
        t = a if isinstance(a, str) else repr(a)
        return t if len(t) <= 400 else t[:200] + "... (%d characters)" % len(t)
    d = {"argv": ["kestrel"] + [show(a) for a in r.argv], "env": dict((k, show(v)) for k, v in r.env.items()), "exit": r.rc, "stderr": r.errtext()[-400:]}
    if r.stdin is not None:
        d["stdin"] = r.stdin if isinstance(r.stdin, str) else ("%d bytes: %s" % (len(r.stdin), r.stdin[:64].hex()))
    if getattr(r, "sig", None) is not None:
        d["killed_by_signal"] = r.sig
    if hasattr(r, "cpu"):
        d["cpu_s"], d["max_rss_KiB"], d["limits"] = round(r.cpu, 3), r.maxrss, r.limits
    return d


def error_exit(r):
    """None when the run ended as an ordinary error (exit 1 with an Error: line), else what it did instead"""
    if getattr(r, "sig", None) is not None:
        return "killed by signal %d; stderr %r" % (r.sig, r.errtext()[-200:])
    if r.rc != 1:
        return "exit %d; stderr %r" % (r.rc, r.errtext()[-200:])
    if "Error: " not in r.errtext():
        return "exit 1 without an Error: line; stderr %r" % r.errtext()[-200:]
    return None


def pmap(fn, items):
    with ThreadPoolExecutor(max_workers=pc.NPROC) as ex:
        return list(ex.map(fn, items))


MAX_REPORTED = 8          # failing inputs written per family and run; the rest are counted in the distribution


def viol(ctx, scenario, runs, expected, observed, extra=None):
    fam = "violations:" + scenario.split(":")[0].split(" given")[0].split(" keyring")[0][:40]
    count(ctx, fam)
    if ctx.distribution[fam] > MAX_REPORTED:
        return
    inp = {"kind": "proc", "scenario": scenario, "commands": [describe_run(r) for r in runs]}
    if extra:
        inp.update(extra)
    ctx.violations.append({"input": inp, "expected": expected, "observed": observed, "finding_key": None})


def count(ctx, key, n=1):
    ctx.distribution[key] = ctx.distribution.get(key, 0) + n


def timed(fn):
    """records the wall time of a family in the evidence (distribution key time_s:<family>)"""
    def g(*a, **k):
        t0 = time.time()
        try:
            return fn(*a, **k)
        finally:
            ctx = [x for x in a if hasattr(x, "distribution")][0]
            ctx.distribution["time_s:props_kvs." + fn.__name__] = round(time.time() - t0, 1)
    g.__name__, g.__doc__ = fn.__name__, fn.__doc__
    return g


# =========================================================================== C17: lookups in large keyrings, through the real program
def c17_boundaries(ctx):
    if ctx.thorough():
        return [(4 * KIB, BIG_VARIANTS), (8 * KIB, BIG_VARIANTS), (32 * KIB, BIG_VARIANTS[:4] + BIG_VARIANTS[7:10]), (64 * KIB, BIG_VARIANTS),
                (128 * KIB, BIG_VARIANTS[:4] + BIG_VARIANTS[7:10]), (MIB, BIG_VARIANTS), (2 * MIB, BIG_VARIANTS[:4] + BIG_VARIANTS[7:10]),
                (4 * MIB, BIG_VARIANTS[:5] + BIG_VARIANTS[7:10])]
    V = BIG_VARIANTS
    pick = [V[0], V[1], V[2], V[3], V[4], V[7], V[8], V[9], V[11]]
    return [(4 * KIB, [V[1], V[7], V[9]]), (8 * KIB, [V[1], V[7], V[10]]), (64 * KIB, pick), (MIB, pick)]


def share_for(B):
    """share of contact sections in the filler: the parser's duplicate check is quadratic in the number of sections"""
    return 0.9 if B <= 128 * KIB else 0.6 if B <= MIB else 0.3


@timed
def c17_large(self, ctx):
    """LARGE keyrings read by the real program (commands.rs::open_keyring + Keyring::new behind -k): every lookup by name
    (encrypt -t) and by key (the sender report of decrypt) equals the lookup in the entries of the reference reader; the key under test
    encrypts and decrypts.  In process, the parser's entries for the same text equal the reference reader's; texts up to 16 KiB
    (quick) / 136 KiB (thorough) are also evaluated by the Gallina parser (measured: about 0.3 s per KiB of text on an idle core)."""
    rng = ctx.rng
    ks = pc.make_keys(ctx, 2)
    S = pc.lock_keys([(ks[0][0], b"pw-me", ctx.rbytes(32)), (ks[1][0], b"pw-target", ctx.rbytes(32))])
    me = (b"me myself", ks[0][2], S[0])
    jobs = []
    for B, variants in c17_boundaries(ctx):
        for v in variants:
            text, info = big_keyring(rng, B, v, me, (None, ks[1][2], S[1]), share_for(B), "c%d-" % (len(jobs) + 1))
            jobs.append({"i": len(jobs), "text": text, "info": info, "ref": ref_parse(text), "pt": ctx.rbytes(rng.choice([1, 300, 70000]))})
    w = pc.World(prefix="kv_c17big_")
    T = [time.time()]
    def lap(what):
        if os.environ.get("KVS_TIMING"):
            print("  [c17_large] %s %.1f s" % (what, time.time() - T[0]))
        T[0] = time.time()
    try:
        for j in jobs:
            w.write("big%d.txt" % j["i"], j["text"])
        lap("built")
        # ---- in process: Keyring::new on the same text
        inproc = pc.cli_ops(["kr_parse " + hexs(j["text"]) for j in jobs])
        for j, r in zip(jobs, inproc):
            ctx.oracle_checks += 1
            ctx.evaluations += 1
            sc = "C17 large keyring, in process: kr_parse of %d bytes, B = %d %s" % (len(j["text"]), j["info"]["B"], j["info"]["variant"])
            count(ctx, "large:B=%d" % j["info"]["B"])
            count(ctx, "large:" + j["info"]["variant"])
            if j["ref"][0] != "ok":
                ctx.broken.append({"kind": "machinery", "what": "props_kvs.big_keyring built a text its own reference reader refuses: " + j["ref"][1]})
                continue
            got = None
            if r.get("outcome") == "ok":
                got = list(zip([unhex(x) for x in r["names"].split(",")], [unhex(x) for x in r["pubs"].split(",")],
                               [None if x == "none" else unhex(x) for x in r["privs"].split(",")]))
            if got != j["ref"][1]:
                ctx.violations.append({"input": {"kind": "proc", "scenario": sc, "commands": [], "keyring": describe_big(j["text"], j["info"])},
                                       "expected": "the accepted entries are exactly the %d sections of the file, in order" % len(j["ref"][1]),
                                       "observed": "kr_parse: %s %s" % (r.get("outcome"), ("%d entries" % len(got)) if got is not None else
                                                                        unhex(r.get("msg", "-")).decode("utf-8", "replace")), "finding_key": None})
        jobs = [j for j in jobs if j["ref"][0] == "ok"]
        lap("in-process")

        # ---- the real program
        def one(j):
            i, info, ents = j["i"], j["info"], j["ref"][1]
            f = "big%d.txt" % i
            byname = dict((e[0], e) for e in ents)
            cs = info["contacts"]
            chop = lambda n: n.decode("utf-8")[:-1].encode("utf-8")
            look = [me[0], info["target"], ents[-1][0], ents[0][0], b"nobody at all", info["target"] + b"x", chop(info["target"])]
            if info["cut"]:
                look.append(info["cut"])
            if cs:
                look += [cs[0][0], cs[-1][0], cs[len(cs) // 2][0], chop(cs[-1][0])]
            seen, L = set(), []
            w.write("pt%d" % i, j["pt"])
            for n in look:
                if n and n not in seen:
                    seen.add(n)
                    # present (and with a sound checksum) <=> the run gets as far as looking for the sender, who does not exist
                    r = w.run(["encrypt", "pt%d" % i, "-t", n.decode("utf-8"), "-f", "no such sender", "-k", f, "-o", "x%d_%d" % (i, len(L)), "--env-pass"],
                              env=pc.env_pw(b"pw-me"))
                    L.append((n, n in byname, r))
            tn = info["target"].decode("utf-8")
            e = w.run(["encrypt", "pt%d" % i, "-t", tn, "-f", "me myself", "-k", f, "-o", "ct%d" % i, "--env-pass"], env=pc.env_pw(b"pw-me"))
            d = w.run(["decrypt", "ct%d" % i, "-t", tn, "-k", f, "-o", "out%d" % i, "--env-pass"], env=pc.env_pw(b"pw-target"))
            # the same file opened by the key alone: -t selected the section that carries the name, not another one
            w.write("only%d.txt" % i, sec_np(b"t", byname[info["target"]][1], byname[info["target"]][2]))
            d2 = w.run(["decrypt", "ct%d" % i, "-t", "t", "-k", "only%d.txt" % i, "-o", "out2_%d" % i, "--env-pass"], env=pc.env_pw(b"pw-target"))
            j.update(look=L, rt=(e, d, d2, w.read("out%d" % i), w.read("out2_%d" % i)))
            for k in range(len(L)):
                try:
                    os.unlink(w.p("x%d_%d" % (i, k)))
                except OSError:
                    pass
            return j
        jobs = pmap(one, jobs)
        lap("processes")
        for j in jobs:
            info = j["info"]
            sc = "C17 large keyring behind -k: %d bytes, %d sections; offset B = %d: %s (key under test %r)" % (
                len(j["text"]), len(j["ref"][1]), info["B"], info["variant"], info["target"].decode("utf-8"))
            kd = {"keyring": describe_big(j["text"], info)}
            for n, present, r in j["look"]:
                ctx.oracle_checks += 1
                t = r.errtext()
                if r.rc not in (0, 1):
                    viol(ctx, sc, [r], "the program ends with status 0 or 1", "exit %d: %r" % (r.rc, t[-200:]), kd)
                elif present and "Sender key 'no such sender' not found." not in t:
                    viol(ctx, sc, [r], "%r is the Name of a section of the keyring file: the lookup by name finds it (the run then fails only "
                         "for the sender, who is not in the file)" % n.decode("utf-8"), "exit %d: %r" % (r.rc, t[-200:]), kd)
                elif not present and ("Recipient key '%s' not found." % n.decode("utf-8")) not in t:
                    viol(ctx, sc, [r], "no section of the keyring file is named %r: the lookup finds nothing" % n.decode("utf-8"),
                         "exit %d: %r" % (r.rc, t[-200:]), kd)
            e, d, d2, out, out2 = j["rt"]
            ctx.oracle_checks += 2
            if not (e.rc == 0 and d.rc == 0 and out == j["pt"] and "Success. File from: me myself" in d.errtext()):
                viol(ctx, sc, [e, d], "the key under test (a section of the file) receives a file from 'me myself' (another section): encrypt -t / -f and "
                     "decrypt -t succeed, the plaintext comes back, the sender is found by its public key and named",
                     "exit %d/%d, plaintext equal: %s, stderr %r" % (e.rc, d.rc, out == j["pt"], (e.errtext() + d.errtext())[-300:]), kd)
            elif not (d2.rc == 0 and out2 == j["pt"]):
                viol(ctx, sc, [e, d2], "encrypt -t NAME used the public key of the section named NAME: the holder of that key decrypts",
                     "exit %d, plaintext equal: %s, stderr %r" % (d2.rc, out2 == j["pt"], d2.errtext()[-200:]), kd)
        ctx.evaluations += w.nruns
        count(ctx, "proc:runs", w.nruns)
        if len(ctx.samples) < 8:
            ctx.samples.append({"large-keyrings": [{"bytes": len(j["text"]), "B": j["info"]["B"], "where": j["info"]["variant"],
                                                    "sections": len(j["ref"][1])} for j in jobs[:12]]})
    finally:
        w.close()
    # ---- the Gallina parser on the smaller ones (about 0.3 s per KiB of text)
    lim = 136 * KIB if ctx.thorough() else 16 * KIB
    small = [j for j in jobs if len(j["text"]) <= lim]
    cases = []
    for j in small:
        c = pc.KCase("kr_parse", text=j["text"], oracle=self.accepted_oracle(j["ref"][1]), tags=["large-%dKiB" % (j["info"]["B"] // KIB)])
        cases.append(c)
        ents = j["ref"][1]
        cases += self.lookup_cases(j["text"], ents, [j["info"]["target"], j["info"]["target"].decode("utf-8")[:-1].encode("utf-8")], [ents[-1][1]])
    self.run_kcases(ctx, cases, tag="C17big")
    lap("Gallina on %d texts" % len(small))


# =========================================================================== C17: names that read like another field
@timed
def c17_name_family(self, ctx):
    """Names and public keys are separate name spaces, and a name is any 1..128 bytes: keyrings in which a section's Name equals the
    PublicKey / PrivateKey TEXT of another section (listed before or after it), a keyword of the format, or an option-looking string.
    The keyring is accepted with exactly these sections; a lookup by name returns exactly the section that carries the name - for
    every string that is a name or a key text of the file - and nothing for a key text that is nobody's name.  In process (clidrv
    kr_parse / kr_get / kr_name_from_key against Run/RunKeyring.v) and, for a sample, through encrypt -t / decrypt -t."""
    rng = ctx.rng
    K = self.K
    P = [K["P1"], K["P2"], K["P3"]]
    words = [b"Name", b"[Key]", b"PublicKey", b"PrivateKey", b"PublicKey = " + K["P2"], b"Name = alice", b"-t", b"--to", b"-k", b"--", b"-",
             b"--env-pass", b"-h", b"--help", b"--keyring=x", b"=", b"= x", b"#"[:0] + b"x #y", b"[Key] alice", K["P1"][:47], K["P1"] + b"="]
    cases = []
    layouts = []
    # a name equal to the PublicKey text of an EARLIER / LATER section, to the own PublicKey, to a PrivateKey text
    layouts.append([(b"alice", P[0], K["S1"]), (b"bob", P[1], None), (P[1], P[2], None)])
    layouts.append([(P[1], P[2], None), (b"alice", P[0], K["S1"]), (b"bob", P[1], None)])
    layouts.append([(b"alice", P[0], K["S1"]), (P[0], P[1], K["S2"])])
    layouts.append([(P[1], P[0], K["S1"]), (P[0], P[1], K["S2"])])               # two sections named by each other's key
    layouts.append([(P[0], P[0], K["S1"]), (b"bob", P[1], None)])                 # named by its own key
    layouts.append([(b"alice", P[0], K["S1"]), (K["S1"], P[1], None), (K["S2"], P[2], K["S2"])])
    for _ in range(12 if ctx.thorough() else 4):
        nm = rng.sample(words, 3)
        layouts.append([(nm[0], P[0], K["S1"]), (nm[1], P[1], None), (nm[2], P[2], K["S2"])])
    for _ in range(20 if ctx.thorough() else 6):
        pool = [b"alice", b"bob"] + P + [K["S1"]] + rng.sample(words, 2)
        nms = rng.sample(pool, 3)
        order = rng.sample(P, 3)
        layouts.append([(nms[i], order[i], rng.choice([None, K["S1"], K["S2"]])) for i in range(3)])
    for secs in layouts:
        text = b"\n".join(rng.choice([sec_np, sec_np, sec_pn])(*e) for e in secs)
        if ref_parse(text) != ("ok", secs):
            ctx.broken.append({"kind": "machinery", "what": "props_kvs.c17_name_family: reference reader and intended sections differ for %r" % (secs,)})
            continue
        c = pc.KCase("kr_parse", text=text, oracle=self.accepted_oracle(secs), tags=["name-like-field"])
        cases.append(c)
        asked = sorted(set([e[0] for e in secs] + [e[1] for e in secs] + [e[2] for e in secs if e[2]] + P + [b"Name", b"PublicKey"]))
        for lc in self.lookup_cases(text, secs, asked, P):
            lc.tags = ["name-like-field-" + lc.tags[0]]
            cases.append(lc)
    self.run_kcases(ctx, cases, tag="C17n")
    # ---- through the real program: -t TEXT selects the section NAMED text
    ks = pc.make_keys(ctx, 3)
    S = pc.lock_keys([(k[0], b"pw%d" % i, ctx.rbytes(32)) for i, k in enumerate(ks)])
    w = pc.World(prefix="kv_c17nm_")
    try:
        plans = []
        odd = [ks[1][2], S[1], b"--to", b"-k", b"PublicKey", b"[Key]", b"Name = x", b"--env-pass"]
        for i, nm in enumerate(odd if ctx.thorough() else [odd[0], odd[1]] + rng.sample(odd[2:], 2)):
            # sections: me (key 0), bob (key 1), then the section NAMED nm with key 2; in the second layout the named section comes first
            for first in ((False, True) if (ctx.thorough() or i < 2) else (rng.random() < 0.5,)):
                secs = [(b"me", ks[0][2], S[0]), (b"bob", ks[1][2], S[1]), (nm, ks[2][2], S[2])]
                if first:
                    secs = [secs[2], secs[0], secs[1]]
                plans.append({"i": len(plans), "nm": nm, "secs": secs, "pt": ctx.rbytes(200)})

        def one(p):
            i = p["i"]
            w.write("kr%d.txt" % i, b"\n".join(sec_np(*e) for e in p["secs"]))
            w.write("c%d.txt" % i, sec_np(b"c", ks[2][2], S[2]))
            w.write("pt%d" % i, p["pt"])
            n = p["nm"].decode("utf-8")
            e = w.run(["encrypt", "pt%d" % i, "--to=" + n, "--from=me", "-k", "kr%d.txt" % i, "-o", "ct%d" % i, "--env-pass"], env=pc.env_pw(b"pw0"))
            d = w.run(["decrypt", "ct%d" % i, "--to=c", "-k", "c%d.txt" % i, "-o", "out%d" % i, "--env-pass"], env=pc.env_pw(b"pw2"))
            d2 = w.run(["decrypt", "ct%d" % i, "--to=" + n, "-k", "kr%d.txt" % i, "-o", "outb%d" % i, "--env-pass"], env=pc.env_pw(b"pw2"))
            p.update(runs=(e, d, d2), out=w.read("out%d" % i), outb=w.read("outb%d" % i))
            return p
        for p in pmap(one, plans):
            e, d, d2 = p["runs"]
            sc = "C17 keyring with sections %r: encrypt --to=%s" % ([x[0].decode("utf-8") for x in p["secs"]], p["nm"].decode("utf-8"))
            ctx.oracle_checks += 2
            count(ctx, "name-like-field:process")
            if not (e.rc == 0 and d.rc == 0 and p["out"] == p["pt"]):
                viol(ctx, sc, [e, d], "the lookup by name returns the section whose Name is the text given (there is exactly one): the file is "
                     "encrypted to ITS public key and the holder of that key decrypts it",
                     "exit %d/%d, plaintext equal: %s, stderr %r" % (e.rc, d.rc, p["out"] == p["pt"], (e.errtext() + d.errtext())[-300:]))
            elif not (d2.rc == 0 and p["outb"] == p["pt"]):
                viol(ctx, sc, [e, d2], "decrypt --to=NAME unlocks the private key of the section whose Name is NAME",
                     "exit %d, plaintext equal: %s, stderr %r" % (d2.rc, p["outb"] == p["pt"], d2.errtext()[-300:]))
        ctx.evaluations += w.nruns
        count(ctx, "proc:runs", w.nruns)
    finally:
        w.close()


# =========================================================================== C14: generating into large keyrings
GEN_BLOCK_FIXED = len(b"\n[Key]\nName = \nPublicKey = \nPrivateKey = \n") + 48 + 112


def c14_big_plans(self, ctx, hid):
    """histories of three `key generate -o F` into a keyring whose size is just below / at / above a power-of-two offset B, sized so
    that B falls inside the Name / PublicKey / PrivateKey value of a generated block, between its lines, right before / behind it"""
    rng = ctx.rng
    ks = pc.make_keys(ctx, 1)
    S = pc.lock_keys([(ks[0][0], b"oldpw", ctx.rbytes(32))])
    old = sec_np(b"old1", ks[0][2], S[0]) + b"\n"
    where = ["Name-value-of-key-1", "PublicKey-value-of-key-1", "PrivateKey-value-of-key-1", "between-lines-of-key-1", "key-1-starts-at-B",
             "separator-is-last-byte-before-B", "key-1-ends-at-B", "Name-value-of-key-2", "PublicKey-value-of-key-3", "keyring-already-larger-than-B"]
    if ctx.thorough():
        sel = [(B, where) for B in (4 * KIB, 8 * KIB, 64 * KIB, MIB)] + [(B, where[:3] + where[6:8]) for B in (16 * KIB, 32 * KIB, 128 * KIB, 2 * MIB, 4 * MIB)]
    else:
        sel = [(4 * KIB, [where[0], where[6]]), (8 * KIB, [where[1], where[7]]), (64 * KIB, where), (MIB, where[:3] + where[5:8] + where[9:])]
    plans = []
    for B, ws in sel:
        for wh in ws:
            names = rng.sample(["erin", "frank o", "gräfin", "heidi-2", "ivan", "judy =1"], 3)
            nb = [len(n.encode("utf-8")) for n in names]
            b1 = GEN_BLOCK_FIXED + nb[0]
            b2 = GEN_BLOCK_FIXED + nb[1]
            o_name, o_pub = 1 + 6 + 7, lambda k: 1 + 6 + 7 + nb[k] + 1 + 12
            if wh == "Name-value-of-key-1":
                L0 = B - o_name - rng.randint(1, max(1, nb[0] - 1))
            elif wh == "PublicKey-value-of-key-1":
                L0 = B - o_pub(0) - rng.randint(1, 47)
            elif wh == "PrivateKey-value-of-key-1":
                L0 = B - (o_pub(0) + 48 + 1 + 13) - rng.randint(1, 111)
            elif wh == "between-lines-of-key-1":
                L0 = B - (o_pub(0) - 12)
            elif wh == "key-1-starts-at-B":
                L0 = B
            elif wh == "separator-is-last-byte-before-B":
                L0 = B - 1
            elif wh == "key-1-ends-at-B":
                L0 = B - b1
            elif wh == "Name-value-of-key-2":
                L0 = B - b1 - o_name - rng.randint(1, max(1, nb[1] - 1))
            elif wh == "PublicKey-value-of-key-3":
                L0 = B - b1 - b2 - o_pub(2) - rng.randint(1, 47)
            else:
                L0 = B + rng.randint(1, 3000)
            fl = Filler(rng, "h%d-" % hid, share_for(B))
            init = old + fl.fill(L0 - len(old))
            ref = ref_parse(init)
            if ref[0] != "ok":
                ctx.broken.append({"kind": "machinery", "what": "props_kvs.c14_big_plans built a keyring its reference reader refuses: " + ref[1]})
                continue
            plans.append({"h": hid, "state": ("large-%dKiB:B-at-%s" % (B // KIB, wh), init, [e[0] for e in ref[1]]), "names": names,
                          "pws": [rng.choice([b"", b"a", "päss ✓".encode("utf-8")]) for _ in names], "rt": True, "pt": ctx.rbytes(rng.choice([1, 1000])),
                          "big": {"B": B, "where": wh, "L0": L0}})
            hid += 1
    return plans


@timed
def c14_big(self, ctx, w, hid):
    """C14 over large keyrings: the histories are judged by C14.judge_all (exit 0, old bytes a prefix, the file parses, every earlier
    and every generated entry present in order, generated keys unlock, first encrypts to last); then EVERY key with a private key in
    the file - the old one and each generated one - is used through the real program with -k F: it encrypts to itself and decrypts."""
    plans = c14_big_plans(self, ctx, hid)
    recs = pmap(lambda pl: self.one_history(w, pl), plans)
    self.judge_all(ctx, recs)
    uses = []
    for rec in recs:
        pl = rec["plan"]
        if not all(r.rc == 0 for r in rec["runs"]):
            continue
        for k, (nm, pw) in enumerate([("old1", b"oldpw")] + list(zip(pl["names"], pl["pws"]))):
            uses.append({"rec": rec, "k": k, "name": nm, "pw": pw})

    def use(u):
        pl = u["rec"]["plan"]
        h, k = pl["h"], u["k"]
        f = "kr%d.txt" % h
        e = w.run(["encrypt", "pt%d" % h, "-t", u["name"], "-f", u["name"], "-o", "u%d_%d.ct" % (h, k), "-k", f, "--env-pass"], env=pc.env_pw(u["pw"]))
        d = w.run(["decrypt", "u%d_%d.ct" % (h, k), "-t", u["name"], "-o", "u%d_%d.out" % (h, k), "-k", f, "--env-pass"], env=pc.env_pw(u["pw"]))
        u.update(runs=(e, d), out=w.read("u%d_%d.out" % (h, k)))
        return u
    for u in pmap(use, uses):
        rec = u["rec"]
        pl = rec["plan"]
        e, d = u["runs"]
        sizes = [None if s is None else len(s) for s in rec["snaps"]]
        sc = ("C14 history %d: 3 x key generate -o F into a keyring of %d bytes (one own key, contacts, comments); offset B = %d falls at: %s; "
              "sizes of F after each command %r; then the key %r is used with -k F" % (pl["h"], sizes[0], pl["big"]["B"], pl["big"]["where"], sizes[1:], u["name"]))
        count(ctx, "large:use-every-key")
        self.judge(ctx, e.rc == 0 and d.rc == 0 and u["out"] == pl["pt"] and ("Success. File from: " + u["name"]) in d.errtext(), sc, rec["runs"] + [e, d],
                   "every key of the keyring - %s - is present and usable after the generations: it encrypts to itself, decrypts, and is "
                   "reported as the sender" % ("the earlier one" if u["k"] == 0 else "generated key %d" % u["k"]),
                   "exit %d/%d plaintext equal: %s stderr: %r" % (e.rc, d.rc, u["out"] == pl["pt"], (e.errtext() + d.errtext())[-300:]))
    return len(plans)


# =========================================================================== C09: forged locked keys under resource limits
CPU_LIMIT_S = 20
AS_LIMIT = 1 << 30                 # generous for the legitimate N = 32768, r = 8: 32 MiB


def forged_locked_keys(ctx, genuine):
    """[(label, text bytes, is_genuine)]: the 84 bytes of a genuine locked key with the version field rewritten, other lengths, other
    spellings of the base64"""
    rng = ctx.rng
    d = base64.b64decode(genuine)
    full = ctx.thorough()
    out = [("the genuine key", genuine, True)]
    for pos in range(4):
        if pos == 3 or full:
            vals = range(256)
        else:
            vals = sorted(set([0, 0x20, 0x2f, 0x40, 0x7f, 0x80, 0xfe, 0xff, d[pos] ^ 1, d[pos] ^ 0x20, d[pos] ^ 0x80] + list(range(0x30, 0x40))
                              + [rng.randrange(256) for _ in range(6)]))
        for v in vals:
            if v != d[pos]:
                x = d[:pos] + bytes([v]) + d[pos + 1:]
                out.append(("version field byte %d = 0x%02x (genuine: 0x%02x)" % (pos, v, d[pos]), base64.b64encode(x), False))
    for ver in (b"egk1", b"egk?", b"egk\x3f", b"EGK0", bytes(4), b"\xff" * 4, b"0kge", b"egk\x10", b"egk\x20", ctx.rbytes(4), b"egk" + bytes([0x30 | rng.randrange(1, 16)])):
        out.append(("version field %s" % ver.hex(), base64.b64encode(ver + d[4:]), False))
        out.append(("version field %s, random salt and ciphertext" % ver.hex(), base64.b64encode(ver + ctx.rbytes(80)), False))
    for n in (0, 1, 3, 4, 5, 35, 36, 37, 52, 83, 85, 86, 87, 100, 168, 1000, 65536):
        body = (d + ctx.rbytes(max(0, n - 84)))[:n]
        out.append(("%d bytes instead of 84" % n, base64.b64encode(body), False))
        out.append(("%d bytes instead of 84, version field egk?" % n, base64.b64encode((b"egk\x3f" + body[4:])[:n] if n >= 4 else body), False))
    # every decoded length around the genuine 84 (83 / 82 bytes are 112 characters too: '=' / '==' padding)
    for n in (range(60, 110) if full else sorted(set(list(range(78, 91)) + rng.sample(range(60, 110), 4)))):
        if n != 84:
            out.append(("%d bytes instead of 84 (%d characters)" % (n, 4 * ((n + 2) // 3)), base64.b64encode((ctx.rbytes(4) if rng.random() < 0.3 else d[:4]) + ctx.rbytes(n - 4)), False))
    # every TEXT length 100..120, with no / one / two / three trailing '=' (well-formed padding or not)
    for L in (range(100, 121) if full else sorted(set([108, 110, 111, 112, 113, 114, 116] + rng.sample(range(100, 121), 4)))):
        for pad in range(4):
            t = (genuine.rstrip(b"=") + base64.b64encode(ctx.rbytes(30)).rstrip(b"="))[:L - pad] + b"=" * pad
            if t != genuine:
                out.append(("a text of %d characters ending in %d '='" % (L, pad), t, False))
    g = genuine
    for label, t in (("no padding / cut", g[:-1]), ("one more '='", g + b"="), ("blank inside", g[:40] + b" " + g[40:]), ("line feed at the end", g + b"\n"),
                     ("URL-safe alphabet", g.replace(b"+", b"-").replace(b"/", b"_") if (b"+" in g or b"/" in g) else b"-" + g[1:]),
                     ("a character outside base64", g[:10] + "é".encode("utf-8") + g[11:]), ("empty", b""), ("twice", g + g), ("hex", d.hex().encode())):
        if t != g:
            out.append(("base64 spelling: " + label, t, False))
    return out


@timed
def c09_forged_keys(ctx):
    """Locked private keys are untrusted bytes: every forged string - on the command line of `key extract-pub` / `key change-pass`, as the
    PrivateKey of the keyring section used by `decrypt -t` / `encrypt -f` - ends in exit 1 with an Error: line, never a signal or
    abort, within RLIMIT_CPU 20 s / RLIMIT_AS 1 GiB, and costs no more CPU time and resident memory than rejecting a GENUINE key whose
    password is wrong (the one scrypt run with the fixed parameters)."""
    rng = ctx.rng
    ks = pc.make_keys(ctx, 2)
    S = pc.lock_keys([(ks[0][0], b"right", ctx.rbytes(32)), (ks[1][0], b"right", ctx.rbytes(32))])
    forged = forged_locked_keys(ctx, S[0])
    w = pc.World(prefix="kv_c09fk_")
    try:
        bob = sec_np(b"bob", ks[1][2], S[1])
        w.write("pt", ctx.rbytes(100))
        w.write("bob.txt", sec_np(b"mallory", ks[0][2]) + b"\n" + bob)
        e0 = w.run(["encrypt", "pt", "-t", "mallory", "-f", "bob", "-k", "bob.txt", "-o", "ct", "--env-pass"], env=pc.env_pw(b"right"))
        if e0.rc != 0:
            ctx.broken.append({"kind": "machinery", "what": "props_kvs.c09_forged_keys: could not prepare a ciphertext: " + e0.errtext()[-200:]})
            return
        surfaces = ["key extract-pub", "key change-pass", "decrypt -t (PrivateKey in the keyring)", "encrypt -f (PrivateKey in the keyring)"]
        jobs = []

        def job(surf, label, text, genuine, pw=b"right"):
            jobs.append({"i": len(jobs), "surf": surf, "label": label, "text": text, "genuine": genuine, "pw": pw})
        # what rejecting legitimately costs: the genuine key with a wrong password, three times per surface
        for surf in surfaces:
            for _ in range(3):
                job(surf, "REFERENCE: the genuine key, wrong password", S[0], False, pw=b"wrong")
        def keep(f):
            if f[2]:
                return True
            if f[0].startswith("version field byte 3"):
                v = int(f[0].split("= 0x")[1][:2], 16)
                return 0x30 <= v <= 0x3f or v in (0, 0x20, 0x40, 0x7f, 0xff)
            return rng.random() < 0.25
        short = [f for f in forged if keep(f)]
        for surf in surfaces:
            for label, text, genuine in (forged if (surf == surfaces[0] or ctx.thorough()) else short):
                if not surf.startswith("key ") and (text != text.strip() or b"\n" in text):
                    continue            # inside a keyring the parser trims the value: that is the genuine key again
                job(surf, label, text, genuine)

        def one(j):
            i, t = j["i"], j["text"]
            env = pc.env_pw(j["pw"], b"new password")
            if j["surf"].startswith("key "):
                argv = ["key", j["surf"].split()[1], t, "--env-pass"]
            else:
                w.write("kr%d.txt" % i, sec_np(b"mallory", ks[0][2], t) + b"\n" + sec_np(b"bob", ks[1][2]))
                if j["surf"].startswith("decrypt"):
                    argv = ["decrypt", "ct", "-t", "mallory", "-k", "kr%d.txt" % i, "-o", "out%d" % i, "--env-pass"]
                else:
                    argv = ["encrypt", "pt", "-f", "mallory", "-t", "bob", "-k", "kr%d.txt" % i, "-o", "ct%d" % i, "--env-pass"]
            j["run"] = run_limited(w, argv, env=env, cpu=CPU_LIMIT_S, aslimit=AS_LIMIT, timeout=90)
            return j
        jobs = pmap(one, jobs)
        ref = {}
        for j in jobs:
            if j["label"].startswith("REFERENCE"):
                r = j["run"]
                ctx.oracle_checks += 1
                bad = error_exit(r)
                if bad:
                    viol(ctx, "C09 %s: a genuine locked key, wrong password" % j["surf"], [r], "exit 1 with an Error: line", bad)
                a = ref.setdefault(j["surf"], {"cpu": 0.0, "rss": 0})
                a["cpu"], a["rss"] = max(a["cpu"], r.cpu), max(a["rss"], r.maxrss)
        if any(ref.get(sf, {}).get("rss", 0) < 16 * KIB or ref[sf]["cpu"] <= 0 for sf in surfaces):
            ctx.broken.append({"kind": "machinery", "what": "props_kvs.c09_forged_keys: no resource usage measured for the reference runs: %r" % (ref,)})
            return
        nviol = 0
        for j in jobs:
            if j["label"].startswith("REFERENCE"):
                continue
            r = j["run"]
            ctx.oracle_checks += 2
            count(ctx, "forged-key:" + j["surf"].split(" (")[0])
            a = ref.get(j["surf"], {"cpu": 0.0, "rss": 0})
            sc = "C09 %s given a forged locked private key: %s (%d characters: %s)" % (
                j["surf"], j["label"], len(j["text"]), j["text"][:120].decode("utf-8", "replace") + ("..." if len(j["text"]) > 120 else ""))
            bad = None
            if j["genuine"]:
                if not (r.rc == 0 and r.sig is None):
                    bad = ("the genuine key with its password is accepted (exit 0)", "exit %d; stderr %r" % (r.rc, r.errtext()[-200:]))
            else:
                eb = error_exit(r)
                if eb:
                    bad = ("untrusted bytes in place of a locked private key are refused with an error: exit 1 and an Error: line, never a "
                           "panic, abort or signal (limits: %d s CPU, %d MiB address space)" % (CPU_LIMIT_S, AS_LIMIT >> 20), eb)
            if not bad and (r.maxrss > a["rss"] + 8 * KIB or r.cpu > 3 * a["cpu"] + 1.0):
                bad = ("the cost of handling the string is bounded by constants no byte of it can raise: at most what the genuine key with a wrong "
                       "password costs (one scrypt run with N = 32768, r = 8: measured %.2f s CPU, %d KiB resident; allowed: 3 x + 1 s, + 8 MiB)"
                       % (a["cpu"], a["rss"]), "%.2f s CPU, %d KiB resident, exit %d" % (r.cpu, r.maxrss, r.rc))
            if bad:
                nviol += 1
                if nviol <= 6:
                    viol(ctx, sc, [r], bad[0], bad[1])
        ctx.evaluations += w.nruns
        count(ctx, "proc:runs", w.nruns)
        if len(ctx.samples) < 8:
            ctx.samples.append({"forged-locked-keys": len(jobs), "reference_cost": ref})
    finally:
        w.close()


# =========================================================================== C09: keyring locations
@timed
def c09_keyring_locations(ctx):
    """The keyring LOCATION is part of the argument vector / environment the tool is started with: whatever string names it (-k,
    --keyring=, KESTREL_KEYRING), with HOME set, not set, empty or naming nothing, the run ends with status 1 and an Error: line -
    never a panic (101) or a signal - unless the location is a usable keyring (then 0).  Commands are complete (input file present,
    -o given) so that the keyring is the first thing that can fail."""
    rng = ctx.rng
    ks = pc.make_keys(ctx, 2)
    S = pc.lock_keys([(ks[0][0], b"pw", ctx.rbytes(32)), (ks[1][0], b"pw", ctx.rbytes(32))])
    kr = sec_np(b"alice", ks[0][2], S[0]) + b"\n" + sec_np(b"bob", ks[1][2], S[1])
    w = pc.World(prefix="kv_c09loc_")
    try:
        cwd = os.path.join(w.dir, "work")
        os.makedirs(os.path.join(cwd, "adir"))
        os.makedirs(os.path.join(w.dir, "home"))
        for name, data in (("work/kr.txt", kr), ("work/pt", ctx.rbytes(64)), ("work/empty", b""), ("work/notutf8", b"[Key]\nName = \xff\n"),
                           ("work/adir/kr.txt", kr)):
            w.write(name, data)
        e0 = w.run(["encrypt", "work/pt", "-t", "alice", "-f", "bob", "-k", "work/kr.txt", "-o", "work/ct", "--env-pass"], env=pc.env_pw(b"pw"))
        if e0.rc != 0:
            ctx.broken.append({"kind": "machinery", "what": "props_kvs.c09_keyring_locations: could not prepare a ciphertext: " + e0.errtext()[-200:]})
            return
        usable = ["kr.txt", "./kr.txt", "adir/kr.txt", "adir/../kr.txt", os.path.join(cwd, "kr.txt"), "adir//kr.txt"]
        tilde = ["~", "~/", "~/x", "~/kr-missing.txt", "~é", "~été/keyring.txt", "~　", "~\U0001F600", "~é", "~~", "~x", "~root", "~/../x", "~ /x",
                 "é~", "a~", "~" * 300, "~" + "é" * 200]
        other = ["", " ", "-", "--", ".", "adir", "adir/", "./", "kr.txt/", "kr.txt/x", "missing", "missing/kr.txt", "empty", "notutf8", "pt", "é", "\n", "kr.txt\n",
                 "kr.txt ", "a" * 255, "a" * 256, "d/" * 2100 + "kr.txt", "x" * 5000, "x" * 70000, "$HOME/kr.txt", "${HOME}", "%HOME%", "file://kr.txt", "\\", "*", "k?.txt",
                 "\u202ekr.txt", "\ufeffkr.txt", "kr.txt\u0001"]
        nonutf = [b"kr\xff.txt", b"~\xff", b"\xc3", b"~\xe9t\xe9", b"kr.txt\xed\xa0\x80", b"\xff" * 300]
        homes = [("HOME = the scratch directory", "scratch"), ("HOME = an empty directory", os.path.join(w.dir, "home")), ("HOME not set", None), ("HOME empty", ""),
                 ("HOME names nothing", os.path.join(w.dir, "nohome")), ("HOME = a relative path", "adir"), ("HOME = a multi-byte name", "hôme")]
        jobs = []

        def add(loc, usable_, homes_):
            raw = isinstance(loc, bytes)
            for hl, hv in homes_:
                for cmd in (["decrypt", "ct", "-t", "alice", "-o", "OUT", "--env-pass"], ["encrypt", "pt", "-t", "alice", "-f", "bob", "-o", "OUT", "--env-pass"]):
                    for ch in ("-k", "--keyring=", "env"):
                        if ch == "-k":
                            argv, env = cmd[:2] + [b"-k" if raw else "-k", loc] + cmd[2:], {}
                        elif ch == "--keyring=":
                            argv, env = cmd + [(b"--keyring=" if raw else "--keyring=") + loc], {}
                        else:
                            argv, env = list(cmd), {"KESTREL_KEYRING": loc}
                        jobs.append({"i": len(jobs), "loc": loc, "argv": argv, "env": env, "home": (hl, hv), "via": ch, "usable": usable_})
        full = ctx.thorough()
        for loc in usable:
            add(loc, True, homes if full else homes[:1] + [rng.choice(homes[1:])])
        for loc in tilde:
            add(loc, False, homes if full else homes[:2] + [rng.choice(homes[2:])])
        for loc in other:
            add(loc, False, homes if full else homes[:1] + ([rng.choice(homes[1:])] if rng.random() < 0.5 else []))
        for loc in nonutf:
            add(loc, False, homes if full else homes[:1] + [homes[2]])

        def one(j):
            argv = [(a.replace("OUT", "out%d" % j["i"]) if isinstance(a, str) else a) for a in j["argv"]]
            env = dict(pc.env_pw(b"pw"))
            env.update(j["env"])
            j["run"] = run_limited(w, argv, env=env, home=j["home"][1], cwd=cwd, cpu=CPU_LIMIT_S, aslimit=AS_LIMIT, timeout=60)
            return j
        jobs = pmap(one, jobs)
        nviol = 0
        for j in jobs:
            r = j["run"]
            ctx.oracle_checks += 1
            loc = j["loc"]
            count(ctx, "keyring-location:" + ("usable" if j["usable"] else "tilde" if (loc[:1] in ("~", b"~")) else "not-utf8" if isinstance(loc, bytes) else "other"))
            count(ctx, "keyring-location:" + j["home"][0])
            t = r.errtext()
            count(ctx, "keyring-location:outcome:" + ("exit 0" if r.rc == 0 else t[t.find("Error: "):][:40].split(":", 2)[1].strip()[:32] if "Error: " in t else "exit %d" % r.rc))
            shown = loc if isinstance(loc, str) else repr(loc)
            sc = "C09 keyring location %s given by %s; %s; %s" % (shown if len(shown) < 200 else shown[:80] + "... (%d characters)" % len(shown),
                                                                  {"-k": "-k", "--keyring=": "--keyring=LOCATION", "env": "KESTREL_KEYRING"}[j["via"]], j["home"][0], r.argv[0])
            if j["usable"]:
                ok = r.rc == 0 and r.sig is None
                exp = "the location names a well-formed keyring holding the keys asked for: the command succeeds"
                obs = "exit %d; stderr %r" % (r.rc, r.errtext()[-200:])
            else:
                eb = error_exit(r)
                ok = eb is None
                exp = ("whatever string names the keyring, and whatever HOME is: when no usable keyring is there the tool ends with status 1 and an "
                       "Error: line, never a panic (status 101) or a signal")
                obs = eb
            if not ok:
                nviol += 1
                if nviol <= 6:
                    viol(ctx, sc, [r], exp, obs)
        ctx.evaluations += w.nruns
        count(ctx, "proc:runs", w.nruns)
    finally:
        w.close()


# =========================================================================== C09: keyring field VALUES made of punctuation
R3_PUNCT = ['"', "'", "=", "#", "[", "]", ";", ":", "\\", "/", "-", "~", "*", "?", "%", "$", "`", ",", ".", "!", "(", ")", "{", "}", "<", ">", "|", "&", "@", "^",
            "+", "_", "\u00e9", "\u201d", "\u00ab", "\U0001F511"]
R3_SHORT = ['""', "''", '"x', 'x"', '"x"', "'x'", "[]", "==", "\"'", '" "', '"\t"', '"""', "[Key]", "[Key", "Name", "Name = x", "= x", "#x", '"alice"', "\\\"", "x=",
            '"=', "<x>", "${HOME}", "%s", "\u201cx\u201d"]


@timed
def c09_r3_keyring_values(ctx):
    """A keyring FILE is untrusted bytes: sections whose Name / PublicKey / PrivateKey VALUE is a single punctuation character (every
    ASCII punctuation mark used by configuration formats, some multi-byte ones) or a short string of them (quote pairs, brackets, field
    keywords), written in several spellings (blanks / TABs around the '=', CRLF line end, no blanks), placed before or behind a
    well-formed section, then read by `decrypt` and `encrypt` processes: exit 0, or exit 1 with an Error: line - never a panic (101),
    abort, signal or hang (60 s)."""
    rng = ctx.rng
    full = ctx.thorough()
    ks = pc.make_keys(ctx, 2)
    S = pc.lock_keys([(ks[0][0], b"pw", ctx.rbytes(32))])
    alice = sec_np(b"alice", ks[0][2], S[0])
    w = pc.World(prefix="kv_c09val_")
    try:
        w.write("pt", ctx.rbytes(50))
        w.write("kr0.txt", alice)
        e0 = w.run(["encrypt", "pt", "-t", "alice", "-f", "alice", "-k", "kr0.txt", "-o", "ct", "--env-pass"], env=pc.env_pw(b"pw"))
        if e0.rc != 0:
            ctx.broken.append({"kind": "machinery", "what": "props_kvs.c09_r3_keyring_values: could not prepare a ciphertext: " + e0.errtext()[-200:]})
            return
        spell = [("F = V", lambda f, v: f + " = " + v), ("F=V", lambda f, v: f + "=" + v), ("TAB F =   V  ", lambda f, v: "\t" + f + " =   " + v + "  "),
                 ("F = V CR", lambda f, v: f + " = " + v + "\r"), ("F =V TAB", lambda f, v: f + " =" + v + "\t")]
        jobs = []

        def add(field, val, sp, pos, cmd):
            other = {"Name": "Name = mallory", "PublicKey": "PublicKey = " + ks[1][2].decode(), "PrivateKey": None}
            lines = ["[Key]"]
            for f in ("Name", "PublicKey", "PrivateKey"):
                if f == field:
                    lines.append(sp[1](f, val))
                elif other[f]:
                    lines.append(other[f])
            sec = ("\n".join(lines) + "\n").encode("utf-8")
            text = {"before": sec + b"\n" + alice, "behind": alice + b"\n" + sec, "alone": sec}[pos]
            jobs.append({"i": len(jobs), "field": field, "val": val, "spell": sp[0], "pos": pos, "cmd": cmd, "text": text})
        vals = R3_PUNCT + R3_SHORT
        for field in ("Name", "PublicKey", "PrivateKey"):
            for val in vals:
                combos = [(sp, pos) for sp in spell for pos in ("before", "behind", "alone")]
                for sp, pos in (combos if full else rng.sample(combos, 2 if (field == "Name" and len(val) == 1) else 1)):
                    add(field, val, sp, pos, "decrypt-nobody")
                if full or rng.random() < 0.12:
                    add(field, val, rng.choice(spell), rng.choice(["before", "behind"]), rng.choice(["encrypt-alice", "decrypt-alice"]))

        def one(j):
            kr = "kr%d.txt" % j["i"]
            w.write(kr, j["text"])
            argv = {"decrypt-nobody": ["decrypt", "ct", "-t", "nobody", "-k", kr, "-o", "out%d" % j["i"], "--env-pass"],
                    "decrypt-alice": ["decrypt", "ct", "-t", "alice", "-k", kr, "-o", "out%d" % j["i"], "--env-pass"],
                    "encrypt-alice": ["encrypt", "pt", "-t", "alice", "-f", "alice", "-k", kr, "-o", "out%d" % j["i"], "--env-pass"]}[j["cmd"]]
            j["run"] = w.run(argv, env=pc.env_pw(b"pw"), timeout=60)
            return j
        jobs = pmap(one, jobs)
        nviol = 0
        for j in jobs:
            r = j["run"]
            r.sig = -r.rc if r.rc < 0 else None
            ctx.oracle_checks += 1
            count(ctx, "keyring-value:" + j["field"])
            count(ctx, "keyring-value:outcome:exit %d" % r.rc)
            if r.rc == 0 and r.sig is None:
                continue
            eb = error_exit(r)
            if eb:
                nviol += 1
                if nviol <= 6:
                    viol(ctx, "C09 keyring value: a section whose %s value is %r (spelling '%s', section %s the well-formed one), read by %s"
                         % (j["field"], j["val"], j["spell"], j["pos"], j["cmd"]), [r],
                         "whatever bytes the keyring file holds, the tool ends with status 0, or status 1 and an Error: line - never a panic (status 101), "
                         "abort or signal", eb, extra={"keyring": j["text"].decode("utf-8", "replace")})
        ctx.evaluations += w.nruns
        count(ctx, "proc:runs", w.nruns)
    finally:
        w.close()


def c09_cli_hostile(ctx):
    """entry point for C09 (props.py)"""
    c09_forged_keys(ctx)
    c09_keyring_locations(ctx)
    c09_r3_keyring_values(ctx)


# =========================================================================== round 6 families (C14 .. C17)
# ---- C14: SETS of names that stand in an order relation to each other ----------------------------------------------------------
def r6_name_sets(ctx):
    """[(kind, [names])]: names whose relation to EACH OTHER matters to a reader that sorts, searches, compares by prefix or cuts a
    line: mixed-case initials (byte order differs from case-blind order), names that are prefixes of one another, names that
    contain the format's own punctuation ('#', '=', '[', ']') and agree up to it.  All are distinct legal names."""
    rng = ctx.rng
    words = ["alice", "bob", "carol", "dave", "erin", "frank", "gina", "zed", "mallory", "yan", "oscar", "peggy"]
    sets = [("mixed-case", ["alice", "Bob", "carol", "Dave", "erin"]), ("mixed-case", ["Zed", "amy", "_x", "Yan", "bob"]),
            ("prefix", ["alice-work", "alice", "al"]), ("prefix", ["key10", "key1", "key"]), ("prefix", ["Name", "Name = n", "N"]),
            ("punctuation", ["plain", "ops #1", "ops #2"]), ("punctuation", ["build#7", "build", "#1 key", "# key"]),
            ("punctuation", ["a=b", "a", "a =c", "=a"]), ("punctuation", ["[Key]x", "[Key", "x [Key]", "]"])]
    for _ in range(6 if ctx.thorough() else 2):
        ws = rng.sample(words, rng.randint(3, 5))
        sets.append(("mixed-case", [w_.capitalize() if rng.random() < 0.5 else (w_.upper() if rng.random() < 0.2 else w_) for w_ in ws]))
        base = rng.choice(words)
        chain = [base]
        for _ in range(rng.randint(1, 3)):
            chain.append(chain[-1] + rng.choice(["-work", "2", " jr", "_", "#", "=", " ", "\u00e9"]) + rng.choice(["", "x", "1"]))
        chain = [pc.rust_trim(c) for c in chain]
        if len(set(chain)) == len(chain):
            sets.append(("prefix", chain))
        p = rng.choice(["#", "=", "[", "]", " # ", " = "])
        stem = rng.choice(words)
        sets.append(("punctuation", [stem + p + "1", stem + p + "2", stem]))
    return sets


@timed
def r6_c14_related_names(self, ctx, states, hid):
    """C14 over name SETS with an order relation, generated into one file in several ORDERS (quick: the given order, its reverse and, for
    the larger sets, a random one; thorough: up to 24 permutations): judged by C14.judge_all, then EVERY generated key is used through -k F with its own
    password (key k encrypts to key k+1, which decrypts and reports the sender by name)."""
    import itertools
    rng = ctx.rng
    plain = [st for st in states if st[0] in ("absent", "empty", "one-key-newline", "one-key-no-newline", "comments", "two-keys")]
    plans = []
    for kind, names in r6_name_sets(ctx):
        perms = list(itertools.permutations(names))
        if ctx.thorough():
            orders = [perms[0], perms[-1]] + rng.sample(perms, min(len(perms), 22))
        else:
            orders = [perms[0], perms[-1]] + ([rng.choice(perms)] if kind == "mixed-case" or len(names) > 3 else [])
        seen = set()
        for o in orders:
            if o in seen:
                continue
            seen.add(o)
            plans.append({"h": hid, "state": plain[hid % len(plain)], "names": list(o), "pws": [("pw %d" % i).encode() for i in range(len(o))],
                          "rt": False, "pt": ctx.rbytes(rng.choice([1, 300])), "r6kind": kind})
            hid += 1
    w = pc.World(prefix="kv_c14r6_")
    try:
        recs = pmap(lambda pl: self.one_history(w, pl), plans)
        self.judge_all(ctx, recs)
        uses = []
        for rec in recs:
            pl = rec["plan"]
            count(ctx, "name-sets:" + pl["r6kind"])
            if not all(r.rc == 0 for r in rec["runs"]):
                continue
            w.write("pt%d" % pl["h"], pl["pt"])
            n = len(pl["names"])
            for k in range(n):
                uses.append({"rec": rec, "k": k, "to": (k + 1) % n})

        def use(u):
            pl = u["rec"]["plan"]
            h, k, t = pl["h"], u["k"], u["to"]
            f = "kr%d.txt" % h
            e = w.run(["encrypt", "pt%d" % h, "-t", pl["names"][t], "-f", pl["names"][k], "-o", "u%d_%d.ct" % (h, k), "-k", f, "--env-pass"], env=pc.env_pw(pl["pws"][k]))
            d = w.run(["decrypt", "u%d_%d.ct" % (h, k), "-t", pl["names"][t], "-o", "u%d_%d.out" % (h, k), "-k", f, "--env-pass"], env=pc.env_pw(pl["pws"][t]))
            u.update(runs=(e, d), out=w.read("u%d_%d.out" % (h, k)))
            return u
        for u in pmap(use, uses):
            rec = u["rec"]
            pl = rec["plan"]
            e, d = u["runs"]
            a, b = pl["names"][u["k"]], pl["names"][u["to"]]
            sc = ("C14 history %d: key generate -o F for the names %r in this order (F initially %s); then key %r encrypts to key %r through -k F"
                  % (pl["h"], pl["names"], pl["state"][0], a, b))
            count(ctx, "name-sets:use-every-key")
            self.judge(ctx, e.rc == 0 and d.rc == 0 and u["out"] == pl["pt"] and ("Success. File from: " + a) in d.errtext(), sc, rec["runs"] + [e, d],
                       "every key generated so far is present and usable with its own password, under its own name: %r encrypts to %r, which decrypts "
                       "and reports the sender by name" % (a, b),
                       "exit %d/%d plaintext equal: %s stderr: %r" % (e.rc, d.rc, u["out"] == pl["pt"], (e.errtext() + d.errtext())[-300:]))
        ctx.evaluations += w.nruns
        count(ctx, "proc:runs", w.nruns)
    finally:
        w.close()
    return len(plans)


# ---- C15: changes to SEVERAL bytes of a locked key; strings of 112 characters that are not 112 base64 characters; what a process
# ---- did before has no influence on an unlock
R6_ODD_CHARS = [("Cyrillic capital A", "\u0410"), ("Cyrillic capital ER", "\u0420"), ("Greek capital TAU", "\u03a4"), ("fullwidth digit 0", "\uff10"),
                ("e-acute", "\u00e9"), ("Arabic-Indic digit 3", "\u0663"), ("CJK", "\u5c71"), ("superscript 2", "\u00b2"), ("one half", "\u00bd"),
                ("Roman numeral 8", "\u2167"), ("fullwidth A", "\uff21"), ("mathematical bold A", "\U0001d400"), ("combining acute", "\u0301"),
                ("no-break space", "\u00a0"), ("zero-width space", "\u200b"), ("soft hyphen", "\u00ad"), ("emoji", "\U0001F511"), ("Kelvin sign", "\u212a"),
                ("dotless i", "\u0131"), ("fullwidth plus", "\uff0b"), ("fullwidth solidus", "\uff0f"), ("NUL", "\u0000"), ("DEL", "\u007f")]


def r6_c15_cases(self, ctx, S, pw, sk):
    """S: a locked string (text bytes) of key sk under pw"""
    import itertools
    rng = ctx.rng
    blob = pc.b64_lenient(S)
    cases = []
    if blob is None or len(blob) != 84:
        return cases
    var = []          # (tag, bytes)

    def xor_at(b, idx, masks):
        x = bytearray(b)
        for i, m in zip(idx, masks):
            x[i] ^= m
        return bytes(x)
    # the version field: the same mask on two / three / four bytes, different masks, every permutation of the four bytes
    for k in (2, 3, 4):
        for idx in itertools.combinations(range(4), k):
            for m in (0x01, 0x20, rng.randrange(1, 256)):
                var.append(("version-same-mask-%d-bytes" % k, xor_at(blob, idx, [m] * k)))
            ms = [rng.randrange(1, 256) for _ in idx]
            var.append(("version-masks-%d-bytes" % k, xor_at(blob, idx, ms)))
            # masks whose XOR is zero / whose sum is zero mod 256
            if k >= 3:
                a_, b_ = rng.randrange(1, 256), rng.randrange(1, 256)
                if a_ != b_:
                    var.append(("version-masks-cancel-%d-bytes" % k, xor_at(blob, idx, ([a_, b_, a_ ^ b_] + [0])[:k])))
    for p in itertools.permutations(range(4)):
        if p != (0, 1, 2, 3):
            var.append(("version-permuted", bytes(blob[i] for i in p) + blob[4:]))
    var.append(("version-case", b"EGK0" + blob[4:]))
    var.append(("version-case", b"EGk0" + blob[4:]))
    # every field: two changed bits, two changed bytes with the same mask, two bytes swapped, the field reversed / rotated
    fields = [("version", 0, 4), ("salt", 4, 36), ("ciphertext", 36, 68), ("tag", 68, 84)]
    for name, lo, hi in fields:
        for _ in range(6 if ctx.thorough() else 2):
            i, j = rng.sample(range(lo, hi), 2)
            var.append(("two-bits-" + name, xor_at(blob, (i, j), [1 << rng.randrange(8), 1 << rng.randrange(8)])))
            m = rng.randrange(1, 256)
            var.append(("same-mask-two-bytes-" + name, xor_at(blob, (i, j), [m, m])))
            x = bytearray(blob)
            x[i], x[j] = x[j], x[i]
            var.append(("swap-two-bytes-" + name, bytes(x)))
        var.append(("reversed-" + name, blob[:lo] + blob[lo:hi][::-1] + blob[hi:]))
        var.append(("rotated-" + name, blob[:lo] + blob[lo + 1:hi] + blob[lo:lo + 1] + blob[hi:]))
    # across fields: one bit in each of two fields; two fields exchanged (salt <-> ciphertext are both 32 bytes)
    for (n1, l1, h1), (n2, l2, h2) in itertools.combinations(fields, 2):
        var.append(("two-bits-%s+%s" % (n1, n2), xor_at(blob, (rng.randrange(l1, h1), rng.randrange(l2, h2)), [1 << rng.randrange(8), 1 << rng.randrange(8)])))
    var.append(("salt-and-ciphertext-exchanged", blob[:4] + blob[36:68] + blob[4:36] + blob[68:]))
    var.append(("tag-halves-exchanged", blob[:68] + blob[76:84] + blob[68:76]))
    seen = set()
    for tg, b in var:
        if b == blob or b in seen:
            continue
        seen.add(b)
        cases.append(pc.KCase("sk_unlock", s=base64.b64encode(b), pw=pw, oracle=pc.must_fail("a change to several of the 84 bytes (%s)" % tg),
                              tags=["multi-change", "multi-change-" + tg.split("-")[0]]))
    # ---- strings of 112 CHARACTERS / 112 BYTES one of which is not a base64 character (letters and digits of other scripts, marks,
    # blanks, format characters): not well-formed, unlocking is an error - never a panic
    picks = R6_ODD_CHARS if ctx.thorough() else rng.sample(R6_ODD_CHARS[:12], 7) + rng.sample(R6_ODD_CHARS[12:], 4)
    T = S.decode("ascii")
    for label, ch in picks:
        pos = rng.choice([0, 1, 55, 110, 111, rng.randrange(112)])
        forms = [("112 characters", T[:pos] + ch + T[pos + 1:])]
        nb = len(ch.encode("utf-8"))
        if nb > 1 and pos + nb <= 112:
            forms.append(("112 bytes", T[:pos] + ch + T[pos + nb:]))
        for what, m in forms:
            mb = m.encode("utf-8")
            cases.append(pc.KCase("sk_try", s=mb, tags=["odd-character", "odd-character-" + what.replace(" ", "-")],
                                  oracle=(lambda r, label=label: None if r["code"] != 0 else
                                          ("a string with a character outside the base64 alphabet (%s) is not a well-formed private key" % label, r["raw"][:200]))))
            cases.append(pc.KCase("sk_unlock", s=mb, pw=pw, tags=["odd-character", "odd-character-" + what.replace(" ", "-")],
                                  oracle=pc.must_fail("a string of %s with one %s in it" % (what, label))))
    # the same inside a keyring (the parser against the model: Malformed private key)
    pub = pc.c15_enc_pub(ctx.rbytes(32))
    for label, ch in picks[:4]:
        pos = rng.randrange(112)
        cases.append(pc.KCase("kr_parse", text=pc.key_block(b"zed", pub, (T[:pos] + ch + T[pos + 1:]).encode("utf-8")), tags=["odd-character", "odd-character-keyring"],
                              oracle=(lambda r, label=label: None if r["code"] != 0 else
                                      ("a PrivateKey value with a character outside the base64 alphabet (%s) is malformed" % label, r["raw"][:200]))))
    return cases


@timed
def r6_c15_sequences(self, ctx):
    """The result of an unlock depends on the string and the password ONLY: sequences of unlock attempts in ONE process of the
    in-process driver - k refused attempts (wrong passwords, damaged strings, strings of other lengths) then the right password, for
    k = 1 .. 8, on two keys in turn."""
    rng = ctx.rng
    keys = [(ctx.rbytes(32), b"first pw", ctx.rbytes(32)), (ctx.rbytes(32), "zweites p\u00e4ss".encode("utf-8"), ctx.rbytes(32))]
    S = pc.lock_keys(keys)
    lines, want = [], []          # want: None = must fail, bytes = must give this key

    def add(s, pw, exp, what):
        lines.append("%d sk_unlock %s %s" % (len(lines), hexs(s), hexs(pw)))
        want.append((exp, what))
    ks = [1, 2, 3, 4, 6, 8] if ctx.thorough() else [1, 2, 3, rng.choice([4, 5, 6])]
    for n, k in enumerate(ks):
        sk, pw, salt = keys[n % 2]
        s = S[n % 2]
        blob = base64.b64decode(s)
        for _ in range(k):
            kind = rng.choice(["wrong-password", "wrong-password", "salt-bit", "ciphertext-bit", "tag-bit", "other-key-password"])
            if kind == "wrong-password":
                add(s, pw + bytes([rng.randrange(33, 127)]), None, "a wrong password")
            elif kind == "other-key-password":
                add(s, keys[1 - n % 2][1], None, "the password of another key")
            else:
                lo, hi = {"salt-bit": (4, 36), "ciphertext-bit": (36, 68), "tag-bit": (68, 84)}[kind]
                add(base64.b64encode(pc.props.flip(blob, 8 * rng.randrange(lo, hi) + rng.randrange(8))), pw, None, "a string with one changed bit (%s)" % kind)
        add(s, pw, sk, "the untouched string with its own password, after %d refused attempts in the same process" % k)
    res = pc._drive(vlib.CLIDRV, lines, pc.DRV_ENV, 600)
    ctx.evaluations += len(lines)
    for i, (exp, what) in enumerate(want):
        kv = {}
        for p in res.get(str(i), "x outcome=missing").split()[1:]:
            a_, _, b_ = p.partition("=")
            kv[a_] = b_
        ctx.oracle_checks += 1
        count(ctx, "unlock-sequence:" + ("positive" if exp is not None else "refused"))
        o = kv.get("outcome", "?")
        ok = (o == "ok" and unhex(kv.get("out", "-")) == exp) if exp is not None else o.startswith("err")
        if not ok:
            ctx.violations.append({"input": {"kind": "proc", "scenario": "C15 unlock attempts in ONE process of the in-process driver (Keyring::unlock_private_key called "
                                             "in sequence); attempt %d of %d: %s" % (i + 1, len(lines), what),
                                             "commands": ["KESTREL_VERIF_DRIVER=1 clidrv <<< " + l for l in lines[:i + 1]]},
                                   "expected": ("it unlocks to the original key %s: the result depends on the string and the password only" % exp.hex()) if exp is not None
                                   else "unlocking fails with an error", "observed": " ".join("%s=%s" % kv_ for kv_ in kv.items())[:200], "finding_key": None})
            break


@timed
def r6_c15_proc(self, ctx, S, pw, sk):
    """the real program on altered strings: key extract-pub / key change-pass / a keyring's PrivateKey line"""
    rng = ctx.rng
    if not pc.c15_envable(pw):
        return
    blob = base64.b64decode(S)
    T = S.decode("ascii")
    alt = []
    for p in rng.sample([(1, 0, 2, 3), (3, 2, 1, 0), (0, 1, 3, 2), (2, 3, 0, 1), (1, 2, 3, 0)], 2):
        alt.append(("the version bytes permuted %r" % (p,), base64.b64encode(bytes(blob[i] for i in p) + blob[4:]).decode()))
    m = rng.choice([0x01, 0x20, 0x80, rng.randrange(1, 256)])
    i, j = rng.sample(range(4), 2)
    x = bytearray(blob)
    x[i] ^= m
    x[j] ^= m
    alt.append(("version bytes %d and %d both changed by the mask %02x" % (i, j, m), base64.b64encode(bytes(x)).decode()))
    x = bytearray(blob)
    for i in range(4):
        x[i] ^= m
    alt.append(("all four version bytes changed by the mask %02x" % m, base64.b64encode(bytes(x)).decode()))
    for label, ch in rng.sample(R6_ODD_CHARS[:12], 3) + rng.sample(R6_ODD_CHARS[12:21], 1):
        pos = rng.randrange(112)
        alt.append(("character %d replaced by %s (112 characters)" % (pos, label), T[:pos] + ch + T[pos + 1:]))
    w = pc.World(prefix="kv_c15r6_")
    try:
        w.write("pt", ctx.rbytes(100))
        pub = pc.c15_enc_pub(pc.c16_x25519_pub(sk))
        jobs = []
        for n, (what, s) in enumerate(alt):
            jobs.append((what, "extract-pub", ["key", "extract-pub", s, "--env-pass"], pc.env_pw(pw), None))
            jobs.append((what, "change-pass", ["key", "change-pass", s, "--env-pass"], pc.env_pw(pw, b"a new password"), None))
            if n % 2 == 0:
                w.write("kr%d" % n, pc.key_block(b"zed", pub, s.encode("utf-8")))
                jobs.append((what, "encrypt --from", ["encrypt", "pt", "-t", "zed", "-f", "zed", "-o", "ct%d" % n, "-k", "kr%d" % n, "--env-pass"], pc.env_pw(pw), "ct%d" % n))
        runs = pmap(lambda j: w.run(j[2], env=j[3]), jobs)
        for (what, cmd, argv, env, outf), r in zip(jobs, runs):
            ctx.evaluations += 1
            ctx.oracle_checks += 1
            count(ctx, "gen:altered-string-proc-" + cmd.split()[0])
            leaked = b"PublicKey" in r.out or b"PrivateKey" in r.out
            bad = error_exit(r)
            if bad is None and leaked:
                bad = "exit 1 but a key on stdout: %r" % r.out[:120]
            if bad is None and outf and w.read(outf) is not None:
                bad = "exit 1 but the output file was written"
            if bad is not None:
                viol(ctx, "C15 altered locked key given to the program: %s, with the password of the original string; %s" % (what, cmd), [r],
                     "the string is not the locked key that was written (or not a locked key at all): an error (exit 1, an Error: line), no key printed, nothing written",
                     bad)
    finally:
        w.close()


# ---- C16: passwords that are RELATED spellings of one another; the same change-pass command issued twice ------------------------
def r6_password_pairs(ctx):
    """[(kind, P0, P1)] different passwords (different RFC 2104 key images) that a lenient reader might identify: P0 is P1's UTF-8
    read as ISO-8859-1 / Windows-1252 (mojibake), composed vs decomposed, fullwidth vs ASCII, case, a trailing blank, eszett vs ss"""
    import unicodedata
    rng = ctx.rng
    base = ["\u00e9", "Gr\u00fc\u00dfe", "\u00f1and\u00fa", "p\u00e4ss", "na\u00efve caf\u00e9", "\u00c5ngstr\u00f6m", "\u00fcber 9", "s\u00f8ster"]
    out = []
    for b_ in base:
        moj = b_.encode("utf-8").decode("latin-1")
        out.append(("mojibake", moj, b_))
        try:
            m2 = b_.encode("utf-8").decode("cp1252")
            if m2 != moj:
                out.append(("mojibake-cp1252", m2, b_))
        except UnicodeDecodeError:
            pass
        out.append(("double-mojibake", moj.encode("utf-8").decode("latin-1"), moj))
        nfd = unicodedata.normalize("NFD", b_)
        if nfd != b_:
            out.append(("composed/decomposed", nfd, b_))
        try:
            out.append(("one-byte-spelling", b_.encode("latin-1"), b_))          # bytes: in-process only
        except UnicodeEncodeError:
            pass
    out += [("fullwidth", "\uff50\uff57\uff11", "pw1"), ("case", "Hackme", "hackme"), ("eszett", "stra\u00dfe", "strasse"), ("trailing-blank", "pw ", "pw"),
            ("kelvin", "\u212a9", "K9"), ("utf16", "pw".encode("utf-16-le") + b"!", "pw!")]
    res = []
    for kind, a, b in out:
        ab = a if isinstance(a, bytes) else a.encode("utf-8")
        bb = b if isinstance(b, bytes) else b.encode("utf-8")
        if pc.hmac_key(ab) != pc.hmac_key(bb):
            res.append((kind, ab, bb))
    return res


def r6_c16_inproc(self, ctx):
    """KCases: a key locked under P1 (by the independent writer where OpenSSL's scrypt is there) refuses the related password P0, in
    both directions, and a change P0 -> P1 leaves a string that P0 no longer opens"""
    rng = ctx.rng
    pairs = r6_password_pairs(ctx)
    if not ctx.thorough():
        moj = [p for p in pairs if p[0].startswith("mojibake") or p[0] == "one-byte-spelling"]
        rest = [p for p in pairs if p not in moj]
        pairs = rng.sample(moj, min(4, len(moj))) + rng.sample(rest, min(4, len(rest)))
    cases = []
    items = []
    for kind, p0, p1 in pairs:
        sk = ctx.rbytes(32)
        for a, b in ((p0, p1), (p1, p0)):
            items.append((kind, sk, a, b, ctx.rbytes(32)))
    locked = []
    for kind, sk, a, b, salt in items:
        blob = pc.c15_ref_blob(sk, b, salt)
        locked.append(base64.b64encode(blob) if blob is not None else None)
    miss = [i for i, l in enumerate(locked) if l is None]
    if miss:
        for i, l in zip(miss, pc.lock_keys([(items[i][1], items[i][3], items[i][4]) for i in miss])):
            locked[i] = l
    for (kind, sk, a, b, salt), s in zip(items, locked):
        tg = ["related-passwords", "related-passwords-" + kind]
        cases.append(pc.KCase("sk_unlock", s=s, pw=b, tags=tg,
                              oracle=(lambda r, sk=sk: None if r["code"] == 0 and r["out"] == sk else
                                      ("the newest string unlocks with the newest password to the original key", r["raw"][:200]))))
        cases.append(pc.KCase("sk_unlock", s=s, pw=a, tags=tg,
                              oracle=pc.must_fail("an earlier password (%r) that differs from the newest (%r) [%s]" % (a, b, kind))))
    return cases


@timed
def r6_c16_proc(self, ctx):
    """process histories S0 --change-pass(P0 -> P1)--> S1 from a GIVEN key over related password pairs and ordinary ones, judged with the
    independent unlock: the same change-pass command issued a SECOND time on the newest string (its old password is now an earlier
    one) is refused; issued again on S0 it succeeds with yet another salt; any wrong old password is refused also when the requested
    new password is the current one; extract-pub / decrypt refuse the earlier password."""
    rng = ctx.rng
    pairs = [p for p in r6_password_pairs(ctx) if pc.c15_envable(p[1]) and pc.c15_envable(p[2])]
    moj = [p for p in pairs if p[0].startswith(("mojibake", "double"))]
    rest = [p for p in pairs if p not in moj]
    sel = (moj + rest) if ctx.thorough() else rng.sample(moj, min(3, len(moj))) + rng.sample(rest, min(2, len(rest)))
    sel = list(sel) + [("ordinary", b"first password", b"second password"), ("ordinary", b"", b"x"), ("ordinary", rng.choice(pc.WS_PASSWORDS), b"b")]
    sel = [p for p in sel if pc.hmac_key(p[1]) != pc.hmac_key(p[2])]
    w = pc.World(prefix="kv_c16r6_")
    try:
        plans = []
        for h, (kind, p0, p1) in enumerate(sel):
            if h % 2 and kind != "ordinary":
                pass
            sk = ctx.rbytes(32)
            plans.append({"h": h, "kind": kind, "p0": p0, "p1": p1, "sk": sk, "pub": pc.c15_enc_pub(pc.c16_x25519_pub(sk)),
                          "S0": self.surr_lock(sk, p0, ctx.rbytes(32)), "wrong": rng.choice([b"not the password", p1 + b"x", p0 + p1 + b"!"]),
                          "pt": ctx.rbytes(64)})

        def one(pl):
            h = pl["h"]
            R = {}
            S0 = pl["S0"].decode()
            R["change"] = w.run(["key", "change-pass", S0, "--env-pass"], env=pc.env_pw(pl["p0"], pl["p1"]))
            out = R["change"].out
            if R["change"].rc != 0 or not out.startswith(b"PrivateKey = ") or not out.endswith(b"\n"):
                return pl, R, None
            S1 = out[len(b"PrivateKey = "):-1]
            s1 = S1.decode("ascii", "replace")
            R["again-on-newest"] = w.run(["key", "change-pass", s1, "--env-pass"], env=pc.env_pw(pl["p0"], pl["p1"]))
            R["again-on-first"] = w.run(["key", "change-pass", S0, "--env-pass"], env=pc.env_pw(pl["p0"], pl["p1"]))
            R["wrong-old-new-is-current"] = w.run(["key", "change-pass", s1, "--env-pass"], env=pc.env_pw(pl["wrong"], pl["p1"]))
            R["extract-earlier"] = w.run(["key", "extract-pub", s1, "--env-pass"], env=pc.env_pw(pl["p0"]))
            R["extract-newest"] = w.run(["key", "extract-pub", s1, "--env-pass"], env=pc.env_pw(pl["p1"]))
            w.write("kr%d" % h, pc.key_block(b"me", pl["pub"], S1))
            w.write("pt%d" % h, pl["pt"])
            R["encrypt-newest"] = w.run(["encrypt", "pt%d" % h, "-t", "me", "-f", "me", "-o", "ct%d" % h, "-k", "kr%d" % h, "--env-pass"], env=pc.env_pw(pl["p1"]))
            R["decrypt-earlier"] = w.run(["decrypt", "ct%d" % h, "-t", "me", "-o", "bad%d" % h, "-k", "kr%d" % h, "--env-pass"], env=pc.env_pw(pl["p0"]))
            R["encrypt-earlier"] = w.run(["encrypt", "pt%d" % h, "-t", "me", "-f", "me", "-o", "badct%d" % h, "-k", "kr%d" % h, "--env-pass"], env=pc.env_pw(pl["p0"]))
            R["decrypt-newest"] = w.run(["decrypt", "ct%d" % h, "-t", "me", "-o", "out%d" % h, "-k", "kr%d" % h, "--env-pass"], env=pc.env_pw(pl["p1"]))
            return pl, R, S1
        for pl, R, S1 in pmap(one, plans):
            h = pl["h"]
            sc = "C16 password change %r -> %r (%s) of a given key, then the same command again" % (pl["p0"], pl["p1"], pl["kind"])
            count(ctx, "related-histories:" + pl["kind"])
            allr = list(R.values())

            def J(ok, runs, expected, observed):
                ctx.oracle_checks += 1
                if not ok:
                    viol(ctx, sc, runs, expected, observed)
                return ok
            if not J(S1 is not None, allr, "change-pass with the password of the string succeeds and prints one PrivateKey line",
                     "exit %d stdout %r" % (R["change"].rc, R["change"].out[:100])):
                continue
            u1, u0 = pc.c16_unlock(S1, pl["p1"]), pc.c16_unlock(S1, pl["p0"])
            J(u1 == ("ok", pl["sk"]), [R["change"]], "the newest string unlocks with the newest password to the original key", "%s" % (u1[0],))
            J(u0[0] != "ok", [R["change"]], "the earlier password no longer unlocks the newest string", "it unlocks it")
            salt0, salt1 = base64.b64decode(pl["S0"])[4:36], (pc.b64_lenient(S1) or bytes(84))[4:36]
            J(salt1 != salt0, [R["change"]], "every change uses a new salt", "salt %s kept" % salt1.hex())
            for key, what in (("again-on-newest", "the same change-pass command issued again on the NEWEST string: its old password is an earlier password now"),
                              ("wrong-old-new-is-current", "a wrong old password (%r), the requested new password being the current one" % pl["wrong"]),
                              ("extract-earlier", "extract-pub of the newest string with the earlier password")):
                r = R[key]
                J(r.rc == 1 and r.out == b"" and "Error:" in r.errtext(), [R["change"], r], what + ": exit 1, an Error: message, nothing on stdout",
                  "exit %d stdout %r stderr %r" % (r.rc, r.out[:100], r.errtext()[-120:]))
            r = R["again-on-first"]
            ok = r.rc == 0 and r.out.startswith(b"PrivateKey = ") and r.out.endswith(b"\n")
            if J(ok, [R["change"], r], "the same change-pass command on the FIRST string succeeds again", "exit %d stdout %r" % (r.rc, r.out[:100])):
                S2 = r.out[len(b"PrivateKey = "):-1]
                u2 = pc.c16_unlock(S2, pl["p1"])
                salt2 = (pc.b64_lenient(S2) or bytes(84))[4:36]
                J(u2 == ("ok", pl["sk"]) and salt2 not in (salt0, salt1), [R["change"], r],
                  "it prints a string that unlocks under the new password to the original key, with a salt not used before", "%s, salt %s (earlier salts %s, %s)" % (u2[0], salt2.hex(), salt0.hex(), salt1.hex()))
            r = R["extract-newest"]
            J(r.rc == 0 and r.out == b"PublicKey = " + pl["pub"] + b"\n", [r], "extract-pub with the newest password prints the public key of the private key", "exit %d stdout %r" % (r.rc, r.out[:100]))
            e, d = R["encrypt-newest"], R["decrypt-newest"]
            J(e.rc == 0 and d.rc == 0 and w.read("out%d" % h) == pl["pt"], [e, d], "the re-locked key encrypts and decrypts under the newest password", "exit %d/%d" % (e.rc, d.rc))
            for key, outf in (("decrypt-earlier", "bad%d" % h), ("encrypt-earlier", "badct%d" % h)):
                r = R[key]
                J(r.rc == 1 and w.read(outf) is None, [R["change"], r], "%s with the earlier password: an error exit, no output file" % key.split("-")[0],
                  "exit %d, output file %s, stderr %r" % (r.rc, "written" if w.read(outf) is not None else "absent", r.errtext()[-120:]))
            for key, r in R.items():
                for what, needle in pc.secret_forms(pl["sk"]):
                    ctx.oracle_checks += 1
                    if needle in r.out and not key.startswith("decrypt") or needle in r.err:
                        viol(ctx, sc, [r], "the raw private key never appears in any output", "%s of the private key found in the output of %s" % (what, key))
        ctx.evaluations += w.nruns
        count(ctx, "proc:runs", w.nruns)
    finally:
        w.close()


# ---- C17: each of the four checksum bytes, for every key a command uses ---------------------------------------------------------
def r6_c17_checksum_cases(self, ctx):
    """pk_decode on encodings whose checksum differs from SHA-256(key)[0..4] in exactly one byte (each of the four), in every subset of
    the four bytes, or whose key differs while the checksum stays"""
    import itertools
    rng = ctx.rng
    cases = []
    for _ in range(6 if ctx.thorough() else 2):
        pk = ctx.rbytes(32)
        blob = pk + hashlib.sha256(pk).digest()[:4]
        var = []
        for k in (1, 2, 3, 4):
            for idx in itertools.combinations(range(32, 36), k):
                masks = [[rng.randrange(1, 256) for _ in idx]]
                if k == 1:
                    masks += [[0x01], [0x80]]
                for ms in masks:
                    x = bytearray(blob)
                    for i, m in zip(idx, ms):
                        x[i] ^= m
                    var.append(("checksum-bytes-%s" % "+".join(str(i - 32) for i in idx), bytes(x)))
        for _ in range(3):
            x = bytearray(blob)
            x[rng.randrange(32)] ^= 1 << rng.randrange(8)
            var.append(("key-bit", bytes(x)))
        var.append(("checksum-rotated", blob[:32] + blob[33:36] + blob[32:33]))
        var.append(("checksum-reversed", blob[:32] + blob[32:36][::-1]))
        var.append(("checksum-of-the-encoding", pk + hashlib.sha256(base64.b64encode(pk)).digest()[:4]))
        var.append(("checksum-last-4-of-sha256", pk + hashlib.sha256(pk).digest()[-4:]))
        for tg, b in var:
            if b == blob:
                continue
            cases.append(pc.KCase("pk_decode", s=base64.b64encode(b), tags=["checksum-byte", "checksum-byte-" + tg.split("-")[0] + "-" + tg.split("-")[1]],
                                  oracle=(lambda r, tg=tg: None if r["code"] != 0 else
                                          ("an encoded key is usable only if its checksum matches (%s changed)" % tg, r["raw"][:200]))))
    return cases


@timed
def r6_c17_checksum_commands(self, ctx):
    """the real program given generated-style keyrings in which the PublicKey line of ONE section the command uses - the recipient of
    encrypt, the SENDER of encrypt, the recipient of decrypt - carries an encoding whose checksum does not match (each checksum byte
    separately, several, the key bytes; still the base64 of 36 bytes, so the file parses): the command ends with an error and writes
    nothing.  The untouched keyring is the positive control."""
    rng = ctx.rng
    ks = pc.make_keys(ctx, 2)
    S = pc.lock_keys([(ks[0][0], b"pw-me", ctx.rbytes(32)), (ks[1][0], b"pw-bob", ctx.rbytes(32))])
    secs = [(b"me", ks[0][2], S[0]), (b"bob", ks[1][2], S[1])]

    def damaged(enc):
        blob = bytearray(base64.b64decode(enc))
        out = []
        for i in range(32, 36):
            x = bytearray(blob)
            x[i] ^= rng.choice([0x01, 0x80, rng.randrange(1, 256)])
            out.append(("checksum byte %d changed" % (i - 32), bytes(x)))
        x = bytearray(blob)
        for i in rng.sample(range(32, 36), rng.choice([2, 3])):
            x[i] ^= rng.randrange(1, 256)
        out.append(("several checksum bytes changed", bytes(x)))
        x = bytearray(blob)
        x[rng.randrange(32)] ^= 1 << rng.randrange(8)
        out.append(("one bit of the key changed, checksum kept", bytes(x)))
        other = ctx.rbytes(32)
        out.append(("another key with this key's checksum", other + bytes(blob[32:])))
        return [(what, base64.b64encode(b)) for what, b in out if b != bytes(blob)]
    w = pc.World(prefix="kv_c17r6_")
    try:
        w.write("pt", ctx.rbytes(150))
        good = b"\n".join(sec_np(*e) for e in secs)
        w.write("kr_good", good)
        e0 = w.run(["encrypt", "pt", "-t", "bob", "-f", "me", "-o", "ct_good", "-k", "kr_good", "--env-pass"], env=pc.env_pw(b"pw-me"))
        d0 = w.run(["decrypt", "ct_good", "-t", "bob", "-o", "out_good", "-k", "kr_good", "--env-pass"], env=pc.env_pw(b"pw-bob"))
        ctx.oracle_checks += 1
        if not (e0.rc == 0 and d0.rc == 0 and w.read("out_good") == w.read("pt")):
            viol(ctx, "C17 checksum through the commands: the untouched keyring", [e0, d0], "encrypt from 'me' to 'bob' and decrypt as 'bob' succeed",
                 "exit %d/%d" % (e0.rc, d0.rc))
            return
        jobs = []
        for role, who in (("recipient of encrypt", 1), ("sender of encrypt", 0), ("recipient of decrypt", 1)):
            for what, enc in damaged(secs[who][1]):
                n = len(jobs)
                s2 = list(secs)
                s2[who] = (secs[who][0], enc, secs[who][2])
                order = s2 if n % 2 == 0 else s2[::-1]
                w.write("kr%d" % n, b"\n".join((sec_np if n % 3 else sec_pn)(*e) for e in order))
                if role.endswith("encrypt"):
                    argv, env, outf = ["encrypt", "pt", "-t", "bob", "-f", "me", "-o", "ct%d" % n, "-k", "kr%d" % n, "--env-pass"], pc.env_pw(b"pw-me"), "ct%d" % n
                else:
                    argv, env, outf = ["decrypt", "ct_good", "-t", "bob", "-o", "out%d" % n, "-k", "kr%d" % n, "--env-pass"], pc.env_pw(b"pw-bob"), "out%d" % n
                jobs.append({"role": role, "what": what, "argv": argv, "env": env, "outf": outf, "enc": enc, "n": n})
        runs = pmap(lambda j: w.run(j["argv"], env=j["env"]), jobs)
        for j, r in zip(jobs, runs):
            ctx.oracle_checks += 1
            count(ctx, "checksum-through-commands:" + j["role"])
            bad = error_exit(r)
            if bad is None and w.read(j["outf"]) is not None:
                bad = "exit 1 but the output file was written"
            if bad is not None:
                viol(ctx, "C17 checksum through the commands: keyring whose section of the %s has PublicKey = %s (%s)" % (j["role"], j["enc"].decode(), j["what"]),
                     [r], "an encoded public key is usable only if its 4-byte checksum matches: the command that uses this section ends with an error "
                     "(exit 1, an Error: line) and writes nothing", bad, extra={"keyring": (w.read("kr%d" % j["n"]) or b"").decode("utf-8", "replace")})
        ctx.evaluations += w.nruns
        count(ctx, "proc:runs", w.nruns)
    finally:
        w.close()
