#!/bin/bash
# usage: tools/confirm_seed.sh <patch.diff> <demo.rs> <crate dir e.g. src/crypto> 
# Confirms in a scratch worktree of /repo (removed afterwards): the patch applies and compiles, the pinned test suite
# still passes with it, the demonstration passes WITHOUT the patch and fails WITH it.  Prints one summary line.
set -u
patch=$(readlink -f "$1"); demo=$(readlink -f "$2"); crate=$3
name=$(basename "$demo" .rs)
wt=$(mktemp -d /tmp/seedwt.XXXXXX); rmdir "$wt"
git -C /repo worktree add -q --detach "$wt" HEAD || exit 2
trap 'git -C /repo worktree remove --force "$wt" >/dev/null 2>&1; rm -rf "$wt"' EXIT
cd "$wt"; export CARGO_NET_OFFLINE=true
pkg=$(grep -m1 '^name' "$crate/Cargo.toml" | sed 's/.*"\(.*\)".*/\1/')
mkdir -p "$crate/tests"; cp "$demo" "$crate/tests/"
base=$(cargo test -p "$pkg" --offline --test "$name" 2>&1 | grep -E "^test result" | tail -1)
git apply "$patch" || { echo "CONFIRM $name: patch does not apply"; exit 1; }
rm "$crate/tests/$name.rs"
suite=$(cargo test --workspace --offline 2>&1 | grep -E "^test result" | awk '{p+=$4; f+=$6} END {print p" passed "f" failed"}')
cp "$demo" "$crate/tests/"
mut=$(cargo test -p "$pkg" --offline --test "$name" 2>&1 | grep -E "^test result" | tail -1)
echo "CONFIRM $name | without patch: $base | suite with patch: $suite | demo with patch: $mut"
