"""rustlite — the small amount of Rust reading the translator (tools/extract.py) needs.

Not a Rust parser.  It provides
  * a lexer (comments, strings, raw strings, char literals vs lifetimes, integer literals with
    radix / `_` / type suffix),
  * a crate index: every `const`/`static` item and every `fn` of every .rs file below a crate's src/
    directory, `#[cfg(test)]` items removed (all of them, wherever they are),
  * a constant-expression evaluator (literals, + - * / % << >> & | ^, parentheses, `as T`, paths to other
    constants of the same crate resolved transitively, `u32::MAX`-style associated constants, `.len()` of
    constant arrays, `.pow(k)`), and its linear extension (value = constant + sum of coefficient * atom)
    for expressions such as `aad_len + 4`,
  * inside one function: call sites with their argument ranges, `let` bindings, and ORIGIN tracing: where
    does the value of this argument expression come from (a parameter, a zeroed array, a call, a field of a
    call result, a slice of something, a constant ...), following local `let`s whatever their names are.

Everything that cannot be decided raises ExtractError; nothing is guessed.
"""
import os, re


class ExtractError(Exception):
    pass


class FatalExtract(Exception):
    """not confined to one item: a file the translator reads is missing or cannot be lexed"""


class NotConst(Exception):
    pass


USIZE_BITS = 64   # the harness and the model are about a 64-bit target (DESIGN 3.8)

INT_TYPES = {"u8": (8, False), "u16": (16, False), "u32": (32, False), "u64": (64, False), "u128": (128, False),
             "usize": (USIZE_BITS, False), "i8": (8, True), "i16": (16, True), "i32": (32, True), "i64": (64, True),
             "i128": (128, True), "isize": (USIZE_BITS, True)}

PUNCT = ["<<=", ">>=", "...", "..=", "::", "->", "=>", "==", "!=", "<=", ">=", "&&", "||", "+=", "-=", "*=", "/=",
         "%=", "^=", "&=", "|=", "<<", ">>", ".."]


class Tok:
    __slots__ = ("k", "s", "line", "v")

    def __init__(self, k, s, line, v=None):
        self.k, self.s, self.line, self.v = k, s, line, v

    def __repr__(self):
        return "%s:%s" % (self.k, self.s)


def _unescape(body, item):
    out = []
    i, n = 0, len(body)
    while i < n:
        c = body[i]
        if c != "\\":
            out.append(ord(c))
            i += 1
            continue
        i += 1
        if i >= n:
            raise ExtractError(item + ":bad escape")
        e = body[i]
        i += 1
        if e == "n":
            out.append(10)
        elif e == "r":
            out.append(13)
        elif e == "t":
            out.append(9)
        elif e == "0":
            out.append(0)
        elif e in "\\'\"":
            out.append(ord(e))
        elif e == "x":
            out.append(int(body[i:i + 2], 16))
            i += 2
        elif e == "u":
            j = body.index("}", i)
            out.append(int(body[i + 1:j].replace("_", ""), 16))
            i = j + 1
        elif e == "\n":
            while i < n and body[i] in " \t\r\n":
                i += 1
        else:
            raise ExtractError(item + ":unknown escape \\" + e)
    return out


_INT_RE = re.compile(r"(0x[0-9a-fA-F_]+|0o[0-7_]+|0b[01_]+|[0-9][0-9_]*)((?:u|i)(?:8|16|32|64|128|size))?")
_ID_RE = re.compile(r"[A-Za-z_][A-Za-z0-9_]*")


def lex(src, rel):
    toks = []
    i, n, line = 0, len(src), 1
    while i < n:
        c = src[i]
        if c == "\n":
            line += 1
            i += 1
        elif c in " \t\r":
            i += 1
        elif src.startswith("//", i):
            j = src.find("\n", i)
            i = n if j < 0 else j
        elif src.startswith("/*", i):
            depth, j = 1, i + 2
            while j < n and depth:
                if src.startswith("/*", j):
                    depth += 1
                    j += 2
                elif src.startswith("*/", j):
                    depth -= 1
                    j += 2
                else:
                    if src[j] == "\n":
                        line += 1
                    j += 1
            i = j
        elif c == '"' or (c == "b" and src.startswith('b"', i)):
            k = "bstr" if c == "b" else "str"
            j = i + (2 if c == "b" else 1)
            st = j
            while j < n and src[j] != '"':
                if src[j] == "\\":
                    j += 1
                j += 1
            body = src[st:j]
            toks.append(Tok(k, src[i:j + 1], line, _unescape(body, rel)))
            line += body.count("\n")
            i = j + 1
        elif (c == "r" and re.match(r'r#*"', src[i:i + 8])) or (c == "b" and re.match(r'br#*"', src[i:i + 9])):
            k = "bstr" if c == "b" else "str"
            m = re.match(r'b?r(#*)"', src[i:])
            close = '"' + m.group(1)
            st = i + m.end()
            j = src.find(close, st)
            if j < 0:
                raise ExtractError("lex:%s:%d unterminated raw string" % (rel, line))
            body = src[st:j]
            toks.append(Tok(k, src[i:j + len(close)], line, [ord(x) for x in body]))
            line += body.count("\n")
            i = j + len(close)
        elif c == "'" or (c == "b" and src.startswith("b'", i)):
            j = i + (2 if c == "b" else 1)
            if j < n and src[j] == "\\":
                e = src.find("'", j + 2)
                body = src[j:e]
                toks.append(Tok("char", src[i:e + 1], line, _unescape(body, rel)[0]))
                i = e + 1
            elif j + 1 < n and src[j + 1] == "'":
                toks.append(Tok("char", src[i:j + 2], line, ord(src[j])))
                i = j + 2
            else:
                m = _ID_RE.match(src, j)
                if not m:
                    raise ExtractError("lex:%s:%d stray quote" % (rel, line))
                toks.append(Tok("life", src[i:m.end()], line))
                i = m.end()
        elif c.isdigit():
            m = _INT_RE.match(src, i)
            t = m.group(1).replace("_", "")
            if t.startswith("0x"):
                v = int(t[2:], 16)
            elif t.startswith("0o"):
                v = int(t[2:], 8)
            elif t.startswith("0b"):
                v = int(t[2:], 2)
            else:
                v = int(t)
            toks.append(Tok("int", m.group(0), line, (v, m.group(2))))
            i = m.end()
        elif c.isalpha() or c == "_":
            m = _ID_RE.match(src, i)
            toks.append(Tok("id", m.group(0), line))
            i = m.end()
        else:
            for p in PUNCT:
                if src.startswith(p, i):
                    toks.append(Tok("p", p, line))
                    i += len(p)
                    break
            else:
                toks.append(Tok("p", c, line))
                i += 1
    return toks


OPEN = {"(": ")", "[": "]", "{": "}"}
CLOSE = {")": "(", "]": "[", "}": "{"}


def match_brackets(toks, rel):
    m = {}
    st = []
    for i, t in enumerate(toks):
        if t.k != "p":
            continue
        if t.s in OPEN:
            st.append(i)
        elif t.s in CLOSE:
            if not st or toks[st[-1]].s != CLOSE[t.s]:
                raise ExtractError("lex:%s:%d unbalanced %s" % (rel, t.line, t.s))
            j = st.pop()
            m[j] = i
            m[i] = j
    if st:
        raise ExtractError("lex:%s:%d unclosed %s" % (rel, toks[st[-1]].line, toks[st[-1]].s))
    return m


def drop_test_items(toks, rel):
    """remove every item that carries #[cfg(test)] or #[cfg(kestrel_verif)] (the harness hooks, absent from a
    normal build): the attribute, further attributes, the item"""
    out = []
    i, n = 0, len(toks)
    m = match_brackets(toks, rel)
    while i < n:
        t = toks[i]
        if t.s == "#" and i + 1 < n and toks[i + 1].s == "[":
            e = m[i + 1]
            inner = "".join(x.s for x in toks[i + 2:e])
            if inner in ("cfg(test)", "cfg(kestrel_verif)"):
                j = e + 1
                while j < n and toks[j].s == "#" and toks[j + 1].s == "[":
                    j = m[j + 1] + 1
                while j < n and toks[j].s not in ("{", ";"):
                    if toks[j].s in OPEN:
                        j = m[j]
                    j += 1
                if j < n and toks[j].s == "{":
                    j = m[j]
                i = j + 1
                continue
        out.append(t)
        i += 1
    return out


class SrcFile:
    def __init__(self, rel, text):
        self.rel = rel
        self.toks = drop_test_items(lex(text, rel), rel)
        self.m = match_brackets(self.toks, rel)
        self.alias = {}
        self._uses()

    def text(self, a, b):
        return " ".join(t.s for t in self.toks[a:b])

    def _uses(self):
        T = self.toks
        i = 0
        while i < len(T):
            if T[i].k == "id" and T[i].s == "use" and (i == 0 or T[i - 1].s in (";", "}", "]", ")", "{") or T[i - 1].k == "id"):
                j = i
                while j < len(T) and T[j].s != ";":
                    j += 1
                for k in range(i, j):
                    if T[k].k == "id" and T[k].s == "as" and T[k - 1].k == "id" and T[k + 1].k == "id":
                        self.alias[T[k + 1].s] = T[k - 1].s
                i = j
            i += 1


class ConstDef:
    def __init__(self, f, name, i_name, ty, ea, eb, kind):
        self.f, self.name, self.i_name, self.ty, self.ea, self.eb, self.kind = f, name, i_name, ty, ea, eb, kind
        self.line = f.toks[i_name].line

    def where(self):
        return {"file": self.f.rel, "line": self.line}


class FnDef:
    def __init__(self, f, name, i_name, pa, pb, ra, rb, ba, bb, impl):
        self.f, self.name, self.i_name = f, name, i_name
        self.pa, self.pb, self.ra, self.rb, self.ba, self.bb = pa, pb, ra, rb, ba, bb   # params ( ), ret, body { }
        self.impl = impl
        self.line = f.toks[i_name].line
        self.params = []   # (name, type_a, type_b)
        for (a, b) in split_top(f, pa + 1, pb, angle=True):
            T = f.toks
            c = None
            for k in range(a, b):
                if T[k].s == ":" :
                    c = k
                    break
            if c is None:
                self.params.append(("self", a, b))
            else:
                nm = [t.s for t in T[a:c] if t.k == "id" and t.s != "mut"]
                self.params.append((nm[-1] if nm else "_", c + 1, b))


def split_top(f, a, b, angle=False, sep=","):
    """ranges between top-level separators in toks[a:b]; an empty trailing piece (trailing comma) is dropped"""
    T, m = f.toks, f.m
    out, st, i, ang = [], a, a, 0
    while i < b:
        t = T[i]
        if t.k == "p":
            if t.s in OPEN:
                i = m[i] + 1
                continue
            if t.s == "<" and (angle or (i > a and T[i - 1].s == "::")):
                ang += 1
            elif t.s == ">" and ang:
                ang -= 1
            elif t.s == ">>" and ang:
                ang = max(0, ang - 2)
            elif t.s == sep and ang == 0:
                out.append((st, i))
                st = i + 1
        i += 1
    if st < b:
        out.append((st, b))
    return out


class Crate:
    def __init__(self, repo, sub):
        self.sub = sub
        self.files = []
        root = os.path.join(repo, sub)
        if not os.path.isdir(root):
            raise ExtractError("file:%s (no such directory)" % sub)
        for d, _, fs in sorted(os.walk(root)):
            for fn in sorted(fs):
                if fn.endswith(".rs"):
                    p = os.path.join(d, fn)
                    rel = os.path.relpath(p, repo)
                    try:
                        with open(p, encoding="utf-8") as fh:
                            self.files.append(SrcFile(rel, fh.read()))
                    except OSError as e:
                        raise ExtractError("file:%s (%s)" % (rel, e))
        self.consts = {}
        self.fns = []
        for f in self.files:
            self._index(f)

    def file(self, base):
        for f in self.files:
            if os.path.basename(f.rel) == base:
                return f
        return None

    def _index(self, f):
        T, m = f.toks, f.m
        impls = []
        for i, t in enumerate(T):
            if t.k == "id" and t.s == "impl" and (i == 0 or T[i - 1].s in (";", "}", "]") or T[i-1].k == "id" and T[i-1].s in ("unsafe",)):
                j = i
                while j < len(T) and T[j].s != "{":
                    j += 1
                if j < len(T):
                    impls.append((j, m[j], f.text(i + 1, j)))
        for i, t in enumerate(T):
            if t.k != "id":
                continue
            if t.s in ("const", "static") and i + 1 < len(T):
                j = i + 1
                if T[j].s == "mut":
                    j += 1
                if T[j].k == "id" and j + 1 < len(T) and T[j + 1].s == ":" and not (i > 0 and T[i - 1].s == "*"):
                    k = j + 2
                    while k < len(T) and T[k].s not in ("=", ";"):
                        if T[k].s in OPEN:
                            k = m[k]
                        k += 1
                    if k < len(T) and T[k].s == "=":
                        e = k + 1
                        while e < len(T) and T[e].s != ";":
                            if T[e].s in OPEN:
                                e = m[e]
                            e += 1
                        self.consts.setdefault(T[j].s, []).append(ConstDef(f, T[j].s, j, (j + 2, k), k + 1, e, t.s))
            elif t.s == "fn" and i + 1 < len(T) and T[i + 1].k == "id":
                j = i + 2
                if T[j].s == "<":
                    ang = 0
                    while j < len(T):
                        if T[j].s == "<":
                            ang += 1
                        elif T[j].s == ">":
                            ang -= 1
                        elif T[j].s == ">>":
                            ang -= 2
                        j += 1
                        if ang <= 0:
                            break
                if j >= len(T) or T[j].s != "(":
                    continue
                pa, pb = j, m[j]
                k = pb + 1
                while k < len(T) and T[k].s not in ("{", ";"):
                    if T[k].s in ("(", "["):
                        k = m[k]
                    k += 1
                if k >= len(T) or T[k].s == ";":
                    continue
                ra = pb + 2 if T[pb + 1].s == "->" else pb + 1
                impl = ""
                for (a, b, txt) in impls:
                    if a < i < b:
                        impl = txt
                g = FnDef(f, T[i + 1].s, i + 1, pa, pb, ra, k, k, m[k], impl)
                # visibility: `pub` / `pub(crate)` in front of fn (after unsafe / extern "C" / const / async)
                q = i - 1
                g.is_pub = False
                while q >= 0 and (T[q].k in ("id", "str") and T[q].s in ("unsafe", "extern", "const", "async", "pub", "crate", "super", "in")
                                  or T[q].k == "str" or T[q].s in ("(", ")")):
                    if T[q].k == "id" and T[q].s == "pub":
                        g.is_pub = True
                        break
                    q -= 1
                self.fns.append(g)

    def find_fn(self, name, item, impl=None, pick=None):
        c = [g for g in self.fns if g.name == name and (impl is None or re.search(impl, g.impl))]
        if pick is not None:
            c = [g for g in c if pick(g)]
        if len(c) > 1 and impl is None:
            c2 = [g for g in c if g.impl == ""]
            if len(c2) == 1:
                c = c2
        if len(c) != 1:
            raise ExtractError("%s:fn %s%s (%d definitions in %s)" % (item, name, " in impl " + impl if impl else "", len(c), self.sub))
        return c[0]

    def find_const(self, name, near=None):
        c = self.consts.get(name, [])
        if len(c) > 1 and near is not None:
            c2 = [d for d in c if d.f is near]
            if c2:
                c = c2
        if len(c) == 1:
            return c[0]
        return None


# ---------------------------------------------------------------- linear / constant values
class Lin:
    """c + sum coef * atom"""
    __slots__ = ("c", "t")

    def __init__(self, c=0, t=None):
        self.c = c
        self.t = {k: v for k, v in (t or {}).items() if v != 0}

    def is_const(self):
        return not self.t

    def __add__(self, o):
        t = dict(self.t)
        for k, v in o.t.items():
            t[k] = t.get(k, 0) + v
        return Lin(self.c + o.c, t)

    def __neg__(self):
        return Lin(-self.c, {k: -v for k, v in self.t.items()})

    def __sub__(self, o):
        return self + (-o)

    def scale(self, k):
        return Lin(self.c * k, {a: v * k for a, v in self.t.items()})

    def __eq__(self, o):
        return isinstance(o, Lin) and self.c == o.c and self.t == o.t

    def __repr__(self):
        return "Lin(%d,%r)" % (self.c, self.t)


def cast_int(v, ty):
    bits, signed = INT_TYPES[ty]
    v &= (1 << bits) - 1
    if signed and v >> (bits - 1):
        v -= 1 << bits
    return v


class Eval:
    """precedence-climbing evaluator over f.toks[a:b].
    resolve(path_tokens_range, postfix_end) is asked for every primary that is not a literal; it returns a Lin, or
    None (then the expression is not linear/constant)."""
    LEVELS = [["|"], ["^"], ["&"], ["<<", ">>"], ["+", "-"], ["*", "/", "%"]]

    def __init__(self, crate, f, a, b, local=None, stack=()):
        self.crate, self.f, self.T, self.a, self.b, self.local, self.stack = crate, f, f.toks, a, b, local, stack
        self.i = a

    def run(self):
        v = self.binary(0)
        if self.i != self.b:
            raise NotConst("trailing tokens at `%s`" % self.f.text(self.i, self.b))
        return v

    def peek(self):
        return self.T[self.i] if self.i < self.b else None

    def binary(self, lvl):
        if lvl == len(self.LEVELS):
            return self.cast()
        v = self.binary(lvl + 1)
        while True:
            t = self.peek()
            if t is None or t.k != "p" or t.s not in self.LEVELS[lvl]:
                return v
            self.i += 1
            w = self.binary(lvl + 1)
            v = self.apply(t.s, v, w)

    def apply(self, op, v, w):
        if op == "+":
            return v + w
        if op == "-":
            return v - w
        if op == "*":
            if w.is_const():
                return v.scale(w.c)
            if v.is_const():
                return w.scale(v.c)
            raise NotConst("non-linear product")
        if not (v.is_const() and w.is_const()):
            raise NotConst("operator %s on a non-constant" % op)
        a, b = v.c, w.c
        if op in ("/", "%") and b == 0:
            raise NotConst("division by zero")
        if op == "/":
            q = abs(a) // abs(b)
            return Lin(q if (a < 0) == (b < 0) else -q)
        if op == "%":
            return Lin(abs(a) % abs(b) * (1 if a >= 0 else -1))
        if op == "<<":
            return Lin(a << b)
        if op == ">>":
            return Lin(a >> b)
        if op == "&":
            return Lin(a & b)
        if op == "|":
            return Lin(a | b)
        if op == "^":
            return Lin(a ^ b)
        raise NotConst("operator " + op)

    def cast(self):
        v = self.unary()
        while self.peek() is not None and self.peek().k == "id" and self.peek().s == "as":
            ty = self.T[self.i + 1].s
            if ty not in INT_TYPES:
                raise NotConst("cast to " + ty)
            self.i += 2
            if v.is_const():
                v = Lin(cast_int(v.c, ty))
            # a cast of a non-constant keeps the atom: the callers that care about casts look at the tokens
        return v

    def unary(self):
        t = self.peek()
        if t is None:
            raise NotConst("empty expression")
        if t.k == "p" and t.s == "-":
            self.i += 1
            return -self.unary()
        if t.k == "p" and t.s in ("&", "*", "&&"):
            self.i += 1
            if self.peek() is not None and self.peek().k == "id" and self.peek().s == "mut":
                self.i += 1
            return self.unary()
        return self.postfix()

    def postfix(self):
        T = self.T
        t = self.peek()
        start = self.i
        if t.k == "int":
            self.i += 1
            v, suf = t.v
            val = Lin(v)
        elif t.k == "char":
            self.i += 1
            val = Lin(t.v)
        elif t.k == "p" and t.s == "(":
            e = self.f.m[self.i]
            val = Eval(self.crate, self.f, self.i + 1, e, self.local, self.stack).run()
            self.i = e + 1
        elif t.k == "id":
            j = self.i + 1
            while j + 1 < self.b and T[j].s == "::" and (T[j + 1].k == "id" or T[j + 1].s == "<"):
                if T[j + 1].s == "<":      # turbofish  size_of::<u32>
                    k, ang = j + 1, 0
                    while k < self.b:
                        if T[k].s == "<":
                            ang += 1
                        elif T[k].s == ">":
                            ang -= 1
                        k += 1
                        if ang == 0:
                            break
                    j = k
                else:
                    j += 2
            self.i = j
            val = self.path(start, j)
        else:
            raise NotConst("unexpected `%s`" % t.s)
        # postfix chain
        while self.i < self.b:
            t = T[self.i]
            if t.s == "." and self.i + 2 < self.b + 1 and T[self.i + 1].k == "id":
                name = T[self.i + 1].s
                if self.i + 2 < self.b and T[self.i + 2].s == "(":
                    e = self.f.m[self.i + 2]
                    val = self.method(start, val, name, self.i + 3, e)
                    self.i = e + 1
                else:
                    val = self.atom(start, self.i + 2)
                    self.i += 2
            elif t.s == "[":
                e = self.f.m[self.i]
                val = self.atom(start, e + 1)
                self.i = e + 1
            elif t.s == "?":
                self.i += 1
            else:
                break
        return val

    def atom(self, a, b):
        if self.local is None:
            raise NotConst("`%s` is not a constant" % self.f.text(a, b))
        return Lin(0, {self.local.canon(a, b): 1})

    def method(self, start, val, name, a, b):
        if name == "pow" and val is not None and val.is_const():
            k = Eval(self.crate, self.f, a, b, self.local, self.stack).run()
            if k.is_const():
                return Lin(val.c ** k.c)
        if name == "len" and a == b:
            # .len() of a constant array / string
            d = self._const_def(start, self.i)
            if d is not None:
                n = const_len(self.crate, d)
                if n is not None:
                    return Lin(n)
        if name in ("unwrap", "into", "try_into", "clone", "expect") and val is not None:
            return val
        return self.atom(start, b + 1)

    def _const_def(self, a, b):
        T = self.T
        if all(T[k].k == "id" or T[k].s == "::" for k in range(a, b)) and T[b - 1].k == "id":
            return self.crate.find_const(T[b - 1].s, self.f)
        return None

    def path(self, a, b):
        T = self.T
        segs = [T[k].s for k in range(a, b) if T[k].k == "id"]
        last = segs[-1]
        if len(segs) >= 2 and segs[-2] in INT_TYPES and last in ("MAX", "MIN", "BITS"):
            bits, signed = INT_TYPES[segs[-2]]
            if last == "BITS":
                return Lin(bits)
            if last == "MAX":
                return Lin((1 << (bits - 1)) - 1 if signed else (1 << bits) - 1)
            return Lin(-(1 << (bits - 1)) if signed else 0)
        if last == "size_of" and self.i < self.b and T[self.i].s == "(":
            tys = [T[k].s for k in range(a, b) if T[k].s in INT_TYPES]
            if tys:
                self.i = self.f.m[self.i] + 1
                return Lin(INT_TYPES[tys[0]][0] // 8)
        if last in ("true", "false") and len(segs) == 1:
            raise NotConst("boolean")
        # a local binding shadows a crate constant
        if self.local is not None and len(segs) == 1:
            r = self.local.resolve_ident(a, self.stack)
            if r is not None:
                return r
        d = self.crate.find_const(last, self.f) if all(s in ("crate", "self", "super") or True for s in segs[:-1]) else None
        if d is not None and not (self.i < self.b and T[self.i].s == "("):
            key = (d.f.rel, d.i_name)
            if key in self.stack:
                raise NotConst("cyclic constant " + last)
            if self.i < self.b and T[self.i].s == ".":     # CONST.len()
                return None
            return Eval(self.crate, d.f, d.ea, d.eb, None, self.stack + (key,)).run()
        if self.local is not None:
            if self.i < self.b and T[self.i].s == "(":
                e = self.f.m[self.i]
                self.i = e + 1
                return Lin(0, {self.local.canon(a, e + 1): 1})
            return Lin(0, {self.local.canon(a, b): 1})
        raise NotConst("`%s` is not a constant of %s" % ("::".join(segs), self.crate.sub))


def const_len(crate, d):
    """length of a constant array / byte string / str item, or None"""
    T = d.f.toks
    a, b = d.ty
    if T[a].s == "[" and d.f.m[a] == b - 1:
        parts = split_top(d.f, a + 1, b - 1, sep=";")
        if len(parts) == 2:
            try:
                return ceval(crate, d.f, parts[1][0], parts[1][1])
            except NotConst:
                return None
    if d.eb - d.ea == 1 and T[d.ea].k in ("str", "bstr"):
        from_str = T[d.ea]
        return len(bytes_of_str(from_str))
    return None


def bytes_of_str(t):
    if t.k == "bstr":
        return list(t.v)
    out = []
    for c in t.v:
        out.extend(chr(c).encode("utf-8"))
    return out


def ceval(crate, f, a, b):
    v = Eval(crate, f, a, b).run()
    if v is None or not v.is_const():
        raise NotConst("`%s` is not a constant" % f.text(a, b))
    return v.c


def ceval_item(crate, f, a, b, item):
    try:
        return ceval(crate, f, a, b)
    except NotConst as e:
        raise ExtractError("%s:const `%s` (%s)" % (item, f.text(a, b), e))
