"""translator items: src/cli/src (keyring.rs, main.rs, commands.rs), src/ffi/src/lib.rs, Cargo.lock"""
import os, re
from rustlite import ExtractError, FatalExtract, Lin, split_top, bytes_of_str, OPEN
from xt_common import (slice_bounds, tok0, base_canon, need, arg, zero_fill_size, where_of, named_let_fill, named_const_int, named_const_bytes,
                       bytes_value, if_conditions, comparisons, len_comparand, RoleCtx, Roles, Texts, Words, OptTable,
                       CMP_FLIP)

CODECS = ("Base64", "Base64NoPadding", "Base64UrlSafe", "Base64UrlSafeNoPadding", "Hex")


def any_len(s):
    return s.endswith(". len ( )")


def first_len_cmp(F, ops, item, subject=any_len):
    for cond in if_conditions(F):
        r = len_comparand(F, cond, subject, item)
        if len(r) == 1 and r[0][0] in ops:
            return r[0], cond
    raise ExtractError(item)


def const_slice(F, o, item, size=None):
    need(o.kind == "slice", "%s:`%s` is not a slice" % (item, o.text()))
    lo, hi = slice_bounds(o, item, Lin(size) if size is not None else None)
    need(lo is not None and hi is not None and lo.is_const() and hi.is_const(), item + ":slice bounds are not constant")
    return lo.c, hi.c


def nonce_of(F, call, it, nm):
    def role():
        o = call.origin(1)
        return zero_fill_size(F, o, it), where_of(F, o)
    return (("role:nonce argument of %s in %s" % (call.path[-1], F.fn.name), role),
            ("name:let nonce = [0u8; N]", lambda: named_let_fill(F, "nonce", it)))


COST_NAMES = ("SCRYPT_N", "SCRYPT_R", "SCRYPT_P")


def lock_key_items(S):
    K = S.cli
    item = "keyring.rs:lock_private_key"
    FL = S.fn(K, "lock_private_key", item)
    need(len(FL.fn.params) == 3, item + ":signature changed")
    enc = FL.one_call("chapoly_encrypt_ietf", item + ":chapoly_encrypt_ietf", count=1)
    need(len(enc.args) == 4, item + ":chapoly_encrypt_ietf arity")
    sc = FL.one_call("scrypt", item + ":scrypt", count=1)
    need(len(sc.args) == 6, item + ":scrypt arity")

    def version_role():
        o = enc.origin(3)
        return bytes_value(FL, o, item + ":aad"), where_of(FL, o)
    S.try_item("kr_private_key_version", ("role:aad argument of chapoly_encrypt_ietf in lock_private_key", version_role),
               ("name:const PRIVATE_KEY_VERSION", lambda: named_const_bytes(S, K, "PRIVATE_KEY_VERSION", "keyring.rs:PRIVATE_KEY_VERSION")))
    for k in range(3):
        def th(k=k):
            o = sc.origin(2 + k)
            return sc.const(2 + k, item + ":scrypt cost"), where_of(FL, o)
        S.try_item("kr_" + COST_NAMES[k].lower(), ("role:cost arguments of scrypt in lock_private_key", th),
                   ("name:const " + COST_NAMES[k], lambda k=k: named_const_int(S, K, COST_NAMES[k], "keyring.rs:" + COST_NAMES[k])))
    w = sc.where()
    pat = "role:scrypt call of lock_private_key"
    with S.section(item + ":scrypt call"):
        S.put("kr_lock_scrypt_args_const", 1 if all(sc.is_const_expr(2 + k) for k in range(3)) else 0, pat, w)
        S.put("kr_lock_scrypt_len", sc.const(5, item + ":scrypt len"), pat, w)
    S.try_item("kr_lock_nonce_len", *nonce_of(FL, enc, item + ":nonce", "nonce"))
    with S.section(item + ":salt type"):
        (nm, ta, tb) = FL.fn.params[2]
        need(FL.T[ta].s == "[" and FL.m[ta] == tb - 1, item + ":salt parameter is not an array")
        parts = split_top(FL.f, ta + 1, tb - 1, sep=";")
        need(len(parts) == 2, item + ":salt type")
        S.put("kr_lock_salt_len", FL.const(parts[1][0], parts[1][1], item), "role:type [u8; N] of the salt parameter of lock_private_key", FL.where(ta))
    known = {tuple(S.val("kr_private_key_version")): "RVersion"}
    RL = RoleCtx(S, FL, ["RPrivateKey", "RPassword", "RSalt"], item, known_bytes=known,
                 callroles={"chapoly_encrypt_ietf": "RCiphertext"})
    with S.section(item + ":scrypt roles"):
        S.put("kr_lock_scrypt_roles", RL.roles_of_call(sc, 6), pat, w)
    with S.section(item + ":aead roles"):
        S.put("kr_lock_aead_roles", RL.roles_of_call(enc, 4), "role:chapoly_encrypt_ietf call of lock_private_key", enc.where())
    with S.section(item + ":layout"):
        ext = FL.mcalls("extend_from_slice")
        need(len(ext) == 3, "%s:%d extend_from_slice calls, expected 3" % (item, len(ext)))
        S.put("kr_lock_layout_roles", Roles(RL.of_arg(c, 0) for c in ext), "role:extend_from_slice calls of lock_private_key in order", ext[0].where())


def unlock_key_items(S):
    K = S.cli
    item = "keyring.rs:unlock_private_key"
    FU = S.fn(K, "unlock_private_key", item)
    need(len(FU.fn.params) == 2, item + ":signature changed")
    dec = FU.one_call("chapoly_decrypt_ietf", item + ":chapoly_decrypt_ietf", count=1)
    need(len(dec.args) == 4, item + ":chapoly_decrypt_ietf arity")
    sc = FU.one_call("scrypt", item + ":scrypt", count=1)
    need(len(sc.args) == 6, item + ":scrypt arity")

    def ct_len_role():
        (op, c, i), _ = first_len_cmp(FU, ("!=",), item + ":length test")
        return c, i
    S.try_item("kr_private_key_ct_len", ("role:`<key bytes>.len() != N` of unlock_private_key", ct_len_role),
               ("name:const PRIVATE_KEY_CT_LEN", lambda: named_const_int(S, K, "PRIVATE_KEY_CT_LEN", "keyring.rs:PRIVATE_KEY_CT_LEN")))
    w = sc.where()
    pat = "role:scrypt call of unlock_private_key"
    with S.section(item + ":scrypt call"):
        costs = [S.val("kr_" + n.lower()) for n in COST_NAMES]
        ok = all(sc.is_const_expr(2 + k) and sc.const(2 + k, item) == costs[k] for k in range(3))
        S.put("kr_unlock_scrypt_args_const", 1 if ok else 0, pat, w)
        S.put("kr_unlock_scrypt_len", sc.const(5, item + ":scrypt len"), pat, w)
    S.try_item("kr_unlock_nonce_len", *nonce_of(FU, dec, item + ":nonce", "nonce"))
    ctlen = S.val("kr_private_key_ct_len")

    def slices_role():
        ov = dec.origin(3)
        os_ = sc.origin(1)
        oc = dec.origin(2)
        v = const_slice(FU, ov, item + ":version slice", ctlen)
        s = const_slice(FU, os_, item + ":salt slice", ctlen)
        c = const_slice(FU, oc, item + ":ciphertext slice", ctlen)
        need(ov.base.deflet() is os_.base.deflet() is oc.base.deflet() or
             (ov.base_rng and base_canon(ov) == base_canon(os_) == base_canon(oc)),
             item + ":the three slices are not of the same buffer")
        d = {"kr_unlock_version_lo": v[0], "kr_unlock_version_end": v[1], "kr_unlock_salt_lo": s[0],
             "kr_unlock_salt_hi": s[1], "kr_unlock_ct_lo": c[0], "kr_unlock_ct_hi": c[1]}
        return d, where_of(FU, ov)

    def slices_name():
        d = {}
        w = None
        for (nm, keys) in (("version_aad", ("kr_unlock_version_lo", "kr_unlock_version_end")),
                           ("salt", ("kr_unlock_salt_lo", "kr_unlock_salt_hi")),
                           ("ciphertext", ("kr_unlock_ct_lo", "kr_unlock_ct_hi"))):
            LL = [L for L in FU.lets if L.name == nm and L.init]
            need(LL, item + ":let " + nm)
            o = FU.origin(*LL[-1].init)
            lo, hi = const_slice(FU, o, item + ":" + nm, ctlen)
            d[keys[0]], d[keys[1]] = lo, hi
            w = LL[-1].where()
        return d, w
    S.try_group(["kr_unlock_version_lo", "kr_unlock_version_end", "kr_unlock_salt_lo", "kr_unlock_salt_hi", "kr_unlock_ct_lo",
                 "kr_unlock_ct_hi"],
                ("role:slices given as aad / salt / ciphertext to chapoly_decrypt_ietf and scrypt in unlock_private_key", slices_role),
                ("name:let version_aad / salt / ciphertext = &key_bytes[a..b]", slices_name))
    smap = {(S.val("kr_unlock_version_lo"), S.val("kr_unlock_version_end")): "RVersion",
            (S.val("kr_unlock_salt_lo"), S.val("kr_unlock_salt_hi")): "RSalt",
            (S.val("kr_unlock_ct_lo"), S.val("kr_unlock_ct_hi")): "RCiphertext"}
    version = S.val("kr_private_key_version")
    known = {tuple(version): "RVersion"}

    class RU_(RoleCtx):
        def of_origin(self, o):
            if o.kind == "slice":
                try:
                    b = const_slice(FU, o, item, ctlen)
                    if b in smap:
                        return smap[b]
                except ExtractError:
                    pass
            return RoleCtx.of_origin(self, o)
    RU = RU_(S, FU, ["RLocked", "RPassword"], item, known_bytes=known)
    with S.section(item + ":scrypt roles"):
        S.put("kr_unlock_scrypt_roles", RU.roles_of_call(sc, 6), pat, w)
    with S.section(item + ":aead roles"):
        S.put("kr_unlock_aead_roles", RU.roles_of_call(dec, 4), "role:chapoly_decrypt_ietf call of unlock_private_key", dec.where())
    with S.section(item + ":version test"):
        # version test:  <version slice> != <the version constant>
        chk = 0
        for cond in if_conditions(FU):
            X = cond[4]
            cmps, conn = comparisons(X, cond[0], cond[1])
            if len(cmps) == 1 and cmps[0][1] == "!=":
                (l, op, r) = cmps[0]
                for (x, y) in ((l, r), (r, l)):
                    try:
                        if RU.of(x[0], x[1], X) == "RVersion" and bytes_value(FU, X.origin(*y), item) == version:
                            chk = 1
                    except ExtractError:
                        pass
        S.put("kr_unlock_version_checked", chk, "role:`if <version slice> != <version constant>` of unlock_private_key", dec.where())


def keyring_items(S):
    K = S.cli
    with S.section("keyring.rs:lock_private_key"):
        lock_key_items(S)
    with S.section("keyring.rs:unlock_private_key"):
        unlock_key_items(S)

    # ================= EncodedPk / EncodedSk :: try_from
    def try_len(ty):
        def th():
            it = "keyring.rs:%s::try_from:length" % ty
            F = S.fn(K, "try_from", it, impl=r"for %s$" % ty)
            (op, c, i), _ = first_len_cmp(F, ("!=",), it)
            return c, i
        return th
    S.try_item("kr_encoded_pk_try_len", ("role:`<decoded>.len() != N` of EncodedPk::try_from", try_len("EncodedPk")))
    S.try_item("kr_encoded_sk_try_len", ("role:`<decoded>.len() != N` of EncodedSk::try_from", try_len("EncodedSk")))

    # ================= decode_public_key
    item = "keyring.rs:decode_public_key"
    FD = S.fn(K, "decode_public_key", item)

    def pk_len_role():
        (op, c, i), _ = first_len_cmp(FD, ("<", "<="), item + ":length test")
        return c + (1 if op == "<=" else 0), i
    S.try_item("kr_public_key_len", ("role:`<decoded>.len() < N` of decode_public_key", pk_len_role),
           ("name:const PUBLIC_KEY_LEN", lambda: named_const_int(S, K, "PUBLIC_KEY_LEN", "keyring.rs:PUBLIC_KEY_LEN")))

    def decode_role():
        tf = [c for c in FD.calls("try_from") if len(c.path) >= 2 and c.path[-2] == "PublicKey"]
        need(len(tf) == 1 and len(tf[0].args) == 1, item + ":PublicKey::try_from call")
        opk = tf[0].origin(0)
        lo, hi = const_slice(FD, opk, item + ":public key slice")
        need(lo == 0, item + ":public key slice does not start at 0")
        for cond in if_conditions(FD):
            X = cond[4]
            cmps, conn = comparisons(X, cond[0], cond[1])
            if len(cmps) == 1 and cmps[0][1] == "!=":
                (l, op, r) = cmps[0]
                ol, orr = X.origin(*l), X.origin(*r)
                for (x, y) in ((ol, orr), (orr, ol)):
                    if x.kind == "slice" and y.kind == "slice" and y.base.kind == "call" and y.base.name == "sha256" \
                            and x.base_rng and base_canon(x) == base_canon(opk):
                        need(x.hi[0] == x.hi[1], item + ":checksum slice is not open-ended")
                        st = x.ctx.const(x.lo[0], x.lo[1], item)
                        ylo, yhi = const_slice(FD, y, item + ":expected checksum slice")
                        need(ylo == 0, item + ":expected checksum does not start at 0")
                        ha = y.base.ctx.origin(*y.base.args[0])
                        hok = 1 if (ha.kind == "slice" and const_slice(FD, ha, item) == (lo, hi)
                                    and base_canon(ha) == base_canon(opk)) else 0
                        d = {"kr_decode_pk_end": hi, "kr_decode_ck_start": st, "kr_checksum_len": yhi, "kr_decode_hash_of_pk": hok}
                        return d, where_of(FD, opk)
        raise ExtractError(item + ":checksum comparison")

    def decode_name():
        d = {}
        for (nm, key) in (("pk", "kr_decode_pk_end"), ("checksum", "kr_decode_ck_start"), ("exp_checksum", "kr_checksum_len")):
            LL = [L for L in FD.lets if L.name == nm and L.init and FD.origin(*L.init).kind == "slice"]
            need(LL, item + ":let " + nm)
            o = FD.origin(*LL[-1].init)
            if key == "kr_decode_ck_start":
                d[key] = o.ctx.const(o.lo[0], o.lo[1], item)
            else:
                d[key] = o.ctx.const(o.hi[0], o.hi[1], item)
        d["kr_decode_hash_of_pk"] = 0
        return d, {"file": FD.f.rel, "line": FD.fn.line}
    S.try_group(["kr_decode_pk_end", "kr_decode_ck_start", "kr_checksum_len", "kr_decode_hash_of_pk"],
            ("role:slice given to PublicKey::try_from and the two sides of the checksum comparison in decode_public_key", decode_role),
            ("name:let pk / checksum / exp_checksum", decode_name))

    # ================= encode_public_key
    item = "keyring.rs:encode_public_key"
    FE = S.fn(K, "encode_public_key", item)

    def encode_role():
        es = [c for c in FE.calls("encode_to_string")]
        need(len(es) == 1 and len(es[0].args) == 1, item + ":encode_to_string call")
        ob = es[0].origin(0)
        n = zero_fill_size(FE, ob, item + ":buffer")
        L = ob.deflet()
        need(L is not None, item + ":buffer is not a local")
        cps = FE.copies_into(L)
        need(len(cps) == 2, "%s:%d copies into the buffer, expected 2" % (item, len(cps)))
        rows = []
        for (slc, src, c) in cps:
            lo, hi = const_slice(FE, slc, item, n)
            rows.append((lo, hi, c.origin(0)))
        rows.sort()
        (l0, h0, s0), (l1, h1, s1) = rows
        need(l0 == 0 and h0 == l1 and h1 == n, item + ":buffer is not <public key> ++ <checksum>")
        need(s0.kind == "param" and s0.idx == 0, item + ":first piece is not the public key")
        need(s1.kind == "slice" and s1.base.kind == "call" and s1.base.name == "sha256", item + ":second piece is not a slice of sha256(..)")
        ha = s1.base.ctx.origin(*s1.base.args[0])
        clo, chi = const_slice(FE, s1, item + ":checksum slice")
        need(clo == 0, item + ":checksum slice does not start at 0")
        d = {"kr_encoded_pk_len": n, "kr_encode_pk_end": h0, "kr_encode_ck_start": l1, "kr_encode_ck_len": chi,
             "kr_encode_hash_of_pk": 1 if (ha.kind == "param" and ha.idx == 0) else 0}
        return d, L.where()

    def encode_name():
        n, w = named_let_fill(FE, "encoded", item)
        raise ExtractError("%s:buffer found by name (%d bytes) but not its layout" % (item, n))
    S.try_group(["kr_encoded_pk_len", "kr_encode_pk_end", "kr_encode_ck_start", "kr_encode_ck_len", "kr_encode_hash_of_pk"],
            ("role:buffer given to Base64::encode_to_string in encode_public_key and the copies into it", encode_role),
            ("name:let mut encoded", encode_name))

    # ================= valid_key_name
    item = "keyring.rs:valid_key_name"
    FV = S.fn(K, "valid_key_name", item)

    def name_max_role():
        (op, c, i), cond = first_len_cmp(FV, (">", ">="), item + ":length test", lambda s: s == "p0 . len ( )")
        return c - (1 if op == ">=" else 0), i
    S.try_item("kr_max_name_size", ("role:`<name>.len() > N` of valid_key_name", name_max_role),
           ("name:const MAX_NAME_SIZE", lambda: named_const_int(S, K, "MAX_NAME_SIZE", "keyring.rs:MAX_NAME_SIZE")))

    def name_chars():
        cs = [c for c in FV.mcalls("contains") if len(c.args) == 1 and tok0(c, 0).k == "char"]
        need(len(cs) == 1, "%s:%d contains(<char>) tests, expected 1" % (item, len(cs)))
        o = cs[0].recv_origin()
        need(o.kind == "param" and o.idx == 0, item + ":contains is not applied to the name")
        emp = [c for c in FV.mcalls("is_empty") if c.recv_origin().kind == "param"]
        d = {"kr_name_forbidden_char": tok0(cs[0], 0).v, "kr_name_empty_rejected": 1 if emp else 0}
        return d, cs[0].where()
    S.try_group(["kr_name_forbidden_char", "kr_name_empty_rejected"], ("role:contains(<char>) / is_empty() tests of valid_key_name", name_chars))

    # ================= parse_config / serialize_key: keywords
    item = "keyring.rs:parse_config"
    FP = S.fn(K, "parse_config", item)

    def keywords():
        sw = FP.mcalls("starts_with")
        strs, chars = [], []
        for c in sw:
            need(len(c.args) == 1, item + ":starts_with arity")
            o = c.origin(0)
            if o.kind == "str":
                strs.append((list(o.value), c))
            elif o.kind == "const_int" and tok0(c, 0).k == "char":
                chars.append((o.value, c))
            else:
                raise ExtractError(item + ":starts_with argument `%s`" % c.text(0))
        need(len(strs) == 4 and len(chars) == 1, "%s:%d string and %d char starts_with tests, expected 4 and 1" % (item, len(strs), len(chars)))
        sp = FP.mcalls("split_once")
        spl = []
        for c in sp:
            need(len(c.args) == 1 and tok0(c, 0).k == "char", item + ":split_once argument")
            spl.append(tok0(c, 0).v)
        rt = FP.mcalls("retain")
        need(len(rt) == 1, item + ":retain call")
        a, b = rt[0].args[0]
        RT = rt[0].ctx.T
        ch = [RT[k] for k in range(a, b) if RT[k].k == "char"]
        ne = [k for k in range(a, b) if RT[k].s == "!="]
        need(len(ch) == 1 and len(ne) == 1, item + ":retain closure is not |c| c != <char>")
        d = {"kr_kw_hdr": strs[0][0], "kr_kw_name": strs[1][0], "kr_kw_pub": strs[2][0], "kr_kw_priv": strs[3][0],
             "kr_comment_char": chars[0][0], "kr_split_chars": spl, "kr_strip_char": ch[0].v,
             "kr_trim_calls": len(FP.mcalls("trim")), "kr_lines_calls": len(FP.mcalls("lines"))}
        return d, strs[0][1].where()
    S.try_group(["kr_kw_hdr", "kr_kw_name", "kr_kw_pub", "kr_kw_priv", "kr_comment_char", "kr_split_chars", "kr_strip_char",
             "kr_trim_calls", "kr_lines_calls"],
            ("role:starts_with / split_once / retain tests of parse_config in order", keywords))

    def ser_fmt():
        it = "keyring.rs:serialize_key"
        F = S.fn(K, "serialize_key", it)
        fm = F.macros("format")
        need(len(fm) == 1 and fm[0].args, it + ":format! call")
        o = fm[0].origin(0)
        need(o.kind == "str", it + ":format string")
        R = RoleCtx(S, F, [("RParam", 0), ("RParam", 1), ("RParam", 2)], it)
        order = Roles(R.of_arg(fm[0], i) for i in range(1, len(fm[0].args)))
        return {"kr_serialize_fmt": list(o.value), "kr_serialize_args": order}, fm[0].where()
    S.try_group(["kr_serialize_fmt", "kr_serialize_args"], ("role:format! call of serialize_key", ser_fmt))

    # ================= base64 use (whole CLI crate)
    def b64():
        dec_n = enc_n = 0
        orig = 1
        none = 1
        w = None
        from rustfn import FnCtx
        for g in K.fns:
            F = FnCtx(K, g)
            for c in F.all_calls():      # every function is visited itself: no helper entering here
                if c.method or c.macro or len(c.path) < 2:
                    continue
                if c.path[-1] in ("decode_to_vec", "encode_to_string", "decode", "encode", "encoded_len"):
                    if c.path[-2] not in CODECS:
                        continue
                    if c.path[-2] != "Base64":
                        orig = 0
                    if c.path[-1] == "decode_to_vec":
                        dec_n += 1
                        need(len(c.args) == 2, "keyring.rs:decode_to_vec arity")
                        if c.origin(1).kind != "none":
                            none = 0
                    elif c.path[-1] == "encode_to_string":
                        enc_n += 1
                    else:
                        orig = 0
                    w = w or c.where()
        need(dec_n + enc_n > 0, "keyring.rs:no base64 call found")
        uses = any(t.s == "ct_codecs" for f in K.files for t in f.toks)
        d = {"kr_b64_codec_is_original": 1 if (orig and uses) else 0, "kr_b64_ignore_is_none": none,
             "kr_b64_decode_calls": dec_n, "kr_b64_encode_calls": enc_n}
        return d, w
    S.try_group(["kr_b64_codec_is_original", "kr_b64_ignore_is_none", "kr_b64_decode_calls", "kr_b64_encode_calls"],
            ("role:every ct_codecs call of the CLI crate", b64))


# ---------------------------------------------------------------- main.rs
def match_arms(F, scrutinee, item):
    """string patterns of the arms of the `match` whose scrutinee text matches the regex:
    [[bytes, ...] per arm]; the `_` arm gives []"""
    T, m = F.T, F.m
    for i in range(F.ba, F.bb):
        if T[i].k == "id" and T[i].s == "match":
            k = i + 1
            while k < F.bb and T[k].s != "{":
                if T[k].s in ("(", "["):
                    k = m[k]
                k += 1
            if not re.search(scrutinee, F.text(i + 1, k)):
                continue
            e = m[k]
            arms = []
            j = k + 1
            while j < e:
                p = j
                while T[p].s != "=>":
                    if T[p].s in OPEN:
                        p = m[p]
                    p += 1
                pats = [bytes_of_str(T[q]) for q in range(j, p) if T[q].k == "str"]
                other = [T[q].s for q in range(j, p) if T[q].k != "str" and T[q].s != "|"]
                need(not (pats and other), item + ":mixed match pattern")
                arms.append(pats)
                q = p + 1
                if T[q].s == "{":
                    q = m[q] + 1
                    if q < e and T[q].s == ",":
                        q += 1
                else:
                    while q < e and T[q].s != ",":
                        if T[q].s in OPEN:
                            q = m[q]
                        q += 1
                    q += 1
                j = q
            return arms, F.where(i)
    raise ExtractError(item + ":match " + scrutinee)


OPT_KIND = {"reqopt": 0, "optopt": 1, "optflag": 2}


def opt_tables(F, item):
    """Options objects of a function: {let index: (table, long_only)} in textual order"""
    out = {}
    order = []
    for c in F.tree_calls():
        if not c.method:
            continue
        if c.path[-1] in OPT_KIND or c.path[-1] in ("long_only", "optmulti", "optflagmulti", "optflagopt"):
            o = c.recv_origin()
            L = o.deflet()
            need(L is not None and o.kind == "call" and o.path[-2:] == ["Options", "new"], item + ":receiver of " + c.path[-1])
            if L not in out:
                out[L] = {"table": OptTable(), "long_only": 0, "let": L}
                order.append(L)
            if c.path[-1] == "long_only":
                out[L]["long_only"] = 1 if c.origin(0).kind == "bool" and c.origin(0).value else 0
            else:
                need(c.path[-1] in OPT_KIND, item + ":option kind %s is not modelled" % c.path[-1])
                need(len(c.args) >= 2, item + ":option arity")
                s = c.origin(0)
                l = c.origin(1)
                need(s.kind == "str" and l.kind == "str", item + ":option names are not string constants")
                out[L]["table"].append((OPT_KIND[c.path[-1]], list(s.value), list(l.value)))
    return [out[k] for k in order]


def main_items(S):
    K = S.cli
    item = "main.rs:main"

    def exit_code():
        F = S.fn(K, "main", item)
        cs = F.calls("exit")
        need(len(cs) == 1 and len(cs[0].args) == 1, item + ":process::exit call")
        return cs[0].const(0, item), cs[0].where()
    S.try_item("cli_exit_err", ("role:std::process::exit(N) of main", exit_code))

    item = "main.rs:try_main"
    FT = S.fn(K, "try_main", item)
    with S.section(item + ":command words"):
        arms, w = match_arms(FT, r"^\w+ \[ 1 \]$", item)
        S.put("cli_cmd_words", Words(a for a in arms if a), "role:string patterns of `match args[1]` in try_main", w)
        S.put("cli_cmd_has_default_arm", 1 if arms and arms[-1] == [] else 0, "role:last arm of `match args[1]` is `_`", w)

    def help_test():
        for cond in if_conditions(FT):
            if cond[4] is not FT:
                continue
            cs = FT.mcalls("contains", cond[0], cond[1])
            if cs:
                flags = Texts()
                for c in cs:
                    o = c.origin(0)
                    need(o.kind == "str", item + ":contains argument")
                    flags.append(list(o.value))
                r = []
                cmps, conn = comparisons(FT, cond[0], cond[1])
                for (l, op, rr) in cmps:
                    if op in ("<=", "<"):
                        try:
                            c = FT.const(rr[0], rr[1], item)
                        except ExtractError:
                            continue
                        if FT.text(l[0], l[1]).endswith(". len ( )"):
                            r.append(c - (1 if op == "<" else 0))
                need(len(r) == 1 and conn == ["||"], item + ":help test is not `len <= N || contains.. || contains..`")
                return {"cli_help_flags": flags, "cli_help_argc_max": r[0]}, cs[0].where()
        raise ExtractError(item + ":help test")
    S.try_group(["cli_help_flags", "cli_help_argc_max"], ("role:`if args.len() <= N || args.contains(..)` of try_main", help_test))

    def slice_idx(F, it):
        cs = F.calls("slice_args")
        need(cs, it + ":no slice_args call")
        return [c.const(1, it) for c in cs], cs[0].where()
    S.try_item("cli_dispatch_slice_idx", ("role:index argument of the slice_args calls of try_main", lambda: slice_idx(FT, item)))

    item = "main.rs:parse_key"
    lo = []
    lo_ok = True
    with S.section(item):
        FK = S.fn(K, "parse_key", item)
        with S.section(item + ":command words"):
            arms, w = match_arms(FK, r"^\w+ \[ 0 \]$", item)
            S.put("cli_key_words", Words(a for a in arms if a), "role:string patterns of `match args[0]` in parse_key", w)
        S.try_item("cli_key_slice_idx", ("role:index argument of the slice_args calls of parse_key", lambda: slice_idx(FK, item)))
        lo_ok = False
        tabs = opt_tables(FK, item)
        need(len(tabs) == 3, "%s:%d Options objects, expected 3" % (item, len(tabs)))
        lo += [t["long_only"] for t in tabs]
        for (nm, t) in zip(("cli_gen_opts", "cli_change_opts", "cli_extract_opts"), tabs):
            S.put(nm, t["table"], "role:reqopt/optopt/optflag calls on the Options objects of parse_key, in order", t["let"].where())
        lo_ok = True
    item = "main.rs:parse_password"
    with S.section(item):
        FP = S.fn(K, "parse_password", item)
        with S.section(item + ":command words"):
            arms, w = match_arms(FP, r"^\w+ \[ 0 \]$", item)
            S.put("cli_pass_words", Words(a for a in arms if a), "role:string patterns of `match args[0]` in parse_password", w)
        S.try_item("cli_pass_slice_idx", ("role:index argument of the slice_args calls of parse_password", lambda: slice_idx(FP, item)))
    for (fn, nm) in (("parse_encrypt", "cli_encrypt_opts"), ("parse_decrypt", "cli_decrypt_opts"),
                     ("parse_pass_encrypt", "cli_pass_encrypt_opts"), ("parse_pass_decrypt", "cli_pass_decrypt_opts")):
        it = "main.rs:" + fn
        ok1 = False
        with S.section(it):
            Fx = S.fn(K, fn, it)
            tabs = opt_tables(Fx, it)
            need(len(tabs) == 1, "%s:%d Options objects, expected 1" % (it, len(tabs)))
            lo.append(tabs[0]["long_only"])
            S.put(nm, tabs[0]["table"], "role:reqopt/optopt/optflag calls on the Options object of %s, in order" % fn, tabs[0]["let"].where())
            ok1 = True
        lo_ok = lo_ok and ok1
    with S.section("main.rs:long_only"):
        need(lo_ok, "main.rs:not every Options object was located")
        S.put("cli_long_only_all", 1 if all(lo) else 0, "role:every Options object gets long_only(true)", {"file": "src/cli/src/main.rs", "line": None})

    # usage messages: Err("...".to_string())
    def usage_msgs():
        from rustfn import FnCtx
        found = set()
        w = None
        for g in K.fns:
            if not g.name.startswith("parse_"):
                continue
            Fx = FnCtx(K, g)
            for c in Fx.calls("Err"):
                if len(c.args) == 1:
                    a, b = c.args[0]
                    X = c.ctx
                    if X.T[a].k == "str" and X.text(a + 1, b) == ". to_string ( )":
                        found.add(tuple(bytes_of_str(X.T[a])))
                        w = w or X.where(a)
        need(found, "main.rs:no usage message found")
        return Texts(list(x) for x in sorted(found)), w
    S.try_item("cli_usage_msgs", ("role:distinct literals of Err(\"..\".to_string()) in the parse_ functions, sorted", usage_msgs))

    def usage_fmt():
        it = "main.rs:print_usage_error"
        Fx = S.fn(K, "print_usage_error", it)
        cs = Fx.macros("anyhow")
        need(len(cs) == 1 and len(cs[0].args) == 3, it + ":anyhow! call")
        o0, o2 = cs[0].origin(0), cs[0].origin(2)
        need(o0.kind == "str" and o2.kind == "str", it + ":strings")
        return {"cli_usage_fmt": list(o0.value), "cli_usage_hint": list(o2.value)}, cs[0].where()
    S.try_group(["cli_usage_fmt", "cli_usage_hint"], ("role:anyhow!(fmt, msg, hint) of print_usage_error", usage_fmt))

    def from_hint():
        it = "main.rs:format_parse_decrypt_error"
        Fx = S.fn(K, "format_parse_decrypt_error", it)
        fm = Fx.macros("format")
        need(len(fm) == 1 and fm[0].args, it + ":format! call")
        o = fm[0].origin(0)
        need(o.kind == "str", it + ":format string")
        opts = Texts()
        for cond in if_conditions(Fx):
            X = cond[4]
            cmps, conn = comparisons(X, cond[0], cond[1])
            for (l, op, r) in cmps:
                if op == "==":
                    for x in (l, r):
                        if x[1] - x[0] == 1 and X.T[x[0]].k == "str":
                            opts.append(bytes_of_str(X.T[x[0]]))
        need(len(opts) >= 1, it + ":option names")
        return {"cli_from_hint_fmt": list(o.value), "cli_from_hint_opts": opts}, fm[0].where()
    S.try_group(["cli_from_hint_fmt", "cli_from_hint_opts"], ("role:format! and the == tests of format_parse_decrypt_error", from_hint))


def commands_items(S):
    K = S.cli

    def rand_len(fn, nm):
        def th():
            it = "commands.rs:%s:salt" % fn
            F = S.fn(K, fn, it)
            cs = F.calls("secure_random")
            need(len(cs) == 1 and len(cs[0].args) == 1, "%s:%d secure_random calls, expected 1" % (it, len(cs)))
            n = cs[0].const(0, it)
            Ls = [L for L in cs[0].ctx.lets if L.init and L.init[0] <= cs[0].i_name < L.init[1]]
            need(Ls and Ls[-1].ty, it + ":salt has no array type")
            from xt_crypto import let_array_type_len
            m_ = let_array_type_len(F, Ls[-1], it)
            return {nm + "_draw": n, nm + "_len": m_}, cs[0].where()
        return th
    for (fn, nm) in (("gen_key", "cli_gen_salt"), ("change_pass", "cli_change_salt"), ("pass_encrypt", "cli_pass_salt")):
        S.try_group([nm + "_draw", nm + "_len"], ("role:`let _: [u8; M] = secure_random(N)` of %s" % fn, rand_len(fn, nm)))

    def injects_none():
        it = "commands.rs:encrypt:key_encrypt call"
        F = S.fn(K, "encrypt", it)
        c = F.one_call("key_encrypt", it, count=1)
        need(len(c.args) == 9, it + ":arity")
        ok = all(c.origin(k).kind == "none" for k in (5, 6, 7))
        return 1 if ok else 0, c.where()
    S.try_item("cli_key_encrypt_injects_none", ("role:ephemeral / ephemeral_public / payload_key arguments of key_encrypt in commands::encrypt", injects_none))

    def fmt_of(fn, macro, nm, pick=0):
        def th():
            it = "commands.rs:%s:%s!" % (fn, macro)
            F = S.fn(K, fn, it)
            cs = [c for c in F.macros(macro) if c.args and c.origin(0).kind == "str"]
            strs = []
            for c in cs:
                v = list(c.origin(0).value)
                if v not in [x[0] for x in strs]:
                    strs.append((v, c))
            need(len(strs) > pick, it)
            return strs[pick][0], strs[pick][1].where()
        return th

    def change_fmts():
        it = "commands.rs:change_pass:format!"
        F = S.fn(K, "change_pass", it)
        vs = []
        for c in F.macros("format"):
            o = c.origin(0)
            need(o.kind == "str", it)
            vs.append(list(o.value))
        need(len(vs) == 2, "%s:%d format! calls, expected 2" % (it, len(vs)))
        vs.sort(key=len)
        return {"cli_change_pass_fmt": vs[0], "cli_change_pass_fmt_tty": vs[1]}, F.macros("format")[0].where()
    S.try_group(["cli_change_pass_fmt", "cli_change_pass_fmt_tty"], ("role:the two format! strings of change_pass (shorter = no terminal)", change_fmts))

    def extract_fmt():
        it = "commands.rs:extract_pub:println!"
        F = S.fn(K, "extract_pub", it)
        cs = F.macros("println")
        need(len(cs) == 1 and cs[0].args, it)
        o = cs[0].origin(0)
        need(o.kind == "str", it)
        return list(o.value), cs[0].where()
    S.try_item("cli_extract_pub_fmt", ("role:println! string of extract_pub", extract_fmt))

    def gen_prefix():
        it = "commands.rs:gen_key:format!"
        F = S.fn(K, "gen_key", it)
        vs = set()
        w = None
        for c in F.macros("format"):
            o = c.origin(0)
            if o.kind == "str":
                vs.add(tuple(o.value))
                w = w or c.where()
        need(len(vs) == 1, "%s:%d distinct format! strings, expected 1" % (it, len(vs)))
        return list(vs.pop()), w
    S.try_item("cli_gen_append_fmt", ("role:the format! string of gen_key (key appended to an existing file / terminal)", gen_prefix))


def ffi_items(S):
    item = "ffi/lib.rs:scrypt"
    F = S.fn(S.ffi, "scrypt", item)
    w = {"file": F.f.rel, "line": F.fn.line}
    S.put("ffi_scrypt_arity", len(F.fn.params), "role:parameters of the exported scrypt", w)
    S.put("ffi_scrypt_has_return", 0 if F.fn.ra >= F.fn.rb else 1, "role:return type of the exported scrypt", w)
    with S.section(item + ":regions and call"):
        ffi_regions(S, F, item, w)


def ffi_regions(S, F, item, w):
    regs = []
    reglet = {}
    for c in F.tree_calls():
        if not c.method and c.path[-1] in ("from_raw_parts", "from_raw_parts_mut"):
            need(len(c.args) == 2, item + ":from_raw_parts arity")
            p, n = c.origin(0), c.origin(1)
            need(p.kind == "param" and n.kind == "param", item + ":from_raw_parts arguments are not parameters")
            regs += [p.idx, n.idx]
            Ls = [L for L in c.ctx.lets if L.init and L.init[0] <= c.i_name < L.init[1]]
            need(Ls, item + ":region is not bound")
            reglet[Ls[-1]] = ("RParam", p.idx)
    S.put("ffi_scrypt_regions", regs, "role:(pointer, length) parameter indices of the from_raw_parts calls, in order", w)
    c = F.one_call("scrypt", item + ":library call", count=1)
    R = RoleCtx(S, F, [("RParam", i) for i in range(len(F.fn.params))], item, bufroles=reglet)
    S.put("ffi_scrypt_call_roles", R.roles_of_call(c, 6), "role:arguments of kestrel_crypto::scrypt in the exported scrypt", c.where())
    cps = F.mcalls("copy_from_slice")
    ok = 0
    if len(cps) == 1 and len(cps[0].args) == 1:
        dst = cps[0].recv_origin()
        src = cps[0].origin(0)
        ok = 1 if (dst.deflet() is not None and reglet.get(dst.deflet()) == ("RParam", 7)
                   and src.kind == "call" and src.name == "scrypt") else 0
    S.put("ffi_scrypt_copies_result", ok, "role:<derived_key region>.copy_from_slice(<result of scrypt>)", w)


def lock_items(S):
    p = os.path.join(S.repo, "Cargo.lock")
    try:
        txt = open(p, encoding="utf-8").read()
    except OSError as e:
        raise FatalExtract("file:Cargo.lock (%s)" % e)
    lines = txt.splitlines()
    for (crate, nm) in (("ct-codecs", "dep_ct_codecs_version"), ("getopts", "dep_getopts_version")):
        vs = []
        for i, l in enumerate(lines):
            if l.strip() == 'name = "%s"' % crate and i + 1 < len(lines):
                m = re.match(r'\s*version = "(\d+)\.(\d+)\.(\d+)"', lines[i + 1])
                if m:
                    vs.append(([int(m.group(k)) for k in (1, 2, 3)], i + 2))
        if len(vs) != 1:
            S.section_errors[nm] = "Cargo.lock:%s (%d entries)" % (crate, len(vs))
            continue
        S.put(nm, vs[0][0], "name:[[package]] name = \"%s\" in Cargo.lock" % crate, {"file": "Cargo.lock", "line": vs[0][1]})


def run(S):
    for (name, f) in (("keyring.rs", keyring_items), ("main.rs", main_items), ("commands.rs", commands_items),
                      ("ffi/lib.rs", ffi_items), ("Cargo.lock", lock_items)):
        with S.section(name):
            f(S)
