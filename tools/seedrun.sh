#!/bin/bash
# usage: tools/seedrun.sh <patch.diff> <tier> <prop> [<prop>...]
# Runs the named checks against a seeded change in FULL ISOLATION: a scratch worktree of /repo with the patch
# applied and a scratch copy of /verif whose harness points at that worktree.  /repo and /verif are not modified,
# so several of these can run at the same time.  (The sanctioned in-place variant is tools/seedtest.sh.)
set -u
patch=$(readlink -f "$1"); tier=$2; shift 2
src=${VERIF_SRC:-$(dirname "$(dirname "$(readlink -f "$0")")")}
wt=$(mktemp -d /tmp/seedwt.XXXXXX); rmdir "$wt"
cp=$(mktemp -d /tmp/seedrun.XXXXXX)
git -C /repo worktree add -q --detach "$wt" HEAD || exit 2
trap 'git -C /repo worktree remove --force "$wt" >/dev/null 2>&1; rm -rf "$wt" "$cp"' EXIT
git -C "$wt" apply "$patch" || { echo "seedrun: patch does not apply"; exit 2; }
rsync -a --exclude .git --exclude .cache --exclude 'replays/*.json' --exclude 'coq/**/*.glob' "$src"/ "$cp/"
sed -i "s|/repo/|$wt/|g; s|/repo\"|$wt\"|g" "$cp"/harness/*/Cargo.toml "$cp"/harness/clidrv/prepare.sh "$cp"/harness/build.sh
cd "$cp"
for p in "$@"; do
  out=$(KESTREL_REPO=$wt VERIF_JOBS=${VERIF_JOBS:-6} ./check "$p" "$tier" 2>&1 | grep -E "^(VIOLATION|OK|KNOWN-FINDING)" | sort -r | head -3 | tr "\n" " " | sed "s|$cp|/verif|g")
  echo "[$(basename $(dirname $patch))/$(basename $patch) $p] ${out:-<no verdict line>}"
done
