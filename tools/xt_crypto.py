"""translator items: src/crypto/src  lib.rs-level functions (AEAD wrappers, nonce, key containers, hkdf_noise,
noise_encrypt/noise_decrypt, scrypt pass-through), noise.rs, scrypt.rs.  encrypt.rs / decrypt.rs are in xt_files.py"""
from rustlite import ExtractError, Lin, split_top, ceval, NotConst
from xt_common import (slice_bounds, need, arg, zero_fill_size, where_of, named_let_fill, named_const_int, bytes_value,
                       if_conditions, comparisons, len_comparand, RoleCtx, Roles, Tokens, CMP_FLIP)


def params_tab(F):
    return [("RParam", i) for i in range(len(F.fn.params))]


def struct_array_field(crate, sname, item, field=None):
    """length N of the (first / named) field of type [u8; N] of `struct sname`"""
    for f in crate.files:
        T, m = f.toks, f.m
        for i in range(len(T) - 2):
            if T[i].k == "id" and T[i].s == "struct" and T[i + 1].s == sname and T[i + 2].s == "{":
                e = m[i + 2]
                for (a, b) in split_top(f, i + 3, e, angle=True):
                    c = [k for k in range(a, b) if T[k].s == ":"]
                    if not c:
                        continue
                    nm = T[c[0] - 1].s
                    ta = c[0] + 1
                    if (field is None or nm == field) and T[ta].s == "[" and m[ta] == b - 1:
                        parts = split_top(f, ta + 1, b - 1, sep=";")
                        if len(parts) == 2 and f.text(*parts[0]) == "u8":
                            try:
                                return ceval(crate, f, *parts[1]), {"file": f.rel, "line": T[ta].line}
                            except NotConst as ex:
                                raise ExtractError("%s:struct %s field %s (%s)" % (item, sname, nm, ex))
    raise ExtractError("%s:struct %s%s with a [u8; N] field" % (item, sname, "." + field if field else ""))


def let_array_type_len(F, L, item):
    need(L is not None and L.ty is not None, "%s:no array type annotation" % item)
    F = L.ctx
    a, b = L.ty
    T = F.T
    need(T[a].s == "[" and F.m[a] == b - 1, "%s:type `%s` is not an array" % (item, F.text(a, b)))
    parts = split_top(F.f, a + 1, b - 1, sep=";")
    need(len(parts) == 2, "%s:type `%s`" % (item, F.text(a, b)))
    return F.const(parts[1][0], parts[1][1], item)


def nonce_layout(S, fname, callee, tag):
    """chapoly_{en,de}crypt_noise: the buffer passed as nonce to the ietf function, where the counter bytes go"""
    item = "lib.rs:%s:nonce" % fname
    F = S.fn(S.crypto, fname, item)
    c = F.one_call(callee, item, count=1)
    arg(F, c, 1, item, 4)
    o = c.origin(1)
    n = zero_fill_size(F, o, item)
    L = o.deflet()
    need(L is not None, item + ":nonce buffer is not a local")
    cps = F.copies_into(L)
    need(len(cps) == 1, "%s:%d copy_from_slice into the nonce buffer, expected 1" % (item, len(cps)))
    sl, src, cc = cps[0]
    lo, hi = slice_bounds(sl, item, Lin(n))
    need(lo.is_const() and hi.is_const(), item + ":slice bounds")
    so = cc.origin(0)
    need(so.kind == "method" and so.name in ("to_le_bytes", "to_be_bytes"), item + ":source of the nonce bytes `%s`" % cc.text(0))
    need(so.base.kind == "param" and so.base.ctx is F and so.base.idx == 1, item + ":nonce bytes do not come from the counter parameter")
    le = 1 if so.name == "to_le_bytes" else 0
    # width of the counter parameter
    pa, pb = F.fn.params[1][1], F.fn.params[1][2]
    ty = F.text(pa, pb)
    from rustlite import INT_TYPES
    need(ty in INT_TYPES, item + ":counter type " + ty)
    width = INT_TYPES[ty][0] // 8
    R = RoleCtx(S, F, params_tab(F), item, bufroles={L: "RNonce"})
    roles = R.roles_of_call(c, 4)
    w = L.where()
    return {"len": n, "off": lo.c, "end": hi.c, "le": le, "width": width, "roles": roles}, w


def takes_u32(g):
    """lib.rs::scrypt (u32 cost parameters), as opposed to scrypt.rs::scrypt (usize)"""
    return any(g.f.text(a, b) == "u32" for (_, a, b) in g.params)


def takes_no_u32(g):
    return not takes_u32(g)


def lib_items(S):
    C = S.crypto
    # ---- nonce of the chunk / handshake AEAD
    for (fname, callee, tag) in (("chapoly_encrypt_noise", "chapoly_encrypt_ietf", "enc"),
                                 ("chapoly_decrypt_noise", "chapoly_decrypt_ietf", "dec")):
        with S.section("lib.rs:%s:nonce" % fname):
            d, w = nonce_layout(S, fname, callee, tag)
            pat = "role:nonce argument of %s in %s" % (callee, fname)
            if tag == "enc":
                S.put("noise_nonce_len", d["len"], pat, w)
            else:
                S.put("noise_nonce_len_dec", d["len"], pat, w)
            S.put("noise_nonce_off_" + tag, d["off"], pat, w)
            S.put("noise_nonce_end_" + tag, d["end"], pat, w)
            S.put("noise_nonce_le_" + tag, d["le"], pat, w)
            S.put("noise_nonce_ctr_width_" + tag, d["width"], pat, w)
            S.put("lib_%s_noise_to_ietf" % tag, d["roles"], pat, w)

    # ---- assert_eq!(key.len(), 32) of chapoly_decrypt_noise
    def dec_key_len():
        item = "lib.rs:chapoly_decrypt_noise:key length assert"
        F = S.fn(C, "chapoly_decrypt_noise", item)
        for c in F.macros("assert_eq"):
            if len(c.args) >= 2:
                for (x, y) in ((0, 1), (1, 0)):
                    try:
                        v = c.lin(x, item)
                        k = c.const(y, item)
                    except ExtractError:
                        continue
                    if v.c == 0 and list(v.t.items()) == [("p0 . len ( )", 1)]:
                        return k, c.where()
        raise ExtractError(item)
    S.try_item("lib_dec_noise_key_len", ("role:assert_eq!(<key>.len(), N) in chapoly_decrypt_noise", dec_key_len))

    # ---- TAG_SIZE: the bytes added to the plaintext length for the sealed buffer
    def tag_role():
        item = "lib.rs:chapoly_encrypt_ietf:output buffer"
        F = S.fn(C, "chapoly_encrypt_ietf", item)
        c = F.one_call("seal", item, count=1)
        arg(F, c, 4, item, 5)
        o = c.origin(4)
        need(o.kind == "fill" and o.value == 0, item + ":not a zeroed buffer")
        need(o.size.t == {"p2 . len ( )": 1}, item + ":size `%s` is not plaintext.len() + constant" % o.ctx.text(*o.size_rng))
        return o.size.c, where_of(F, o)
    S.try_item("lib_tag_size", ("role:sealed buffer of chapoly_encrypt_ietf = plaintext.len() + N", tag_role),
           ("name:const TAG_SIZE", lambda: named_const_int(S, C, "TAG_SIZE", "lib.rs:TAG_SIZE")))

    def ietf_min():
        item = "lib.rs:chapoly_decrypt_ietf:short ciphertext test"
        F = S.fn(C, "chapoly_decrypt_ietf", item)
        for cond in if_conditions(F):
            r = len_comparand(F, cond, lambda s: s == "p2 . len ( )", item)
            if len(r) == 1 and r[0][0] in ("<", "<="):
                return r[0][1] + (1 if r[0][0] == "<=" else 0), r[0][2]
        raise ExtractError(item)
    S.try_item("lib_dec_ietf_min_len", ("role:`if <ciphertext>.len() < N` of chapoly_decrypt_ietf", ietf_min))

    def ietf_nonce_key(fname):
        def th():
            item = "lib.rs:%s:orion call" % fname
            F = S.fn(C, fname, item)
            callee = "seal" if "encrypt" in fname else "open"
            c = F.one_call(callee, item, count=1)
            R = RoleCtx(S, F, params_tab(F), item, callroles={"from_slice": "RKey"})
            out = Roles()
            for i in range(len(c.args)):
                o = c.origin(i)
                if o.kind == "call" and o.name == "from_slice" and len(o.args) == 1:
                    out.append(R.of(o.args[0][0], o.args[0][1], o.ctx))
                elif o.kind == "fill":
                    out.append("ROut")
                else:
                    out.append(R.of_origin(o))
            return out, c.where()
        return th
    S.try_item("lib_enc_ietf_to_orion", ("role:arguments of chapoly::seal in chapoly_encrypt_ietf", ietf_nonce_key("chapoly_encrypt_ietf")))
    S.try_item("lib_dec_ietf_to_orion", ("role:arguments of chapoly::open in chapoly_decrypt_ietf", ietf_nonce_key("chapoly_decrypt_ietf")))

    # ---- key containers
    S.try_item("lib_payload_key_len", ("role:[u8; N] field of struct PayloadKey",
                                   lambda: struct_array_field(C, "PayloadKey", "lib.rs:PayloadKey")))
    S.try_item("lib_handshake_hash_len_enc", ("role:[u8; N] field handshake_hash of struct NoiseEncryptMsg",
                                          lambda: struct_array_field(C, "NoiseEncryptMsg", "lib.rs:NoiseEncryptMsg", "handshake_hash")))
    S.try_item("lib_handshake_hash_len_dec", ("role:[u8; N] field handshake_hash of struct NoiseDecryptMsg",
                                          lambda: struct_array_field(C, "NoiseDecryptMsg", "lib.rs:NoiseDecryptMsg", "handshake_hash")))

    def try_from_len(tyname):
        def th():
            item = "lib.rs:%s::try_from:length" % tyname
            F = S.fn(C, "try_from", item, impl=r"for %s$" % tyname)
            for cond in if_conditions(F):
                r = len_comparand(F, cond, lambda s: s == "p0 . len ( )", item)
                if len(r) == 1 and r[0][0] == "!=":
                    return r[0][1], r[0][2]
            raise ExtractError(item)
        return th
    S.try_item("lib_public_key_len", ("role:`<raw>.len() != N` of PublicKey::try_from", try_from_len("PublicKey")))
    S.try_item("lib_private_key_len", ("role:`<raw>.len() != N` of PrivateKey::try_from", try_from_len("PrivateKey")))

    def gen_len():
        item = "lib.rs:PrivateKey::generate"
        F = S.fn(C, "generate", item, impl=r"^PrivateKey$")
        c = F.one_call("secure_random", item, count=1)
        arg(F, c, 0, item, 1)
        return c.const(0, item), c.where()
    S.try_item("lib_private_key_generate_len", ("role:secure_random(N) of PrivateKey::generate", gen_len))

    def x25519_lens():
        item = "lib.rs:x25519:array conversions"
        F = S.fn(C, "x25519", item)
        out = {}
        w = None
        for L in F.lets:
            if L.init is None or L.ty is None:
                continue
            o = F.origin(L.init[0], L.init[1])
            if o.kind == "param" and o.idx in (0, 1) and F.T[L.ty[0]].s == "[":
                nm = "lib_x25519_sk_len" if o.idx == 0 else "lib_x25519_pk_len"
                if nm not in out:
                    out[nm] = let_array_type_len(F, L, item)
                    w = L.where()
        need(len(out) == 2, item)
        return out, w
    S.try_group(["lib_x25519_sk_len", "lib_x25519_pk_len"], ("role:`let _: [u8; N] = <param>.try_into()` of x25519", x25519_lens))

    # ---- hkdf_noise
    def hkdf_noise():
        item = "lib.rs:hkdf_noise"
        F = S.fn(C, "hkdf_noise", item)
        cs = F.calls("hmac_sha256")
        need(len(cs) == 3, "%s:%d hmac_sha256 calls, expected 3" % (item, len(cs)))
        for c in cs:
            need(len(c.args) == 2, item + ":hmac_sha256 arity")

        def which(o):
            if o.kind == "call" and o.name == "hmac_sha256":
                for i, c in enumerate(cs):
                    if c.start == o.a and c.ctx is o.ctx:
                        return i
            return None
        a0 = [c.origin(0) for c in cs]
        a1 = [c.origin(1) for c in cs]
        shape = (a0[0].kind == "param" and a0[0].idx == 0 and a1[0].kind == "param" and a1[0].idx == 1
                 and which(a0[1]) == 0 and which(a0[2]) == 0)
        c1 = bytes_value(F, a1[1], item + ":first counter")
        o2 = a1[2]
        n2 = zero_fill_size(F, o2, item + ":second counter block")
        L = o2.deflet()
        need(L is not None, item + ":second counter block is not a local")
        cps = F.copies_into(L)
        need(len(cps) == 2, "%s:%d copies into the second block, expected 2" % (item, len(cps)))
        cps.sort(key=lambda x: slice_bounds(x[0], item, Lin(n2))[0].c)
        (s1, src1, cc1), (s2, src2, cc2) = cps
        lo1, hi1 = slice_bounds(s1, item, Lin(n2))
        lo2, hi2 = slice_bounds(s2, item, Lin(n2))
        need(lo1.c == 0 and hi1.c == lo2.c and hi2.c == n2, item + ":second block is not <output1> ++ <tail>")
        shape = shape and which(cc1.origin(0)) == 1
        tail = bytes_value(F, cc2.origin(0), item + ":tail of the second block")
        # returned pair = (output of call 2, output of call 3)
        ret_ok = False
        tr = F.tail_range()
        if tr is not None:
            ro = F.origin(tr[0], tr[1])
            if ro.kind == "tuple" and len(ro.elems) == 2:
                ret_ok = which(ro.ctx.origin(*ro.elems[0])) == 1 and which(ro.ctx.origin(*ro.elems[1])) == 2
        d = {"lib_hkdf_noise_c1": c1, "lib_hkdf_noise_c2_len": n2, "lib_hkdf_noise_c2_split": hi1.c,
             "lib_hkdf_noise_c2_tail": tail, "lib_hkdf_noise_shape_ok": 1 if (shape and ret_ok) else 0}
        return d, L.where()
    S.try_group(["lib_hkdf_noise_c1", "lib_hkdf_noise_c2_len", "lib_hkdf_noise_c2_split", "lib_hkdf_noise_c2_tail",
             "lib_hkdf_noise_shape_ok"], ("role:the three hmac_sha256 calls of hkdf_noise", hkdf_noise))

    # ---- hkdf_sha256 / scrypt pass-through
    def hkdf_orion():
        item = "lib.rs:hkdf_sha256:derive_key"
        F = S.fn(C, "hkdf_sha256", item)
        c = F.one_call("derive_key", item, count=1)
        need(len(c.args) == 4, item + ":arity")
        R = RoleCtx(S, F, params_tab(F), item)
        out = Roles()
        okm_len_is_param = 0
        for i in range(len(c.args)):
            o = c.origin(i)
            if o.kind == "fill" and o.value == 0:
                out.append("ROut")
                okm_len_is_param = 1 if o.size == Lin(0, {"p3": 1}) else 0
            else:
                out.append(R.of_origin(o))
        return {"lib_hkdf_to_orion": out, "lib_hkdf_out_len_is_param": okm_len_is_param}, c.where()
    S.try_group(["lib_hkdf_to_orion", "lib_hkdf_out_len_is_param"], ("role:arguments of hkdf::derive_key in hkdf_sha256", hkdf_orion))

    def scrypt_pass():
        item = "lib.rs:scrypt:pass-through"
        F = S.fn(C, "scrypt", item, pick=takes_u32)
        c = F.one_call("scrypt", item, count=1)
        need(len(c.args) == 6, item + ":arity")
        out = Roles()
        casts = 1
        for i in range(len(c.args)):
            o = c.origin(i)
            if o.kind == "cast":
                if o.ty != "usize":
                    casts = 0
                o = o.inner
            need(o.kind == "param", item + ":argument `%s`" % c.text(i))
            out.append(("RParam", o.idx))
        return {"lib_scrypt_passthrough": out, "lib_scrypt_casts_usize": casts}, c.where()
    S.try_group(["lib_scrypt_passthrough", "lib_scrypt_casts_usize"], ("role:arguments of scrypt::scrypt in lib.rs::scrypt", scrypt_pass))

    # ---- noise_encrypt / noise_decrypt
    def noise_lib(fname, ptab, tag, msg_method):
        def th():
            item = "lib.rs:%s:init_x" % fname
            F = S.fn(C, fname, item)
            c = F.one_call("init_x", item, count=1)
            R = RoleCtx(S, F, ptab, item)
            roles = R.roles_of_call(c, 7)
            ms = F.mcalls(msg_method)
            need(len(ms) == 1 and len(ms[0].args) == 1, "%s:%s call" % (item, msg_method))
            mr = Roles([R.of_arg(ms[0], 0)])
            return {"lib_noise_%s_initx_roles" % tag: roles, "lib_noise_%s_msg_role" % tag: mr}, c.where()
        return th
    S.try_group(["lib_noise_enc_initx_roles", "lib_noise_enc_msg_role"],
            ("role:arguments of init_x / write_message in noise_encrypt",
             noise_lib("noise_encrypt", ["RSender", "RSenderPub", "RRecipient", "REphemeral", "REphemeralPub", "RPrologue", "RPayloadKey"], "enc", "write_message")))
    S.try_group(["lib_noise_dec_initx_roles", "lib_noise_dec_msg_role"],
            ("role:arguments of init_x / read_message in noise_decrypt",
             noise_lib("noise_decrypt", ["RRecipient", "RRecipientPub", "RPrologue", "RHandshakeMsg"], "dec", "read_message")))

    def dec_payload_len():
        item = "lib.rs:noise_decrypt:payload length test"
        F = S.fn(C, "noise_decrypt", item)
        for cond in if_conditions(F):
            r = len_comparand(F, cond, lambda s: s.endswith(". len ( )"), item)
            if len(r) == 1 and r[0][0] == "!=":
                return r[0][1], r[0][2]
        raise ExtractError(item)
    S.try_item("lib_noise_dec_payload_len", ("role:`<payload>.len() != N` of noise_decrypt", dec_payload_len))


def run(S):
    with S.section("lib.rs"):
        lib_items(S)
    import xt_noise
    xt_noise.run(S)
