"""vlib — shared machinery of ./check: translator call, Coq builds, harness builds, running the
implementation and the model on the same cases, evidence and violation reporting."""
import hashlib, json, os, random, re, shutil, subprocess, sys, time
from concurrent.futures import ThreadPoolExecutor

VERIF = os.path.normpath(os.path.join(os.path.dirname(os.path.abspath(__file__)), ".."))
REPO = os.environ.get("KESTREL_REPO", "/repo")
COQ = os.path.join(VERIF, "coq")
CACHE = os.path.join(VERIF, ".cache")
TARGET = os.environ.get("KESTREL_VERIF_TARGET") or os.path.join(CACHE, "target")
CASEDIR = os.path.join(COQ, "Run", "cases")
NPROC = int(os.environ.get("VERIF_JOBS", "16"))
GUARD = "kestrel_verif"

FORBIDDEN = re.compile(
    r"\b(Admitted|admit|Axiom|Axioms|Parameter|Parameters|Conjecture|Conjectures|Admit Obligations)\b"
    r"|Unset\s+Guard|bypass_check|Unset\s+Positivity|Unset\s+Universe|type-in-type|impredicative-set")


def sh(cmd, timeout=None, cwd=None, env=None, inp=None):
    e = dict(os.environ)
    e.setdefault("CARGO_NET_OFFLINE", "true")
    if env:
        e.update(env)
    try:
        p = subprocess.run(cmd, shell=isinstance(cmd, str), cwd=cwd, env=e, input=inp, timeout=timeout,
                           stdout=subprocess.PIPE, stderr=subprocess.STDOUT, text=True, errors="replace")
        return p.returncode, p.stdout
    except subprocess.TimeoutExpired as ex:
        out = ex.stdout if isinstance(ex.stdout, str) else (ex.stdout or b"").decode("utf-8", "replace")
        return 124, out + "\n[timeout after %ss]" % timeout


# ------------------------------------------------------------------ translator
def regen_extracted():
    """runs the translator; returns (ok, message, values, failed, notes)
    ok False: fatal (a source file unreadable, a failed item without baseline value) -- message says what.
    failed: {item: {"error":..., "file":...}} for the items that could NOT be located and carry their committed
    baseline value in Extracted.v (tools/extract.py exit status 3); the caller decides per property whether such an
    item matters (items_relevant_to).  notes: machinery notes (not violations), e.g. a stale baseline."""
    rc, out = sh([sys.executable, os.path.join(VERIF, "tools", "extract.py"), "--json"], timeout=120)
    if rc not in (0, 3):
        m = re.search(r"EXTRACT-ERROR (\S.*)", out)
        return False, (m.group(1) if m else out.strip()[-300:]), {}, {}, []
    vals = json.loads(out.strip().splitlines()[-1])
    failed = {}
    notes = []
    meta = {}
    try:
        meta = json.load(open(os.path.join(COQ, "gen", "extracted_meta.json")))
    except (OSError, ValueError):
        notes.append("translator: coq/gen/extracted_meta.json is missing or unreadable")
    for k, v in meta.get("located", {}).items():
        if v.get("fallback"):
            failed[k] = {"error": v.get("error", ""), "file": v.get("file")}
    if rc == 3 and not failed:
        for m in re.finditer(r"EXTRACT-PARTIAL translator:(\w+) \[([^\]]*)\]: (.*)", out):
            failed[m.group(1)] = {"error": m.group(3), "file": m.group(2)}
    notes += baseline_notes(meta, vals, failed)
    return True, "", vals, failed, notes


def baseline_notes(meta, vals, failed):
    """Is tools/extracted_baseline.json stale?  Values may legitimately differ from the baseline whenever the tree
    differs from the one the baseline was made from (that is what a changed constant looks like), so only two things
    are reported: item NAMES the baseline does not know (an item was added without --write-baseline: it could not
    fall back), and, when the tree IS the baseline's tree (same HEAD, sources unmodified), any differing value."""
    notes = []
    b = meta.get("baseline")
    if b is None:
        return ["baseline-stale: tools/extracted_baseline.json is missing: no item can fall back"]
    if b.get("items_not_in_baseline"):
        notes.append("baseline-stale: items without a baseline value (run tools/extract.py --write-baseline): "
                     + ", ".join(b["items_not_in_baseline"][:8]))
    made = b.get("made_from") or {}
    try:
        base = json.load(open(os.path.join(VERIF, "tools", "extracted_baseline.json")))["items"]
    except (OSError, ValueError, KeyError):
        return notes + ["baseline-stale: tools/extracted_baseline.json is unreadable"]
    rc1, head = sh(["git", "-C", REPO, "rev-parse", "HEAD"], timeout=20)
    rc2, dirty = sh(["git", "-C", REPO, "status", "--porcelain", "--", "src", "Cargo.lock"], timeout=20)
    if rc1 == 0 and rc2 == 0 and made.get("clean") and head.strip() == made.get("repo_head") and not dirty.strip():
        diff = [k for k in vals if k in base and base[k]["value"] != vals[k] and k not in failed]
        if diff:
            notes.append("baseline-stale: the tree is the one the baseline was made from, yet these values differ: "
                         + ", ".join(sorted(diff)[:8]))
    return notes


_DEPS = None


def coq_deps():
    """{file.v: [files.v it requires directly]} for the development, from coqdep"""
    global _DEPS
    if _DEPS is not None:
        return _DEPS
    files = []
    for root, _, fs in os.walk(COQ):
        if os.path.join("Run", "cases") in root:
            continue
        for f in fs:
            if f.endswith(".v") and not f.startswith("Tmp_show_"):
                files.append(os.path.relpath(os.path.join(root, f), COQ))
    rc, out = sh(["coqdep", "-Q", ".", "Kestrel"] + sorted(files), cwd=COQ, timeout=300)
    deps = {}
    for line in out.splitlines():
        m = re.match(r"(\S+)\.vo\b[^:]*:\s*(.*)", line)
        if not m:
            continue
        src = m.group(1) + ".v"
        ds = [d[:-1] for d in m.group(2).split() if d.endswith(".vo")]
        deps[src] = [d for d in ds if d != src]
    _DEPS = deps
    return deps


def dep_closure(roots):
    """the .v files (relative to coq/) the given files transitively require, the files themselves included"""
    deps = coq_deps()
    seen, todo = set(), [r for r in roots]
    while todo:
        f = todo.pop()
        if f in seen:
            continue
        seen.add(f)
        todo.extend(deps.get(f, []))
    return seen


def items_relevant_to(prop_id, run_modules, names):
    """which of the extracted items `names` can influence property prop_id: those whose identifier x_<name> occurs in a
    .v file of the transitive dependency closure (coqdep) of Props/<prop>.v or of the modules its correspondence cases
    import.  gen/Extracted.v itself (which defines every item) does not count.
    Returns ({name: [files that mention it]}, size of the closure)."""
    roots = [os.path.join("Props", prop_id + ".v")] + list(run_modules)
    clo = sorted(f for f in dep_closure(roots) if f != os.path.join("gen", "Extracted.v"))
    texts = {}
    out = {}
    for n in names:
        pat = re.compile(r"\bx_%s\b" % re.escape(n))
        for f in clo:
            if f not in texts:
                try:
                    texts[f] = open(os.path.join(COQ, f), encoding="utf-8", errors="replace").read()
                except OSError:
                    texts[f] = ""
            if pat.search(texts[f]):
                out.setdefault(n, []).append(f)
    return out, len(clo)


def extracted_meta_summary():
    """how the translator located its items (coq/gen/extracted_meta.json): counts per kind of pattern"""
    p = os.path.join(COQ, "gen", "extracted_meta.json")
    try:
        loc = json.load(open(p)).get("located", {})
    except (OSError, ValueError):
        return {"file": "coq/gen/extracted_meta.json", "error": "missing"}
    kinds = {}
    for v in loc.values():
        k = (v.get("pattern") or "?").split(":", 1)[0]      # an item that fell back to its baseline has pattern None
        kinds[k] = kinds.get(k, 0) + 1
    return {"file": "coq/gen/extracted_meta.json", "items": len(loc), "by_pattern_kind": kinds}


# ------------------------------------------------------------------ Coq
def coq_prepare():
    rc, out = sh([os.path.join(VERIF, "tools", "mkproject.sh")], timeout=120)
    return rc == 0, out


def coq_make(targets, timeout=1500):
    """build .vo targets (paths relative to coq/); returns (ok, log)"""
    ok, out = coq_prepare()
    if not ok:
        return False, out
    rc, out2 = sh(["make", "-j%d" % NPROC] + list(targets), cwd=COQ, timeout=timeout)
    return rc == 0, out2


def forbidden_scan():
    """Admitted/Axiom/... anywhere in the development (comments stripped).  Returns list of hits."""
    hits = []
    for root, _, files in os.walk(COQ):
        if os.path.join("Run", "cases") in root:
            continue
        for f in files:
            if not f.endswith(".v"):
                continue
            p = os.path.join(root, f)
            txt = open(p, encoding="utf-8", errors="replace").read()
            txt = strip_coq_comments(txt)
            for i, line in enumerate(txt.splitlines(), 1):
                if FORBIDDEN.search(line):
                    hits.append("%s:%d: %s" % (os.path.relpath(p, COQ), i, line.strip()[:120]))
            # Variable/Hypothesis outside a section
            depth = 0
            for i, line in enumerate(txt.splitlines(), 1):
                if re.match(r"\s*Section\s+\w+", line):
                    depth += 1
                elif re.match(r"\s*End\s+\w+\s*\.", line) and depth > 0:
                    depth -= 1
                elif depth == 0 and re.match(r"\s*(Variable|Variables|Hypothesis|Hypotheses|Context)\b", line):
                    hits.append("%s:%d: %s (outside a section)" % (os.path.relpath(p, COQ), i, line.strip()[:100]))
    return hits


def strip_coq_comments(t):
    out = []
    depth = 0
    i = 0
    n = len(t)
    instr = False
    while i < n:
        if depth == 0 and t[i] == '"':
            instr = not instr
            out.append(t[i])
            i += 1
        elif not instr and t.startswith("(*", i):
            depth += 1
            i += 2
        elif not instr and depth > 0 and t.startswith("*)", i):
            depth -= 1
            i += 2
        else:
            if depth == 0:
                out.append(t[i])
            elif t[i] == "\n":
                out.append("\n")
            i += 1
    return "".join(out)


def props_report(prop):
    """Compile Props/<prop>.v freshly (its dependencies via make), parse `Print Assumptions` output.
    Returns dict(ok, theorems=[{name, closed, axioms}], log)."""
    vfile = os.path.join("Props", prop + ".v")
    if not os.path.exists(os.path.join(COQ, vfile)):
        return {"ok": False, "theorems": [], "log": "missing " + vfile}
    # the runners used by the correspondence must be rebuilt too when gen/Extracted.v changed under them
    runs = [os.path.join("Run", f + "o") for f in sorted(os.listdir(os.path.join(COQ, "Run"))) if f.endswith(".v")]
    ok, log = coq_make([vfile + "o"] + runs)
    if not ok:
        return {"ok": False, "theorems": [], "log": log}
    # re-run coqc on the property file alone to capture its output (cheap: deps are compiled)
    rc, out = sh(["coqc", "-q", "-Q", ".", "Kestrel", vfile], cwd=COQ, timeout=900)
    if rc != 0:
        return {"ok": False, "theorems": [], "log": out}
    src = strip_coq_comments(open(os.path.join(COQ, vfile)).read())
    names = re.findall(r"^\s*(?:Theorem|Lemma|Example)\s+(\w+)", src, re.M)
    printed = re.findall(r"Print Assumptions\s+(\w+)\s*\.", src)
    # output blocks: either "Closed under the global context" or "Axioms:\n..." per Print Assumptions
    blocks = re.split(r"(?=Closed under the global context|Axioms:)", out)
    blocks = [b for b in blocks if b.startswith("Closed under") or b.startswith("Axioms:")]
    ths = []
    for i, nm in enumerate(printed):
        b = blocks[i] if i < len(blocks) else "MISSING"
        closed = b.startswith("Closed under")
        axioms = [] if closed else re.findall(r"^(\S+)\s*:", b, re.M)[0:50]
        ths.append({"name": nm, "closed": closed, "axioms": [a for a in axioms if a != "Axioms"]})
    missing = [n for n in names if n not in printed]
    return {"ok": True, "theorems": ths, "unprinted": missing, "log": out[-2000:]}


# ------------------------------------------------------------------ Rust harness
def build_harness(profile="dev"):
    """builds libdrv, clidrv (the CLI compiled from the working tree's sources against the in-tree crypto
    crate) and ffidrv with hooks on; returns (ok, log, path of libdrv)"""
    env = {"CARGO_TARGET_DIR": TARGET, "KESTREL_LOCK": os.path.join(REPO, "Cargo.lock")}
    rc, out = sh([os.path.join(VERIF, "harness", "build.sh")], env=env, timeout=1800)
    if rc != 0:
        # stale per-crate lock files: reseed from the repository's and retry once
        for c in ("libdrv", "clidrv", "ffidrv"):
            try:
                os.remove(os.path.join(VERIF, "harness", c, "Cargo.lock"))
            except OSError:
                pass
        rc, out = sh([os.path.join(VERIF, "harness", "build.sh")], env=env, timeout=1800)
    binp = os.path.join(TARGET, "debug", "libdrv")
    return rc == 0 and os.path.exists(binp), out, binp


CLIDRV = os.path.join(TARGET, "debug", "clidrv")
FFI_SO = os.path.join(TARGET, "debug", "libkestrel_ffi_verif.so")


def hexs(b):
    return b.hex() if len(b) else "-"


def unhex(s):
    return b"" if s == "-" else bytes.fromhex(s)


KIND = {"Interrupted": 1, "Other": 2, "UnexpectedEof": 3, "WriteZero": 4}


def outcome_code(s):
    if s == "ok":
        return 0
    if s == "panic":
        return 1
    if not s.startswith("err:"):
        return 999
    e = s[4:]
    table = {"UnexpectedData": None, "Other": 40, "ChunkLen": 50, "ChaPolyDecrypt": 51,
             "OtherFormat": 80, "OtherWrongMode": 81, "OtherNoise:Decrypt": 82, "OtherNoise:Dh": 83,
             "OtherNoise:Other": 84, "Decrypt": 82, "Dh": 83}
    if e.startswith("IORead:"):
        return None, KIND[e[7:]]
    if e.startswith("IOWrite:"):
        return None, KIND[e[8:]]
    return table.get(e, 998)


def parse_result(op, line):
    """driver output line -> dict(id, code, out, consumed, trace, extra, raw)"""
    parts = line.split()
    rid = parts[0]
    kv = {}
    for p in parts[1:]:
        k, _, v = p.partition("=")
        kv[k] = v
    o = kv.get("outcome", "badline")
    enc_side = op in ("enc_chunks", "key_enc", "pass_enc")
    if o == "ok":
        code = 0
    elif o == "panic":
        code = 1
    elif o.startswith("err:"):
        e = o[4:]
        if e.startswith("IORead:"):
            code = (20 if enc_side else 60) + KIND[e[7:]]
        elif e.startswith("IOWrite:"):
            code = (30 if enc_side else 70) + KIND[e[8:]]
        elif e == "UnexpectedData":
            code = 10 if enc_side else 52
        elif e == "Other":
            code = 40 if enc_side else 84
        else:
            code = {"ChunkLen": 50, "ChaPolyDecrypt": 51, "OtherFormat": 80, "OtherWrongMode": 81,
                    "OtherNoise:Decrypt": 82, "OtherNoise:Dh": 83, "OtherNoise:Other": 84,
                    "Decrypt": 82, "Dh": 83}.get(e, 998)
    else:
        code = 999
    tr = []
    t = kv.get("trace", "-")
    if t != "-":
        for ev in t.split(","):
            a, _, b = ev.partition(":")
            if a[0] == "r":
                tr.append((1, int(a[1:]), int(b)))
            elif a[0] == "R":
                tr.append((2, int(a[1:]), KIND[b]))
            elif a[0] == "w":
                tr.append((3, int(a[1:]), int(b)))
            elif a[0] == "W":
                tr.append((4, int(a[1:]), KIND[b]))
            elif a == "f":
                tr.append((5, 0, 0) if b == "ok" else (6, KIND[b], 0))
    extra = b""
    if "hh" in kv:
        extra += unhex(kv["hh"])
    if "sender" in kv:
        extra += unhex(kv["sender"])
    return {"id": rid, "code": code, "outcome": o, "out": unhex(kv.get("out", "-")),
            "consumed": int(kv.get("consumed", "0")), "trace": tr, "extra": extra, "raw": line}


def run_driver(binp, lines, timeout=900):
    """lines: list of 'id op args'.  Returns dict id -> raw result line (missing id => crashed)."""
    res = {}
    pending = list(lines)
    crashes = []
    guard = 0
    while pending and guard < 50:
        guard += 1
        rc, out = sh([binp], inp="\n".join(pending) + "\n", timeout=timeout)
        got = 0
        for l in out.splitlines():
            if not l or " " not in l:
                continue
            rid = l.split()[0]
            res[rid] = l
            got += 1
        if got >= len(pending):
            break
        # the driver died (abort / stack overflow / timeout) on pending[got]
        bad = pending[got]
        rid = bad.split()[0]
        res[rid] = "%s outcome=abort rc=%d" % (rid, rc)
        crashes.append(rid)
        pending = pending[got + 1:]
    return res, crashes


# ------------------------------------------------------------------ Gallina rendering
def g_bytes(b):
    return '(hx "%s")' % b.hex() if len(b) else "[]"


def g_opt(b):
    return "None" if b is None else "(Some %s)" % g_bytes(b)


def g_rscript(s):
    if s == "-":
        return "[]"
    out = []
    for t in s.split(","):
        if t[0] == "c":
            out.append("rcap %s" % t[1:])
        elif t[0] == "z":
            out.append("rcap 0")
        elif t[0] == "i":
            out.append("RFail Interrupted")
        elif t[0] in ("o", "b"):
            out.append("RFail OtherErr")
        elif t[0] == "u":
            out.append("RFail UnexpectedEof")   # the SOURCE itself reports UnexpectedEof
        elif t[0] == "y":
            out.append("RFail WriteZero")
    return "[" + "; ".join(out) + "]"


def g_wscript(s):
    if s == "-":
        return "[]"
    out = []
    for t in s.split(","):
        if t[0] == "c":
            out.append("wcap %s" % t[1:])
        elif t[0] == "z":
            out.append("wcap 0")
        elif t[0] == "i":
            out.append("WFail Interrupted")
        elif t[0] in ("o", "b"):
            out.append("WFail OtherErr")    # WouldBlock is just another non-retried error kind for kestrel
        elif t[0] == "u":
            out.append("WFail UnexpectedEof")
        elif t[0] == "y":
            out.append("WFail WriteZero")       # the SINK itself reports WriteZero
    return "[" + "; ".join(out) + "]"


def g_fscript(s):
    if s == "-":
        return "[]"
    out = []
    for t in s.split(","):
        out.append({"k": "FOk", "i": "FFail Interrupted", "o": "FFail OtherErr", "b": "FFail OtherErr",
                    "u": "FFail UnexpectedEof", "y": "FFail WriteZero"}[t[0]])
    return "[" + "; ".join(out) + "]"


def g_obs(r):
    tr = "[" + "; ".join("(%d, %d, %d)" % t for t in r["trace"]) + "]"
    return "(O_ %d %s %d %s %s)" % (r["code"], g_bytes(r["out"]), r["consumed"], tr, g_bytes(r["extra"]))


class Case:
    """one correspondence case: op + args (bytes / str / int / None)"""

    def __init__(self, op, **a):
        self.op = op
        self.a = a
        self.id = None
        self.tags = a.pop("tags", [])
        self.expect_fn = a.pop("oracle", None)   # callable(result) -> None | str
        self.result = None
        self.agree = None

    def rust_line(self):
        a = self.a
        io = lambda: "%s %s %s %s" % (hexs(a["data"]), a.get("rs", "-"), a.get("ws", "-"), a.get("fs", "-"))
        o = lambda b: "none" if b is None else hexs(b)
        op = self.op
        if op in ("enc_chunks", "dec_chunks"):
            body = "%s %s %d %s" % (hexs(a["key"]), hexs(a["aad"]), a["cs"], io())
        elif op == "key_enc":
            body = "%s %s %s %s %s %s %s" % (hexs(a["s"]), hexs(a["spk"]), hexs(a["r"]), o(a.get("e")),
                                              o(a.get("epk")), o(a.get("pk")), io())
        elif op == "key_dec":
            body = "%s %s %s" % (hexs(a["r"]), hexs(a["rpk"]), io())
        elif op == "pass_enc":
            body = "%s %s %s" % (hexs(a["pw"]), hexs(a["salt"]), io())
        elif op == "pass_dec":
            body = "%s %s" % (hexs(a["pw"]), io())
        elif op in ("seal", "open"):
            body = "%s %s %s %s" % (hexs(a["key"]), hexs(a["nonce"]), hexs(a["ad"]), hexs(a["x"]))
        elif op in ("nseal", "nopen"):
            body = "%s %d %s %s" % (hexs(a["key"]), a["n"], hexs(a["ad"]), hexs(a["x"]))
        elif op == "sha256":
            body = hexs(a["m"])
        elif op == "hmac":
            body = "%s %s" % (hexs(a["k"]), hexs(a["m"]))
        elif op == "hkdf":
            body = "%s %s %s %d" % (hexs(a["salt"]), hexs(a["ikm"]), hexs(a["info"]), a["n"])
        elif op == "hkdfn":
            body = "%s %s" % (hexs(a["ck"]), hexs(a["ikm"]))
        elif op == "x25519":
            body = "%s %s" % (hexs(a["k"]), hexs(a["u"]))
        elif op == "xpub":
            body = hexs(a["k"])
        elif op == "scrypt":
            body = "%s %s %d %d %d %d" % (hexs(a["pw"]), hexs(a["salt"]), a["n"], a["r"], a["p"], a["l"])
        elif op == "noise_enc":
            body = "%s %s %s %s %s %s %s" % (hexs(a["s"]), hexs(a["spk"]), hexs(a["r"]), o(a.get("e")),
                                              o(a.get("epk")), hexs(a["prologue"]), hexs(a["payload"]))
        elif op == "noise_dec":
            body = "%s %s %s %s" % (hexs(a["r"]), hexs(a["rpk"]), hexs(a["prologue"]), hexs(a["msg"]))
        else:
            raise ValueError(op)
        return "%s %s %s" % (self.id, op, body)

    def model_term(self):
        a = self.a
        io = lambda: "%s %s %s %s" % (g_bytes(a["data"]), g_rscript(a.get("rs", "-")),
                                      g_wscript(a.get("ws", "-")), g_fscript(a.get("fs", "-")))
        op = self.op
        if op in ("enc_chunks", "dec_chunks"):
            return "run_%s T %s %s %d %s" % (op, g_bytes(a["key"]), g_bytes(a["aad"]), a["cs"], io())
        if op == "key_enc":
            return "run_key_enc T %s %s %s %s %s %s %s" % (g_bytes(a["s"]), g_bytes(a["spk"]), g_bytes(a["r"]),
                                                          g_opt(a.get("e")), g_opt(a.get("epk")), g_opt(a.get("pk")), io())
        if op == "key_dec":
            return "run_key_dec T %s %s %s" % (g_bytes(a["r"]), g_bytes(a["rpk"]), io())
        if op == "pass_enc":
            return "run_pass_enc T %s %s %s" % (g_bytes(a["pw"]), g_bytes(a["salt"]), io())
        if op == "pass_dec":
            return "run_pass_dec T %s %s" % (g_bytes(a["pw"]), io())
        if op in ("seal", "open"):
            return "run_%s %s %s %s %s" % (op, g_bytes(a["key"]), g_bytes(a["nonce"]), g_bytes(a["ad"]), g_bytes(a["x"]))
        if op in ("nseal", "nopen"):
            return "run_%s %s %d %s %s" % (op, g_bytes(a["key"]), a["n"], g_bytes(a["ad"]), g_bytes(a["x"]))
        if op == "sha256":
            return "run_sha256 %s" % g_bytes(a["m"])
        if op == "hmac":
            return "run_hmac %s %s" % (g_bytes(a["k"]), g_bytes(a["m"]))
        if op == "hkdf":
            return "run_hkdf %s %s %s %d" % (g_bytes(a["salt"]), g_bytes(a["ikm"]), g_bytes(a["info"]), a["n"])
        if op == "hkdfn":
            return "run_hkdfn %s %s" % (g_bytes(a["ck"]), g_bytes(a["ikm"]))
        if op == "x25519":
            return "run_x25519 %s %s" % (g_bytes(a["k"]), g_bytes(a["u"]))
        if op == "xpub":
            return "run_xpub %s" % g_bytes(a["k"])
        if op == "scrypt":
            return "run_scrypt %s %s %d %d %d %d" % (g_bytes(a["pw"]), g_bytes(a["salt"]), a["n"], a["r"], a["p"], a["l"])
        if op == "noise_enc":
            return "run_noise_enc %s %s %s %s %s %s %s" % (g_bytes(a["s"]), g_bytes(a["spk"]), g_bytes(a["r"]),
                                                          g_opt(a.get("e")), g_opt(a.get("epk")),
                                                          g_bytes(a["prologue"]), g_bytes(a["payload"]))
        if op == "noise_dec":
            return "run_noise_dec %s %s %s %s" % (g_bytes(a["r"]), g_bytes(a["rpk"]), g_bytes(a["prologue"]), g_bytes(a["msg"]))
        raise ValueError(op)

    def kdf_need(self):
        """(pw, salt) pairs whose production-parameter scrypt value the model needs"""
        a = self.a
        if self.op == "pass_enc":
            return [(a["pw"], a["salt"])]
        if self.op == "pass_dec" and len(a["data"]) >= 36:
            return [(a["pw"], a["data"][4:36])]
        return []

    def summary(self):
        d = {"op": self.op}
        for k, v in self.a.items():
            if isinstance(v, (bytes, bytearray)):
                d[k] = v.hex() if len(v) <= 48 else "%s..(%d bytes)" % (v[:16].hex(), len(v))
            else:
                d[k] = v
        if self.tags:
            d["tags"] = self.tags
        return d

    def full(self):
        d = {"op": self.op}
        for k, v in self.a.items():
            d[k] = v.hex() if isinstance(v, (bytes, bytearray)) else v
        return d


def run_impl(binp, cases, timeout=1200):
    for i, c in enumerate(cases):
        c.id = str(i + 1)
    res, crashes = run_driver(binp, [c.rust_line() for c in cases], timeout=timeout)
    for c in cases:
        line = res.get(c.id, "%s outcome=missing" % c.id)
        c.result = parse_result(c.op, line)
    return crashes



def private_special(d, kind):
    """a special file of the given kind created INSIDE the scratch directory d — never the machine's own /dev entry, so that
    a program under test which unlinks, renames or replaces its -o path (seeded changes have done that) cannot damage /dev
    for every later run.  kind: 'null' | 'full' (character devices 1:3 / 1:7 made with mknod), 'stdout' | 'stdin'
    (symbolic links to /proc/self/fd/1 | 0, what /dev/stdout and /dev/stdin are).  Returns the path, or None when the node
    cannot be made or does not behave as the device here (not root, nodev mount)."""
    import stat, errno
    path = os.path.join(d, "special_" + kind)
    try:
        if os.path.lexists(path):
            os.unlink(path)
        if kind in ("stdout", "stdin"):
            os.symlink("/proc/self/fd/%d" % (1 if kind == "stdout" else 0), path)
            return path
        os.mknod(path, 0o666 | stat.S_IFCHR, os.makedev(1, 3 if kind == "null" else 7))
        os.chmod(path, 0o666)
        try:
            fd = os.open(path, os.O_WRONLY)
        except OSError:
            os.unlink(path)
            return None
        try:
            os.write(fd, b"x")
            ok = kind == "null"
        except OSError as e:
            ok = kind == "full" and e.errno == errno.ENOSPC
        finally:
            os.close(fd)
        if not ok:
            os.unlink(path)
            return None
        return path
    except OSError:
        return None


def dev_guard():
    """/dev/null, /dev/full and /dev/stdout as every tool here needs them; a damaged entry (a regular file left by a program
    under test run as root) is put back when possible.  Returns a list of notes (empty when all is well)."""
    import stat
    notes = []
    for path, minor in (("/dev/null", 3), ("/dev/full", 7)):
        try:
            st = os.lstat(path)
            good = stat.S_ISCHR(st.st_mode) and os.major(st.st_rdev) == 1 and os.minor(st.st_rdev) == minor
        except OSError:
            good = False
        if not good:
            try:
                if os.path.lexists(path):
                    os.unlink(path)
                os.mknod(path, 0o666 | stat.S_IFCHR, os.makedev(1, minor))
                os.chmod(path, 0o666)
                notes.append("%s was not the character device 1:%d and has been recreated" % (path, minor))
            except OSError as e:
                notes.append("%s is not the character device 1:%d and could not be recreated (%s)" % (path, minor, e))
    try:
        if not os.path.islink("/dev/stdout"):
            if os.path.lexists("/dev/stdout"):
                os.unlink("/dev/stdout")
            os.symlink("/proc/self/fd/1", "/dev/stdout")
            notes.append("/dev/stdout was not a symbolic link and has been recreated")
    except OSError as e:
        notes.append("/dev/stdout is not a symbolic link and could not be recreated (%s)" % e)
    return notes


def kdf_table(binp, cases):
    need = []
    seen = set()
    for c in cases:
        for pw, salt in c.kdf_need():
            if (pw, salt) not in seen:
                seen.add((pw, salt))
                need.append((pw, salt))
    if not need:
        return []
    # the values come from the RFC 7914 reference (OpenSSL through hashlib; C18 validates it on the RFC vectors and against
    # Gallina) rather than from the implementation under test: a change of the key derivation applied to BOTH directions
    # then shows as a model-vs-implementation difference.  Fallback: the implementation's own scrypt.
    try:
        import hashlib
        from concurrent.futures import ThreadPoolExecutor as _TPE
        with _TPE(max_workers=max(1, min(8, NPROC))) as ex:
            keys = list(ex.map(lambda ps: hashlib.scrypt(ps[0], salt=ps[1], n=32768, r=8, p=1, dklen=32, maxmem=1 << 27), need))
        return [(pw, salt, k) for (pw, salt), k in zip(need, keys)]
    except Exception:
        pass
    lines = ["%d scrypt %s %s 32768 8 1 32" % (i, hexs(pw), hexs(salt)) for i, (pw, salt) in enumerate(need)]
    res, _ = run_driver(binp, lines)
    tab = []
    for i, (pw, salt) in enumerate(need):
        r = parse_result("scrypt", res.get(str(i), "%d outcome=missing" % i))
        if r["code"] == 0:
            tab.append((pw, salt, r["out"]))
    return tab


MODEL_HEADER = """From Kestrel Require Import Bytes Outcome IO Prims.
From Kestrel.Run Require Import RunLib%s.
From Coq Require Import String.
Local Open Scope string_scope.
Local Open Scope N_scope.
Set Printing Width 1000000.
Set Printing Depth 1000000.
"""


NPROC_RETRY = [4]


def run_model(cases, table, tag, extra_import="", per_shard=None, timeout=1500, show=False, prelude="", _retry=True):
    """evaluates each case's model term against the implementation's observation inside Coq.
    Sets c.agree (True/False/None=model evaluation failed).  Returns log of failures."""
    os.makedirs(CASEDIR, exist_ok=True)
    for f in os.listdir(CASEDIR):
        if f.startswith(tag + "_"):
            os.remove(os.path.join(CASEDIR, f))
    todo = [c for c in cases if c.result is not None]
    if not todo:
        return ""
    nsh = min(NPROC, max(1, len(todo))) if per_shard is None else max(1, (len(todo) + per_shard - 1) // per_shard)
    # balance by input size
    todo_sorted = sorted(todo, key=lambda c: -sum(len(v) for v in c.a.values() if isinstance(v, (bytes, bytearray))))
    shards = [[] for _ in range(nsh)]
    for i, c in enumerate(todo_sorted):
        shards[i % nsh].append(c)
    T = "[" + "; ".join("(%s, %s, %s)" % (g_bytes(p), g_bytes(s), g_bytes(k)) for p, s, k in table) + "]"
    files = []
    for si, sh_cases in enumerate(shards):
        if not sh_cases:
            continue
        name = "%s_%d" % (tag, si)
        path = os.path.join(CASEDIR, name + ".v")
        with open(path, "w") as f:
            f.write(MODEL_HEADER % extra_import)
            f.write("Definition T : kdf_table := %s.\n" % T)
            f.write(prelude)
            for c in sh_cases:
                if show:
                    f.write("Definition c%s := (%s, show (%s)).\n" % (c.id, c.id, c.model_term()))
                else:
                    f.write("Definition c%s := chk %s (%s) %s.\n" % (c.id, c.id, c.model_term(), g_obs(c.result)))
            for c in sh_cases:
                f.write("Eval vm_compute in c%s.\n" % c.id)
        files.append((name, path, sh_cases))

    def one(item):
        name, path, sh_cases = item
        rc, out = sh("ulimit -s unlimited 2>/dev/null; coqc -q -noglob -Q . Kestrel Run/cases/%s.v" % name,
                     cwd=COQ, timeout=timeout)
        return name, rc, out, sh_cases

    logs = []
    shown = {}
    with ThreadPoolExecutor(max_workers=NPROC) as ex:
        for name, rc, out, sh_cases in ex.map(one, files):
            if show:
                for m in re.finditer(r"=\s*\((\d+),\s*(.*?)\)\s*\n\s*:", out, re.S):
                    shown[m.group(1)] = re.sub(r"\s+", " ", m.group(2))
            found = dict((m.group(1), m.group(2) == "true") for m in re.finditer(r"=\s*\((\d+),\s*(true|false)\)", out))
            for c in sh_cases:
                if not show:
                    c.agree = found.get(c.id)
            if rc != 0:
                logs.append("%s: rc=%d %s" % (name, rc, out[-800:]))
    # a shard that died (out of memory, timeout) leaves its cases undecided: evaluate those again one case per
    # coqc, a few at a time, before anything is concluded from them
    if not show and _retry:
        undecided = [c for c in todo if c.agree is None]
        if undecided and len(undecided) < len(todo) + 1:
            saved = NPROC_RETRY[0]
            sub_logs = []
            for i in range(0, len(undecided), saved):
                batch = undecided[i:i + saved]
                sub_logs.append(run_model(batch, table, tag + "r", extra_import=extra_import, per_shard=1, timeout=timeout,
                                          show=False, prelude=prelude, _retry=False))
            logs = [l for l in logs if False] + [l for l in sub_logs if l]
    # clean compiled case files
    for f in os.listdir(CASEDIR):
        if f.startswith(tag + "_") or f.startswith("." + tag + "_"):
            try:
                os.remove(os.path.join(CASEDIR, f))
            except OSError:
                pass
    if show:
        return shown
    return "\n".join(logs)


# ------------------------------------------------------------------ reporting
def write_json(path, obj):
    os.makedirs(os.path.dirname(path), exist_ok=True)
    tmp = path + ".tmp"
    with open(tmp, "w") as f:
        json.dump(obj, f, indent=1, sort_keys=True)
    os.replace(tmp, path)


def replay_path(prop, payload):
    h = hashlib.sha256(json.dumps(payload, sort_keys=True).encode()).hexdigest()[:12]
    return os.path.join(VERIF, "replays", "%s-%s.json" % (prop, h))


def known_findings():
    p = os.path.join(VERIF, "KNOWN_FINDINGS.txt")
    known, fixed = [], []
    if os.path.exists(p):
        for l in open(p):
            l = l.strip()
            if l.startswith("known:"):
                known.append(l[6:].strip())
            elif l.startswith("fixed:"):
                fixed.append(l[6:].strip())
    return known, fixed
