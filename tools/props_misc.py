"""props_misc — checks of C07 (fresh randomness), C08 (no identities / size formula), C11 (streaming),
C18 (scrypt = RFC 7914, library and C ABI) and C20 (key containers erase their bytes when dropped).

These properties need driver ops and model runners that tools/vlib.py's `Case` does not know (random-stream
histories in ONE driver process, real CLI processes, the FFI caller, allocator observations), so every class
here overrides `explore` and does its own bookkeeping in `ctx` in the same format `check` expects:
  ctx.violations     direct-oracle failures with the exact input (driver lines / argv / request)
  ctx.disagreements  model-vs-implementation differences (+ a `correspondence` entry in ctx.broken)
  ctx.distribution   per-generator counts, ctx.evaluations / agreed / oracle_checks / distinct_nontrivial
Model runners: coq/Run/RunMisc.v; runners that depend on files which may be absent (Model/Monitors.v,
Spec/Scrypt.v + Model/ScryptImpl.v) are emitted into the generated case files only when those files exist.
"""
import base64, collections, errno, fcntl, hashlib, itertools, json, os, re, shutil, subprocess, sys, tempfile, threading, time
from concurrent.futures import ThreadPoolExecutor

import vlib
import props
from vlib import Case, hexs, unhex, g_bytes, g_opt, g_rscript, g_obs
from props import Prop, keypairs, all_partitions, script_of, records

BIG = 65536
PROLOGUE = bytes([0x65, 0x67, 0x6b, 0x10])
PASS_MAGIC = bytes([0x65, 0x67, 0x6b, 0x20])
KEY_VERSION = bytes([0x65, 0x67, 0x6b, 0x30])
MAX_VIOLATIONS = 25      # replay files written per run; further failing inputs are only counted


# =========================================================================== plumbing
def parse_kv(line):
    parts = line.split()
    kv = {"raw": line}
    for p in parts[1:]:
        k, _, v = p.partition("=")
        kv[k] = v
    kv.setdefault("outcome", "badline")
    return kv


def drv(binp, bodies, timeout=1800):
    """runs `bodies` (driver lines without ids) IN ORDER in one driver process; returns the replies as dicts.
    (vlib.run_driver restarts the driver after a crash: process state such as the random stream is lost then;
    the crashed line is reported as outcome=abort.)"""
    lines = ["%d %s" % (i + 1, b) for i, b in enumerate(bodies)]
    res, _ = vlib.run_driver(binp, lines, timeout=timeout)
    return [parse_kv(res.get(str(i + 1), "%d outcome=missing" % (i + 1))) for i in range(len(lines))]


COQ_HEADER = """From Kestrel Require Import Bytes Outcome IO Prims.
From Kestrel.Run Require Import RunLib RunMisc.
From Coq Require Import String.
Local Open Scope string_scope.
Local Open Scope N_scope.
Set Printing Width 1000000.
Set Printing Depth 1000000.
"""


def coq_eval(tag, items, preamble="", timeout=1500, show=False):
    """items: list of (id, Gallina term[, weight]).  show=False: the term is a bool, result dict id -> True/False/None
    (None = evaluation failed).  show=True: result dict id -> printed value.  Returns (dict, log)."""
    os.makedirs(vlib.CASEDIR, exist_ok=True)
    for f in os.listdir(vlib.CASEDIR):
        if f.startswith(tag + "_") or f.startswith("." + tag + "_"):
            os.remove(os.path.join(vlib.CASEDIR, f))
    if not items:
        return {}, ""
    items = [(str(it[0]), it[1], (it[2] if len(it) > 2 else len(it[1]))) for it in items]
    nsh = min(vlib.NPROC, len(items))
    shards = [[] for _ in range(nsh)]
    load = [0] * nsh
    for it in sorted(items, key=lambda x: -x[2]):
        k = load.index(min(load))
        shards[k].append(it)
        load[k] += it[2]
    files = []
    for si, sh_items in enumerate(shards):
        if not sh_items:
            continue
        name = "%s_%d" % (tag, si)
        with open(os.path.join(vlib.CASEDIR, name + ".v"), "w") as f:
            f.write(COQ_HEADER)
            f.write(preamble)
            for iid, term, _ in sh_items:
                f.write("Definition c%s := (%s, %s).\n" % (iid, iid, term))
            for iid, term, _ in sh_items:
                f.write("Eval vm_compute in c%s.\n" % iid)
        files.append(name)

    def one(name):
        rc, out = vlib.sh("ulimit -s unlimited 2>/dev/null; coqc -q -noglob -Q . Kestrel Run/cases/%s.v" % name,
                          cwd=vlib.COQ, timeout=timeout)
        return name, rc, out

    found, logs = {}, []
    with ThreadPoolExecutor(max_workers=vlib.NPROC) as ex:
        for name, rc, out in ex.map(one, files):
            if show:
                for m in re.finditer(r"=\s*\((\d+),\s*(.*?)\)\s*\n\s*:", out, re.S):
                    found[m.group(1)] = re.sub(r"\s+", " ", m.group(2))[:1500]
            else:
                for m in re.finditer(r"=\s*\((\d+),\s*(true|false)\)", out):
                    found[m.group(1)] = m.group(2) == "true"
            if rc != 0:
                logs.append("%s: rc=%d %s" % (name, rc, out[-600:]))
    for f in os.listdir(vlib.CASEDIR):
        if f.startswith(tag + "_") or f.startswith("." + tag + "_"):
            try:
                os.remove(os.path.join(vlib.CASEDIR, f))
            except OSError:
                pass
    return dict((it[0], found.get(it[0])) for it in items), "\n".join(logs)


def coq_has(*rel):
    return all(os.path.exists(os.path.join(vlib.COQ, r)) for r in rel)


def release_libdrv():
    """builds harness/libdrv in the release profile (same target dir); returns (ok, path, log)"""
    env = {"CARGO_TARGET_DIR": vlib.TARGET, "CARGO_NET_OFFLINE": "true", "RUSTFLAGS": "--cfg kestrel_verif"}
    rc, out = vlib.sh(["cargo", "build", "--offline", "--release"], cwd=os.path.join(vlib.VERIF, "harness", "libdrv"),
                      env=env, timeout=1800)
    p = os.path.join(vlib.TARGET, "release", "libdrv")
    return rc == 0 and os.path.exists(p), p, out


def cli_env(extra=None):
    e = dict(os.environ)
    for k in ("KESTREL_VERIF_RANDOM", "KESTREL_VERIF_DRIVER", "KESTREL_KEYRING", "KESTREL_PASSWORD", "KESTREL_NEW_PASSWORD"):
        e.pop(k, None)
    e["RUST_BACKTRACE"] = "0"
    if extra:
        e.update(extra)
    return e


def cli(args, env=None, stdin=None, timeout=120):
    """one real CLI process: no controlling terminal, stdin redirected.  Returns (rc, stdout bytes, stderr text)"""
    try:
        p = subprocess.run([vlib.CLIDRV] + list(args), env=cli_env(env), input=(stdin if stdin is not None else b""),
                           stdout=subprocess.PIPE, stderr=subprocess.PIPE, start_new_session=True, timeout=timeout)
        return p.returncode, p.stdout, p.stderr.decode("utf-8", "replace")
    except subprocess.TimeoutExpired:
        return 124, b"", "timeout"


def cli_many(jobs):
    """jobs: list of dict(args, env, stdin); runs them on NPROC threads; returns results in order"""
    with ThreadPoolExecutor(max_workers=vlib.NPROC) as ex:
        return list(ex.map(lambda j: cli(j["args"], j.get("env"), j.get("stdin")), jobs))


def clidrv_ops(bodies):
    """line-protocol driver inside clidrv (keyring helpers)"""
    lines = ["%d %s" % (i + 1, b) for i, b in enumerate(bodies)]
    rc, out = vlib.sh([vlib.CLIDRV], inp="\n".join(lines) + "\n", env={"KESTREL_VERIF_DRIVER": "1"}, timeout=600)
    res = {}
    for l in out.splitlines():
        if " " in l:
            res[l.split()[0]] = l
    return [parse_kv(res.get(str(i + 1), "%d outcome=missing" % (i + 1))) for i in range(len(lines))]


def b64(b):
    return base64.b64encode(b).decode()


def encode_pk(pk):
    """keyring text form of a public key: base64(pk || sha256(pk)[:4]) — 48 characters"""
    return b64(pk + hashlib.sha256(pk).digest()[:4])


def make_keyring(entries):
    """entries: list of (name, sk, pk, password, salt).  Locks the keys with the CLI's own sk_lock and returns
    (keyring text, {name: locked private key string})"""
    outs = clidrv_ops(["sk_lock %s %s %s" % (hexs(sk), hexs(pw), hexs(salt)) for (_, sk, _, pw, salt) in entries])
    text, locked = "", {}
    for (name, sk, pk, pw, salt), o in zip(entries, outs):
        if o["outcome"] != "ok":
            raise RuntimeError("sk_lock failed: " + o["raw"][:200])
        lk = unhex(o["out"]).decode()
        locked[name] = lk
        text += "[Key]\nName = %s\nPublicKey = %s\nPrivateKey = %s\n\n" % (name, encode_pk(pk), lk)
    return text, locked


def sim_reads(n, caps, bufsize=BIG):
    """sizes of the successive non-empty reads of an n-byte source under a cap script (then uncapped)"""
    out, rem, i = [], n, 0
    while rem > 0:
        cap = caps[i] if i < len(caps) else bufsize
        i += 1
        k = min(cap, bufsize, rem)
        if k == 0:
            break
        out.append(k)
        rem -= k
    return out


class MiscProp(Prop):
    """base: bookkeeping helpers; subclasses implement run(ctx)"""

    def explore(self, ctx):
        self.run(ctx)
        ctx.search_note = "direct oracle evaluated on every run case (%d oracle checks)" % ctx.oracle_checks

    def run(self, ctx):
        raise NotImplementedError

    def run_cases(self, ctx, cases, model=True):
        super().run_cases(ctx, cases, model=model)
        if len(ctx.violations) > MAX_VIOLATIONS:
            self.count(ctx, "further-violations-not-written-as-replays", len(ctx.violations) - MAX_VIOLATIONS)
            del ctx.violations[MAX_VIOLATIONS:]

    # ---- bookkeeping
    def count(self, ctx, key, n=1):
        ctx.distribution[key] = ctx.distribution.get(key, 0) + n

    def ran(self, ctx, gen, n=1, nontrivial=True):
        ctx.evaluations += n
        if nontrivial:
            ctx.distinct_nontrivial += n
        self.count(ctx, "gen:" + gen, n)

    def sample(self, ctx, d):
        if len(ctx.samples) < 8:
            ctx.samples.append(d)

    def check(self, ctx, ok, inp, expected, observed, key=None):
        """one direct-oracle evaluation"""
        ctx.oracle_checks += 1
        if not ok:
            if len(ctx.violations) < MAX_VIOLATIONS:
                ctx.violations.append({"input": inp, "expected": expected, "observed": str(observed)[:1500], "finding_key": key})
            else:
                self.count(ctx, "further-violations-not-written-as-replays")
        return ok

    def machinery(self, ctx, what):
        ctx.broken.append({"kind": "machinery", "what": what})

    def model_results(self, ctx, gen, items, res, log, inputs, impl_text, shows=None, preamble=""):
        """items: [(id, term)], res: id->bool/None; records agreement / disagreements"""
        bad = [it for it in items if res.get(str(it[0])) is not True]
        ctx.agreed += len(items) - len(bad)
        self.count(ctx, "model:" + gen, len(items))
        if bad:
            shown = {}
            if shows:
                sh_items = [(it[0], shows[it[0]]) for it in bad[:4] if it[0] in shows]
                shown, _ = coq_eval(ctx.pid + "s", sh_items, preamble=preamble, show=True)
            for it in bad[:20]:
                ctx.disagreements.append({"input": inputs.get(it[0]), "implementation": str(impl_text.get(it[0]))[:800],
                                          "model": shown.get(str(it[0]), "model evaluation failed" if res.get(str(it[0])) is None else "differs")})
            ctx.broken.append({"kind": "correspondence",
                               "what": "correspondence %s/%s: model and implementation differ on %d of %d cases%s"
                                       % (ctx.pid, gen, len(bad), len(items), (" [" + log[-300:] + "]") if log else "")})

    # ---- replay: re-run the recorded driver lines / CLI argv and show what comes back
    def replay(self, ctx, payload):
        inp = payload.get("input", {})
        out = {"holds": None, "expected": payload.get("expected")}
        if isinstance(inp, dict) and inp.get("lines"):
            binp = ctx.bin
            if inp.get("profile") == "release":
                ok, binp, _ = release_libdrv()
            rs = drv(binp, inp["lines"])
            out["implementation"] = [r["raw"][:600] for r in rs]
            fn = getattr(self, "recheck_" + str(inp.get("oracle")), None)
            if fn:
                out["holds"] = bool(fn(inp, rs))
        elif isinstance(inp, dict) and inp.get("ffi"):
            q = dict(inp["ffi"])
            rep = ffi_call([q])
            out["implementation"] = rep
            want = ref_scrypt(bytes.fromhex(q["pw"]), bytes.fromhex(q["salt"]), q["n"], q["r"], q["p"], q["dklen"]).hex()
            out["holds"] = rep[0].get("out") == want and rep[0].get("guard_ok") is True and rep[0].get("rest_ok", True) is True
        elif isinstance(inp, dict) and inp.get("op"):
            return super().replay(ctx, payload)
        else:
            out["note"] = "input is not a plain driver script; see 'input' for the argv / environment to re-run"
        return out


def ffi_call(reqs, timeout=1800):
    """harness/ffidrv/call.py over the cdylib; returns list of reply dicts in request order"""
    for i, r in enumerate(reqs):
        r["id"] = i
    inp = "\n".join(json.dumps(r) for r in reqs) + "\n"
    rc, out = vlib.sh([sys.executable, os.path.join(vlib.VERIF, "harness", "ffidrv", "call.py"), vlib.FFI_SO],
                      inp=inp, timeout=timeout)
    got = {}
    for l in out.splitlines():
        l = l.strip()
        if l.startswith("{"):
            try:
                d = json.loads(l)
                got[d.get("id")] = d
            except ValueError:
                pass
    return [got.get(i, {"id": i, "error": "no reply (rc=%d) %s" % (rc, out[-200:])}) for i in range(len(reqs))]


def register(reg):
    """called by tools/props.py: adds the classes of this module to props.REGISTRY"""
    for name in ("C07", "C08", "C11", "C18", "C20"):
        cls = globals().get(name)
        if cls is not None:
            reg[cls.id] = cls()


# =========================================================================== C07
def obs_of(op, kv):
    return vlib.parse_result(op, kv["raw"])


class C07(MiscProp):
    id = "C07"
    rule = ("(a) stream histories: 1..6 operations (key_enc with none/partly injected ephemeral and payload key, noise_enc "
            "without ephemeral) on ONE installed random stream in one driver process; the implementation's bytes and the "
            "bytes left in the stream after every operation are compared with RunMisc.run_hist given the same stream "
            "(order and number of draws), and directly: ephemeral public key = X25519 base point times the stream block, "
            "payload key recovered by the recipient = the stream block, 64/32/0 bytes consumed; the real CLI with "
            "KESTREL_VERIF_RANDOM must produce exactly what the library produces with the stream blocks injected. "
            "(b) production randomness (statistical observation): every operation repeated with IDENTICAL inputs "
            "(library: 260, thorough 2000 times per operation, all in ONE driver process, i.e. > 1500 consecutive draws from one "
            "generator state; real CLI: 20, thorough 200 processes per command): ephemeral keys, payload keys, salts, generated "
            "public keys pairwise distinct, library and real CLI (encrypt, password encrypt, key generate, key change-pass). (c) nonce sequence: every "
            "record i of files with m chunks (chunk hooks, key files, password files) opens under counter i and under no "
            "other counter in 0..m+1 (also i+256, i+2^32). non-trivial = every case; distinct = distinct driver lines / runs")
    assumptions = ["hook-idle runs are a statistical observation of getrandom-backed output (distinctness of 32-byte values), not a proof of entropy",
                   "the random-stream hook replaces only the body of secure_random(); with the hook idle the code path is the production one",
                   "payload keys of library/CLI outputs are recovered with the implementation's own noise_decrypt"]
    trusted_extra = ["harness/clidrv (CLI compiled from the working tree) and its KESTREL_VERIF_RANDOM stream"]

    def run(self, ctx):
        self.parties = keypairs(ctx, 4)
        self.stream_histories(ctx)
        self.nonce_sequence(ctx)
        self.idle_library(ctx)
        self.cli_checks(ctx)

    # ---------------------------------------------------------------- (a)
    def gen_op(self, ctx):
        rng = ctx.rng
        (s, spk), (r, rpk) = rng.sample(self.parties, 2)
        k = rng.random()
        op = {"s": s, "spk": spk, "r": r, "rpk": rpk, "e": None, "epk": None, "pk": None}
        if k < 0.18:
            op["kind"] = "noise_enc"
            op["prologue"] = rng.choice([PROLOGUE, b"", b"xyz"])
            op["payload"] = ctx.rbytes(32)
        else:
            op["kind"] = "key_enc"
            op["data"] = ctx.rbytes(rng.choice([0, 1, 5, 17, 40]))
            n = len(op["data"])
            op["rs"] = script_of(rng.choice(all_partitions(n, 3))) if 0 < n <= 5 and rng.random() < 0.5 else "-"
            if 0.18 <= k < 0.30:
                op["pk"] = ctx.rbytes(32)
        if rng.random() < 0.22:
            op["e"] = ctx.rbytes(32)
            if rng.random() < 0.7:
                op["epk"] = "derive"
        return op

    def stream_histories(self, ctx):
        rng = ctx.rng
        reps = 8 if ctx.thorough() else 2
        hists = []
        for n in range(1, 7):
            for _ in range(reps):
                hists.append([self.gen_op(ctx) for _ in range(n)])
        # injected ephemeral public keys must match the private key: derive them first
        need = [o for h in hists for o in h if o["epk"] == "derive"]
        for o, x in zip(need, drv(ctx.bin, ["xpub %s" % hexs(o["e"]) for o in need])):
            o["epk"] = unhex(x["out"])
        o_ = lambda b: "none" if b is None else hexs(b)
        bodies, index = [], []
        for hi, h in enumerate(hists):
            needs = []
            for o in h:
                d_pk = o["kind"] == "key_enc" and o["pk"] is None
                d_e = not (o["e"] is not None and o["epk"] is not None)
                needs.append((32 if d_pk else 0) + (32 if d_e else 0))
                o["draw_pk"], o["draw_e"] = d_pk, d_e
            stream = ctx.rbytes(sum(needs) + rng.choice([0, 0, 1, 31, 32, 45]))
            for o in h:
                o["stream"] = stream
            bodies.append("setrand %s" % (hexs(stream) if stream else "empty"))
            index.append(("set", hi, None))
            for oi, o in enumerate(h):
                if o["kind"] == "key_enc":
                    bodies.append("key_enc %s %s %s %s %s %s %s %s - -" % (hexs(o["s"]), hexs(o["spk"]), hexs(o["rpk"]), o_(o["e"]),
                                                                        o_(o["epk"]), o_(o["pk"]), hexs(o["data"]), o["rs"]))
                else:
                    bodies.append("noise_enc %s %s %s %s %s %s %s" % (hexs(o["s"]), hexs(o["spk"]), hexs(o["rpk"]), o_(o["e"]),
                                                                   o_(o["epk"]), hexs(o["prologue"]), hexs(o["payload"])))
                index.append(("op", hi, oi))
                bodies.append("randleft")
                index.append(("left", hi, oi))
        bodies.append("setrand none")
        index.append(("end", None, None))
        res = drv(ctx.bin, bodies)
        hist_lines = collections.defaultdict(list)
        for b, (k, hi, oi), rr in zip(bodies, index, res):
            if hi is not None:
                hist_lines[hi].append(b)
            if k == "op":
                hists[hi][oi]["res"] = rr
            elif k == "left":
                hists[hi][oi]["left"] = rr.get("n")
        # second pass: what the stream blocks should have become (the implementation's own X25519 / recipient side)
        q = []
        for hi, h in enumerate(hists):
            off = 0
            for o in h:
                o["fresh_pk"] = o["stream"][off:off + 32] if o["draw_pk"] else None
                off += 32 if o["draw_pk"] else 0
                o["fresh_e"] = o["stream"][off:off + 32] if o["draw_e"] else None
                off += 32 if o["draw_e"] else 0
                o["exp_left"] = len(o["stream"]) - off
                r = obs_of(o["kind"], o["res"])
                o["obs"] = r
                o["q"] = []
                if o["draw_e"]:
                    o["q"].append(len(q))
                    q.append("xpub %s" % hexs(o["fresh_e"]))
                if o["kind"] == "key_enc" and r["code"] == 0 and len(r["out"]) >= 132:
                    o["q"].append(len(q))
                    q.append("noise_dec %s %s %s %s" % (hexs(o["r"]), hexs(o["rpk"]), hexs(PROLOGUE), hexs(r["out"][4:132])))
                    o["q"].append(len(q))
                    q.append("key_dec %s %s %s - - -" % (hexs(o["r"]), hexs(o["rpk"]), hexs(r["out"])))
        qres = drv(ctx.bin, q)
        items, shows, inputs, impls = [], {}, {}, {}
        for hi, h in enumerate(hists):
            inp = {"driver": "libdrv", "oracle": "stream", "lines": hist_lines[hi] + ["setrand none"]}
            self.ran(ctx, "stream-history/len=%d" % len(h))
            for oi, o in enumerate(h):
                r = o["obs"]
                self.count(ctx, "stream-op:%s%s%s" % (o["kind"], "+fresh_e" if o["draw_e"] else "", "+fresh_pk" if o["draw_pk"] else ""))
                where = "history %d op %d (%s)" % (hi, oi, o["kind"])
                self.check(ctx, r["code"] == 0, inp, where + ": operation succeeds", o["res"]["raw"][:300])
                self.check(ctx, o["left"] == str(o["exp_left"]), inp,
                           where + ": exactly %d stream bytes consumed so far, %d left" % (len(o["stream"]) - o["exp_left"], o["exp_left"]),
                           "randleft n=%s" % o["left"])
                if r["code"] != 0:
                    continue
                qi = list(o["q"])
                eoff = 4 if o["kind"] == "key_enc" else 0
                if o["draw_e"]:
                    want = unhex(qres[qi.pop(0)].get("out", "-"))
                    self.check(ctx, r["out"][eoff:eoff + 32] == want, inp,
                               where + ": ephemeral public key is the public key of the stream's next block " + want.hex(),
                               r["out"][eoff:eoff + 32].hex())
                else:
                    self.check(ctx, r["out"][eoff:eoff + 32] == o["epk"], inp, where + ": injected ephemeral key is used",
                               r["out"][eoff:eoff + 32].hex())
                if o["kind"] == "key_enc" and qi:
                    nd, kd = qres[qi[0]], obs_of("key_dec", qres[qi[1]])
                    wantpk = o["fresh_pk"] if o["draw_pk"] else o["pk"]
                    self.check(ctx, nd.get("outcome") == "ok" and unhex(nd.get("out", "-")) == wantpk, inp,
                               where + ": payload key recovered by the recipient is " + ("the stream block " if o["draw_pk"] else "the injected key ") + wantpk.hex(),
                               nd["raw"][:200])
                    # (round trip is C01's subject: recorded, not judged here)
                    self.count(ctx, "stream-file-decrypts:%s" % ("yes" if kd["code"] == 0 and kd["out"] == o["data"] and kd["extra"] == o["spk"] else "NO"))
            # model: the whole history on the same stream
            ops, impl = [], []
            for o in h:
                if o["kind"] == "key_enc":
                    ops.append("HKeyEnc %s %s %s %s %s %s %s %s" % (g_bytes(o["s"]), g_bytes(o["spk"]), g_bytes(o["rpk"]), g_opt(o["e"]),
                                                                  g_opt(o["epk"]), g_opt(o["pk"]), g_bytes(o["data"]), g_rscript(o["rs"])))
                else:
                    ops.append("HNoiseEnc %s %s %s %s %s %s %s" % (g_bytes(o["s"]), g_bytes(o["spk"]), g_bytes(o["rpk"]), g_opt(o["e"]),
                                                                 g_opt(o["epk"]), g_bytes(o["prologue"]), g_bytes(o["payload"])))
                left = o["left"] if (o["left"] or "").isdigit() else "999999"
                impl.append("(%s, %s)" % (g_obs(o["obs"]), left))
            mh = "run_hist [] %s [%s]" % (g_bytes(h[0]["stream"]), "; ".join(ops))
            items.append((hi, "chk_hist (%s) [%s]" % (mh, "; ".join(impl)), len(h)))
            shows[hi] = "show_hist (%s)" % mh
            inputs[hi] = inp
            impls[hi] = [o["res"]["raw"][:300] for o in h]
            if hi % 5 == 0:
                self.sample(ctx, {"gen": "stream-history", "ops": [o["kind"] for o in h], "stream_bytes": len(h[0]["stream"]),
                                  "implementation": [o["res"]["outcome"] for o in h], "left": [o["left"] for o in h]})
        res_m, log = coq_eval(ctx.pid + "h", items)
        self.model_results(ctx, "stream-history", items, res_m, log, inputs, impls, shows)

    def recheck_stream(self, inp, rs):
        return all(r["outcome"] == "ok" for r in rs)

    # ---------------------------------------------------------------- (c)
    def nonce_sequence(self, ctx):
        rng = ctx.rng
        files = []   # (label, key, aad, file records region, plaintext chunks, make-input)
        encs = []
        for cs in ([1, 2, 3, 4, 5] if ctx.thorough() else [2, 3]):
            key, aad = ctx.rbytes(32), rng.choice([b"", PASS_MAGIC])
            for n in range(0, 9 if ctx.thorough() else 7):
                parts = rng.choice(all_partitions(n, cs))
                encs.append(("chunks", Case("enc_chunks", key=key, aad=aad, cs=cs, data=ctx.rbytes(n), rs=script_of(parts)), parts))
        (s, spk), (r, rpk) = self.parties[0], self.parties[1]
        for n in ([0, 1, 4, 6] if not ctx.thorough() else [0, 1, 2, 4, 6, 9]):
            parts = rng.choice(all_partitions(n, 3)) if n else []
            encs.append(("key", Case("key_enc", s=s, spk=spk, r=rpk, data=ctx.rbytes(n), rs=script_of(parts)), parts))
            encs.append(("pass", Case("pass_enc", pw=b"pw7", salt=ctx.rbytes(32), data=ctx.rbytes(n), rs=script_of(parts)), parts))
        bodies = ["setrand none"]
        vlib.run_impl(ctx.bin, [c for _, c, _ in encs])
        # keys of the file modes
        q, qi = [], {}
        for i, (kind, c, parts) in enumerate(encs):
            F = c.result["out"]
            if kind == "key" and c.result["code"] == 0:
                qi[i] = len(q)
                q.append("noise_dec %s %s %s %s" % (hexs(r), hexs(rpk), hexs(PROLOGUE), hexs(F[4:132])))
            elif kind == "pass" and c.result["code"] == 0:
                qi[i] = len(q)
                q.append("scrypt %s %s 32768 8 1 32" % (hexs(c.a["pw"]), hexs(F[4:36])))
        qres = drv(ctx.bin, q)
        q2, q2i = [], {}
        for i, (kind, c, parts) in enumerate(encs):
            if kind == "key" and i in qi and qres[qi[i]]["outcome"] == "ok":
                q2i[i] = len(q2)
                q2.append("hkdf - %s %s 32" % (qres[qi[i]]["out"], qres[qi[i]]["hh"]))
        q2res = drv(ctx.bin, q2)
        cases = []
        for i, (kind, c, parts) in enumerate(encs):
            inp0 = {"driver": "libdrv", "lines": [c.rust_line().split(" ", 1)[1]]}
            if not self.check(ctx, c.result["code"] == 0, inp0, "encryption over a conforming source succeeds", c.result["outcome"]):
                continue
            F, P = c.result["out"], c.a["data"]
            if kind == "chunks":
                key, aad, off = c.a["key"], c.a["aad"], 0
            elif kind == "key":
                if i not in q2i:
                    self.check(ctx, False, inp0, "the recipient recovers the payload key of the implementation's own file", qres[qi[i]]["raw"][:200])
                    continue
                key, aad, off = unhex(q2res[q2i[i]]["out"]), b"", 132
            else:
                key, aad, off = unhex(qres[qi[i]]["out"]), PASS_MAGIC, 36
            recs = records(F, off)
            sizes = sim_reads(len(P), parts, c.a.get("cs", BIG)) or [0]
            m = len(recs)
            self.ran(ctx, "nonce-file/%s/chunks=%d" % (kind, m))
            self.check(ctx, m == len(sizes) and sum(len(x) for x in recs) == len(F) - off, inp0,
                       "%d records (one per non-empty read, at least one)" % len(sizes), "%d records" % m)
            pos = 0
            for ri, rec in enumerate(recs):
                # the cleartext counter field is format (C06), not the nonce: recorded, not judged here
                self.count(ctx, "header-counter-equals-index:%s" % ("yes" if rec[0:8] == ri.to_bytes(8, "big") else "NO"))
                chunk = P[pos:pos + (sizes[ri] if ri < len(sizes) else 0)]
                pos += len(chunk)
                for j in list(range(0, m + 2)) + [ri + 256, ri + 2 ** 32]:
                    def orc(res, j=j, ri=ri, chunk=chunk):
                        if j == ri:
                            if res["code"] != 0 or res["out"] != chunk:
                                return ("record %d opens under nonce %d to plaintext chunk %s" % (ri, ri, chunk.hex()), res["outcome"])
                        elif res["code"] != 51:
                            return ("record %d does not open under nonce %d (each (key, nonce) seals one record)" % (ri, j), res["outcome"])
                        return None
                    cases.append(Case("nopen", key=key, n=j, ad=aad + rec[8:16], x=rec[16:], oracle=orc,
                                      tags=["nonce-" + kind, "own" if j == ri else "other"]))
        self.run_cases(ctx, cases, model=True)

    # ---------------------------------------------------------------- (b) library
    def idle_library(self, ctx):
        # all runs in ONE driver process: a generator that recycles its output after k draws shows up only when one
        # process draws more than k values (260 default key_enc = 520 draws of 32 bytes, plus the other variants)
        N = 2000 if ctx.thorough() else 260
        (s, spk), (r, rpk) = self.parties[0], self.parties[1]
        e = ctx.rbytes(32)
        epk = unhex(drv(ctx.bin, ["xpub %s" % hexs(e)])[0]["out"])
        pkfix = ctx.rbytes(32)
        data = ctx.rbytes(9)
        base = "%s %s %s" % (hexs(s), hexs(spk), hexs(rpk))
        variants = {
            "key_enc": "key_enc %s none none none %s - - -" % (base, hexs(data)),
            "key_enc/payload-injected": "key_enc %s none none %s %s - - -" % (base, hexs(pkfix), hexs(data)),
            "key_enc/ephemeral-injected": "key_enc %s %s %s none %s - - -" % (base, hexs(e), hexs(epk), hexs(data)),
            "noise_enc": "noise_enc %s none none %s %s" % (base, hexs(PROLOGUE), hexs(pkfix)),
        }
        bodies, idx = ["setrand none", "randleft"], [None, None]
        for name, line in variants.items():
            for _ in range(N):
                bodies.append(line)
                idx.append(name)
        res = drv(ctx.bin, bodies)
        inp_all = {"driver": "libdrv", "lines": ["setrand none"] + list(variants.values()), "repeat": N}
        self.check(ctx, res[1].get("n") == "none", inp_all, "no random stream installed (production path)", res[1]["raw"])
        outs = collections.defaultdict(list)
        for name, rr in zip(idx, res):
            if name:
                outs[name].append(rr)
        q, qmap = [], []
        for name in ("key_enc", "key_enc/payload-injected", "key_enc/ephemeral-injected"):
            for k, rr in enumerate(outs[name]):
                F = unhex(rr.get("out", "-"))
                if rr["outcome"] == "ok" and len(F) >= 132:
                    qmap.append((name, k))
                    q.append("noise_dec %s %s %s %s" % (hexs(r), hexs(rpk), hexs(PROLOGUE), hexs(F[4:132])))
        pks = collections.defaultdict(list)
        for (name, k), rr in zip(qmap, drv(ctx.bin, q)):
            pks[name].append(unhex(rr.get("out", "-")))
        allvals = []
        for name, rs in outs.items():
            inp = {"driver": "libdrv", "lines": ["setrand none", variants[name]], "repeat": N, "note": "statistical observation"}
            self.ran(ctx, "idle-library/" + name, len(rs))
            self.check(ctx, all(x["outcome"] == "ok" for x in rs), inp, "every run succeeds", [x["outcome"] for x in rs if x["outcome"] != "ok"][:3])
            off = 0 if name == "noise_enc" else 4
            eph = [unhex(x.get("out", "-"))[off:off + 32] for x in rs]
            if name == "key_enc/ephemeral-injected":
                self.check(ctx, set(eph) == {epk}, inp, "an injected ephemeral key is used as given", len(set(eph)))
            else:
                self.check(ctx, len(set(eph)) == len(rs), inp, "%d runs with identical inputs: ephemeral public keys pairwise distinct" % len(rs),
                           "%d distinct" % len(set(eph)))
                allvals += eph
            if name == "key_enc/payload-injected":
                self.check(ctx, set(pks[name]) == {pkfix}, inp, "an injected payload key is used as given", len(set(pks[name])))
            elif name != "noise_enc":
                self.check(ctx, len(pks[name]) == len(rs) and len(set(pks[name])) == len(rs), inp,
                           "%d runs with identical inputs: payload keys pairwise distinct" % len(rs), "%d distinct of %d recovered" % (len(set(pks[name])), len(pks[name])))
                allvals += pks[name]
            whole = [x.get("out") for x in rs]
            self.check(ctx, len(set(whole)) == len(rs), inp, "no two outputs are equal", "%d distinct" % len(set(whole)))
        self.check(ctx, len(set(allvals)) == len(allvals), inp_all, "all %d drawn values (ephemeral and payload keys, all operations) pairwise distinct" % len(allvals),
                   "%d distinct" % len(set(allvals)))
        self.lib_values = allvals
        self.sample(ctx, {"gen": "idle-library", "runs_per_operation": N, "operations": list(variants), "distinct_values": len(set(allvals))})

    # ---------------------------------------------------------------- CLI: stream equality and idle repetition
    def cli_checks(self, ctx):
        rng = ctx.rng
        N = 200 if ctx.thorough() else 20
        K = 6 if ctx.thorough() else 2
        wd = tempfile.mkdtemp(prefix="kv_c07_", dir="/tmp")
        try:
            (s, spk), (r, rpk) = self.parties[2], self.parties[3]
            pw_s, pw_r = b"sender pass", b"recipient-pass"
            salt_s = ctx.rbytes(32)
            kr_text, locked = make_keyring([("sender-key", s, spk, pw_s, salt_s), ("recipient-key", r, rpk, pw_r, ctx.rbytes(32))])
            kr = os.path.join(wd, "keyring.txt")
            open(kr, "w").write(kr_text)
            pt = ctx.rbytes(300)
            ptf = os.path.join(wd, "plain.bin")
            open(ptf, "wb").write(pt)
            genpw, newpw = "gen pass", "changed-pass"
            jobs, meta = [], []

            def add(kind, args, env, stdin=None, outf=None, stream=None):
                if stream is not None:
                    env = dict(env, KESTREL_VERIF_RANDOM=stream.hex())
                jobs.append({"args": args, "env": env, "stdin": stdin})
                meta.append({"kind": kind, "args": args, "env": dict((k, v) for k, v in env.items()), "out": outf, "stream": stream,
                             "stdin": (stdin or b"").decode("latin1")})
            # (a') deterministic stream
            for k in range(K):
                slack = rng.choice([0, 1, 40])
                st = ctx.rbytes(64 + slack)
                o = os.path.join(wd, "s_enc_%d.bin" % k)
                add("stream/encrypt", ["encrypt", ptf, "-t", "recipient-key", "-f", "sender-key", "-o", o, "-k", kr, "--env-pass"],
                    {"KESTREL_PASSWORD": pw_s.decode()}, outf=o, stream=st)
                st = ctx.rbytes(32 + slack)
                o = os.path.join(wd, "s_pass_%d.bin" % k)
                add("stream/password-encrypt", ["password", "encrypt", ptf, "-o", o, "--env-pass"], {"KESTREL_PASSWORD": "file pw"}, outf=o, stream=st)
                st = ctx.rbytes(64 + slack)
                o = os.path.join(wd, "s_gen_%d.txt" % k)
                add("stream/key-generate", ["key", "generate", "-o", o, "--env-pass"], {"KESTREL_PASSWORD": genpw}, stdin=b"stream-key\n", outf=o, stream=st)
                st = ctx.rbytes(32 + slack)
                add("stream/key-change-pass", ["key", "change-pass", locked["sender-key"], "--env-pass"],
                    {"KESTREL_PASSWORD": pw_s.decode(), "KESTREL_NEW_PASSWORD": newpw}, stream=st)
            # (b) hook idle, identical inputs
            for k in range(N):
                o = os.path.join(wd, "i_enc_%d.bin" % k)
                add("idle/encrypt", ["encrypt", ptf, "-t", "recipient-key", "-f", "sender-key", "-o", o, "-k", kr, "--env-pass"],
                    {"KESTREL_PASSWORD": pw_s.decode()}, outf=o)
                o = os.path.join(wd, "i_pass_%d.bin" % k)
                add("idle/password-encrypt", ["password", "encrypt", ptf, "-o", o, "--env-pass"], {"KESTREL_PASSWORD": "file pw"}, outf=o)
                o = os.path.join(wd, "i_gen_%d.txt" % k)
                add("idle/key-generate", ["key", "generate", "-o", o, "--env-pass"], {"KESTREL_PASSWORD": genpw}, stdin=b"same-name\n", outf=o)
                add("idle/key-change-pass", ["key", "change-pass", locked["sender-key"], "--env-pass"],
                    {"KESTREL_PASSWORD": pw_s.decode(), "KESTREL_NEW_PASSWORD": newpw})
            results = cli_many(jobs)
            by = collections.defaultdict(list)
            for m, (rc, so, se) in zip(meta, results):
                m["rc"], m["stdout"], m["stderr"] = rc, so, se
                m["file"] = open(m["out"], "rb").read() if m["out"] and os.path.exists(m["out"]) else None
                by[m["kind"]].append(m)
                inp = {"driver": "cli", "argv": m["args"], "env": m["env"], "stdin": m["stdin"], "files": "plaintext: 300 random bytes; keyring: two locked keys"}
                m["inp"] = inp
                self.check(ctx, rc == 0, inp, "the CLI run succeeds", "rc=%d %s" % (rc, se[-200:]))
            self.cli_stream_oracles(ctx, by, s, spk, rpk, pt, genpw, newpw)
            self.cli_idle_oracles(ctx, by, r, rpk, salt_s, N)
        finally:
            shutil.rmtree(wd, ignore_errors=True)

    @staticmethod
    def key_fields(text):
        """(public key string, locked private key string) of 'key generate' / 'change-pass' output"""
        pk = re.search(r"PublicKey = (\S+)", text)
        sk = re.search(r"PrivateKey = (\S+)", text)
        return (pk.group(1) if pk else None), (sk.group(1) if sk else None)

    def cli_stream_oracles(self, ctx, by, s, spk, rpk, pt, genpw, newpw):
        lib, want = [], []
        for m in by["stream/encrypt"]:
            st = m["stream"]
            lib.append("xpub %s" % hexs(st[32:64]))
        epks = [unhex(x.get("out", "-")) for x in drv(ctx.bin, lib)]
        lib = []
        for m, epk in zip(by["stream/encrypt"], epks):
            st = m["stream"]
            lib.append("key_enc %s %s %s %s %s %s %s - - -" % (hexs(s), hexs(spk), hexs(rpk), hexs(st[32:64]), hexs(epk), hexs(st[0:32]), hexs(pt)))
        for m in by["stream/password-encrypt"]:
            lib.append("pass_enc %s %s %s - - -" % (hexs(b"file pw"), hexs(m["stream"][0:32]), hexs(pt)))
        for m in by["stream/key-generate"]:
            lib.append("xpub %s" % hexs(m["stream"][0:32]))
        lres = drv(ctx.bin, lib)
        k = 0
        for m in by["stream/encrypt"]:
            self.ran(ctx, "cli-stream/encrypt")
            want = unhex(lres[k].get("out", "-"))
            k += 1
            self.check(ctx, m["file"] == want, m["inp"],
                       "CLI output = library key_encrypt with payload key = stream[0:32], ephemeral = stream[32:64] (%d bytes)" % len(want),
                       "%s bytes, first difference at %s" % (len(m["file"] or b""), next((i for i, (a, b) in enumerate(zip(m["file"] or b"", want)) if a != b), None)))
        for m in by["stream/password-encrypt"]:
            self.ran(ctx, "cli-stream/password-encrypt")
            want = unhex(lres[k].get("out", "-"))
            k += 1
            self.check(ctx, m["file"] == want, m["inp"], "CLI output = library pass_encrypt with salt = stream[0:32]",
                       "salt field %s" % (m["file"] or b"")[4:36].hex())
        ops = []
        gens = []
        for m in by["stream/key-generate"]:
            pk = unhex(lres[k].get("out", "-"))
            k += 1
            gens.append(pk)
            ops.append("sk_lock %s %s %s" % (hexs(m["stream"][0:32]), hexs(genpw.encode()), hexs(m["stream"][32:64])))
        for m in by["stream/key-change-pass"]:
            ops.append("sk_lock %s %s %s" % (hexs(s), hexs(newpw.encode()), hexs(m["stream"][0:32])))
        cres = clidrv_ops(ops)
        k = 0
        for m, pk in zip(by["stream/key-generate"], gens):
            self.ran(ctx, "cli-stream/key-generate")
            got_pk, got_sk = self.key_fields((m["file"] or b"").decode("utf-8", "replace"))
            want_sk = unhex(cres[k].get("out", "-")).decode()
            k += 1
            self.check(ctx, got_pk == encode_pk(pk) and got_sk == want_sk, m["inp"],
                       "generated key: private key = stream[0:32] (public %s), locked with salt = stream[32:64]" % encode_pk(pk),
                       "PublicKey=%s PrivateKey=%s" % (got_pk, got_sk))
        for m in by["stream/key-change-pass"]:
            self.ran(ctx, "cli-stream/key-change-pass")
            _, got_sk = self.key_fields(m["stdout"].decode("utf-8", "replace"))
            want_sk = unhex(cres[k].get("out", "-")).decode()
            k += 1
            self.check(ctx, got_sk == want_sk, m["inp"], "re-locked key uses salt = stream[0:32]: " + want_sk, got_sk)

    def cli_idle_oracles(self, ctx, by, r, rpk, salt_s, N):
        note = "statistical observation over %d runs with identical inputs" % N
        allv = list(getattr(self, "lib_values", []))
        # encrypt
        ms = by["idle/encrypt"]
        inp = dict(ms[0]["inp"], repeat=N, note=note)
        self.ran(ctx, "cli-idle/encrypt", len(ms))
        files = [m["file"] or b"" for m in ms]
        eph = [f[4:36] for f in files]
        self.check(ctx, len(set(eph)) == len(ms) and all(len(x) == 32 for x in eph), inp, "ephemeral keys (file bytes 4..36) pairwise distinct", "%d distinct" % len(set(eph)))
        nd = drv(ctx.bin, ["noise_dec %s %s %s %s" % (hexs(r), hexs(rpk), hexs(PROLOGUE), hexs(f[4:132])) for f in files if len(f) >= 132])
        pks = [unhex(x.get("out", "-")) for x in nd if x["outcome"] == "ok"]
        self.check(ctx, len(pks) == len(ms) and len(set(pks)) == len(ms), inp, "payload keys (recovered by the recipient) pairwise distinct",
                   "%d distinct of %d recovered" % (len(set(pks)), len(pks)))
        allv += eph + pks
        # password encrypt
        ms = by["idle/password-encrypt"]
        inp = dict(ms[0]["inp"], repeat=N, note=note)
        self.ran(ctx, "cli-idle/password-encrypt", len(ms))
        salts = [(m["file"] or b"")[4:36] for m in ms]
        self.check(ctx, len(set(salts)) == len(ms) and all(len(x) == 32 for x in salts), inp, "password-file salts (bytes 4..36) pairwise distinct", "%d distinct" % len(set(salts)))
        allv += salts
        # key generate
        ms = by["idle/key-generate"]
        inp = dict(ms[0]["inp"], repeat=N, note=note)
        self.ran(ctx, "cli-idle/key-generate", len(ms))
        pubs, ksalts = [], []
        for m in ms:
            pk, sk = self.key_fields((m["file"] or b"").decode("utf-8", "replace"))
            pubs.append(pk)
            try:
                ksalts.append(base64.b64decode(sk)[4:36])
            except Exception:
                ksalts.append(None)
        self.check(ctx, None not in pubs and len(set(pubs)) == len(ms), inp, "generated public keys pairwise distinct (hence the private keys)", "%d distinct" % len(set(pubs)))
        self.check(ctx, None not in ksalts and len(set(ksalts)) == len(ms), inp, "locked-key salts (decoded bytes 4..36) pairwise distinct", "%d distinct" % len(set(ksalts)))
        allv += [base64.b64decode(p)[:32] for p in pubs if p] + [x for x in ksalts if x]
        # change-pass
        ms = by["idle/key-change-pass"]
        inp = dict(ms[0]["inp"], repeat=N, note=note)
        self.ran(ctx, "cli-idle/key-change-pass", len(ms))
        csalts = []
        for m in ms:
            _, sk = self.key_fields(m["stdout"].decode("utf-8", "replace"))
            try:
                csalts.append(base64.b64decode(sk)[4:36])
            except Exception:
                csalts.append(None)
        self.check(ctx, None not in csalts and len(set(csalts)) == len(ms) and salt_s not in csalts, inp,
                   "re-locked keys: salts pairwise distinct and different from the old salt", "%d distinct" % len(set(csalts)))
        allv += [x for x in csalts if x]
        self.check(ctx, len(set(allv)) == len(allv), {"driver": "cli+libdrv", "note": note},
                   "all %d random values observed (library and CLI: ephemeral keys, payload keys, salts, generated keys) pairwise distinct" % len(allv),
                   "%d distinct" % len(set(allv)))
        self.count(ctx, "distinct-random-values", len(set(allv)))
        self.sample(ctx, {"gen": "cli-idle", "runs_per_command": N, "commands": ["encrypt", "password encrypt", "key generate", "key change-pass"],
                          "distinct_values_total": len(set(allv))})


# =========================================================================== C08
def needles_for(pk, label):
    """byte patterns that would reveal a public key: raw, base64 (std / url-safe, with and without padding),
    the 48-character keyring encoding (key + 4 checksum bytes), hex"""
    enc = encode_pk(pk)
    out = [(label + ":raw", pk), (label + ":base64", b64(pk).encode()), (label + ":base64-nopad", b64(pk).rstrip("=").encode()),
           (label + ":base64url-nopad", base64.urlsafe_b64encode(pk).rstrip(b"=")), (label + ":keyring-encoding", enc.encode()),
           (label + ":raw+checksum", pk + hashlib.sha256(pk).digest()[:4]),
           (label + ":hex", pk.hex().encode()), (label + ":HEX", pk.hex().upper().encode())]
    return out


def find_needles(F, needles):
    return [lab for lab, n in needles if n and n in F]


def view_of(F, hdr):
    """the cleartext view: magic, bytes 4..36, every record's 16 header bytes; plus structural sanity"""
    recs = records(F, hdr)
    return F[0:36] + b"".join(r[0:16] for r in recs), recs


class C08(MiscProp):
    id = "C08"
    rule = ("library: plaintext lengths 0,1,5,32,33,100 (thorough also 2, 31) under several read partitions (one record per non-empty read) and "
            "65535..65537 (thorough: 131072, 131073); every (length, partition) is encrypted for 3 (thorough 5) different "
            "sender/recipient pairs — resp. passwords — with the SAME ephemeral key / salt and partly different payload keys "
            "and plaintext contents: length = 132 (36) + 32*records + |P|, records = max(1, non-empty reads); the cleartext view "
            "(magic, bytes 4..36, each record's 16 header bytes) equals the predicted one and is identical inside a group; no "
            "needle (both public keys raw / base64 / keyring encoding / hex) occurs in the file; every file is also compared "
            "with the model byte for byte (run_key_enc / run_pass_enc); half-injected ephemeral pairs (Some e, None) and (None, Some epk) — which "
            "noise.rs treats as not injected — with the fresh key taken from an installed random stream: bytes 4..36 must be the FRESH "
            "key's public key, same view for all identities, no needle, model = run_key_enc_fresh on the same stream. CLI: real `encrypt` / `password encrypt` processes over a "
            "keyring with named entries (ASCII, spaces, non-ASCII), file and stdin input, with and without a fixed random stream: "
            "same checks plus the keyring names and every keyring public key as needles; also onto a pre-existing LONGER output file "
            "whose text contains the keyring (names, public keys): the result must obey the exact length formula and contain no needle; "
            "self-addressed (to == from) and two-party encryptions written to standard output (a pipe) and to -o: the output starts with the "
            "magic, obeys the length formula and contains no needle. non-trivial = all; distinct = distinct "
            "driver lines / argv")
    assumptions = ["needle search is over exact encodings (raw, base64 variants, keyring encoding, hex); an AEAD output that happened to contain a 32-byte needle by chance has probability < 2^-200",
                   "names shorter than 10 bytes are not used as needles (they could occur by chance)",
                   "that the AEAD bytes themselves carry no information about identities is the Noise/AEAD secrecy argument, not tested here"]

    def run(self, ctx):
        self.library(ctx)
        self.library_mixed(ctx)
        self.fresh_ephemeral(ctx)
        self.cli_part(ctx)

    def fresh_ephemeral(self, ctx):
        """"a fresh ephemeral public key": default encryptions (nothing injected, production random source) repeated in ONE
        process; bytes 4..36 pairwise distinct and never a party's key (statistical observation, as in C07)"""
        N = 2000 if ctx.thorough() else 260
        (s, spk), (r, rpk) = keypairs(ctx, 2)
        line = "key_enc %s %s %s none none none %s - - -" % (hexs(s), hexs(spk), hexs(rpk), hexs(ctx.rbytes(3)))
        res = drv(ctx.bin, ["setrand none"] + [line] * N)[1:]
        inp = {"driver": "libdrv", "lines": ["setrand none", line], "repeat": N, "note": "statistical observation; all runs in one driver process"}
        self.ran(ctx, "library-default-repeated", N)
        files = [unhex(x.get("out", "-")) for x in res]
        self.check(ctx, all(x.get("outcome") == "ok" for x in res) and all(len(f) == 132 + 32 + 3 for f in files), inp,
                   "every run succeeds with 167 bytes", [x.get("outcome") for x in res if x.get("outcome") != "ok"][:3])
        eph = [f[4:36] for f in files]
        first_dup = next((i for i, e in enumerate(eph) if e in eph[:i]), None)
        self.check(ctx, len(set(eph)) == len(eph), inp, "%d default encryptions in one process: the ephemeral public keys (bytes 4..36) are pairwise distinct" % N,
                   "%d distinct; run %s repeats the key of run %s" % (len(set(eph)), first_dup, eph.index(eph[first_dup]) if first_dup is not None else None))
        self.check(ctx, spk not in eph and rpk not in eph, inp, "bytes 4..36 are never a party's static public key", "static key used as ephemeral")
        self.check(ctx, len(set(f[0:4] + b"".join(x[0:16] for x in records(f, 132)) for f in files)) == 1, inp,
                   "apart from the ephemeral key the cleartext fields are identical in all runs", "different magic / record headers")

    def library_mixed(self, ctx):
        """half-injected ephemeral pairs: (Some e, None) and (None, Some epk).  noise.rs::init_x keeps an injected pair only
        when BOTH halves are given, so the ephemeral key is fresh: it comes from the random stream (installed with setrand;
        the same blocks go to the model runner run_key_enc_fresh)."""
        rng = ctx.rng
        full = ctx.thorough()
        G = 5 if full else 3
        ids = keypairs(ctx, 2 * G + 1)
        e_inj, epk_inj = ids[-1]
        lens = [0, 5, 33] if full else [0, 33]
        o_ = lambda b: "none" if b is None else hexs(b)
        specs = []
        for combo in ("e-only", "epk-only"):
            for li, n in enumerate(lens):
                for pk_given in ([True, False] if full else [li % 2 == 0]):
                    stream = ctx.rbytes((32 if pk_given else 64) + rng.choice([0, 7]))
                    pk = ctx.rbytes(32) if pk_given else None
                    parts = [] if n == 0 else rng.choice(all_partitions(n, n) if n <= 5 else [[], [1, 1], [n // 2]])
                    for k in range(G):
                        (s, spk), (r, rpk) = ids[2 * k], ids[2 * k + 1]
                        specs.append({"combo": combo, "n": n, "pk": pk, "stream": stream, "parts": parts, "s": s, "spk": spk, "r": r, "rpk": rpk,
                                      "e": e_inj if combo == "e-only" else None, "epk": epk_inj if combo == "epk-only" else None,
                                      "data": ctx.rbytes(n), "g": (combo, n, pk_given)})
        bodies = []
        for sp in specs:
            bodies.append("setrand %s" % hexs(sp["stream"]))
            bodies.append("key_enc %s %s %s %s %s %s %s %s - -" % (hexs(sp["s"]), hexs(sp["spk"]), hexs(sp["rpk"]), o_(sp["e"]), o_(sp["epk"]),
                                                                  o_(sp["pk"]), hexs(sp["data"]), script_of(sp["parts"])))
            bodies.append("randleft")
        bodies.append("setrand none")
        res = drv(ctx.bin, bodies)
        fresh = drv(ctx.bin, ["xpub %s" % hexs(sp["stream"][(0 if sp["pk"] else 32):(32 if sp["pk"] else 64)]) for sp in specs])
        views = collections.defaultdict(set)
        items, inputs, impls, shows = [], {}, {}, {}
        for i, sp in enumerate(specs):
            r_, left = res[3 * i + 1], res[3 * i + 2]
            inp = {"driver": "libdrv", "lines": bodies[3 * i:3 * i + 3] + ["setrand none"], "oracle": None}
            self.ran(ctx, "library-mixed/%s/%s" % (sp["combo"], "payload-injected" if sp["pk"] else "payload-fresh"))
            ob = vlib.parse_result("key_enc", r_["raw"])
            if not self.check(ctx, ob["code"] == 0, inp, "encryption succeeds", r_["raw"][:300]):
                continue
            F = ob["out"]
            sizes = sim_reads(sp["n"], sp["parts"]) or [0]
            fe_pub = unhex(fresh[i].get("out", "-"))
            want_v = PROLOGUE + fe_pub + b"".join(j.to_bytes(8, "big") + (1 if j == len(sizes) - 1 else 0).to_bytes(4, "big") + sizes[j].to_bytes(4, "big")
                                                   for j in range(len(sizes)))
            v, _ = view_of(F, 132)
            self.check(ctx, len(F) == 132 + 32 * len(sizes) + sp["n"], inp, "length = 132 + 32*%d + %d" % (len(sizes), sp["n"]), "%d bytes" % len(F))
            self.check(ctx, v == want_v, inp,
                       "a half-injected ephemeral pair is not used: bytes 4..36 are the public key of a FRESH ephemeral key (the stream block), "
                       "cleartext view = " + want_v.hex(), v.hex())
            nd = needles_for(sp["spk"], "sender-public-key") + needles_for(sp["rpk"], "recipient-public-key")
            hits = find_needles(F, nd)
            self.check(ctx, not hits, inp, "no identity material anywhere in the file", "found " + ", ".join(hits))
            views[sp["g"]].add(v)
            fpk = "[]" if sp["pk"] else g_bytes(sp["stream"][0:32])
            fe = g_bytes(sp["stream"][(0 if sp["pk"] else 32):(32 if sp["pk"] else 64)])
            term = "run_key_enc_fresh [] %s %s %s %s %s %s %s %s %s %s [] []" % (fpk, fe, g_bytes(sp["s"]), g_bytes(sp["spk"]), g_bytes(sp["rpk"]),
                                                                                g_opt(sp["e"]), g_opt(sp["epk"]), g_opt(sp["pk"]), g_bytes(sp["data"]),
                                                                                g_rscript(script_of(sp["parts"])))
            items.append((i, "obs_eqb (%s) %s" % (term, g_obs(ob)), 10))
            shows[i] = "show (%s)" % term
            inputs[i], impls[i] = inp, r_["raw"][:400]
        for g, vs in views.items():
            self.check(ctx, len(vs) == 1, {"driver": "libdrv", "group": "half-injected ephemeral pair %s, length %d, payload key injected: %s" % g},
                       "identical cleartext views whatever the sender / recipient", "%d different views: %s" % (len(vs), [x.hex() for x in list(vs)[:2]]))
        res_m, log = coq_eval(ctx.pid + "x", items)
        self.model_results(ctx, "library-mixed", items, res_m, log, inputs, impls, shows)

    def library(self, ctx):
        rng = ctx.rng
        full = ctx.thorough()
        G = 5 if full else 3
        ids = keypairs(ctx, 2 * G + 1)
        e, epk = ids[-1]
        lens_small = [0, 1, 2, 5, 31, 32, 33, 100] if full else [0, 1, 5, 32, 33, 100]
        lens_big = [BIG - 1, BIG, BIG + 1] + ([2 * BIG, 2 * BIG + 1] if full else [])
        groups = []
        for n in lens_small + lens_big:
            plist = [[]]
            if 0 < n <= 5:
                allp = all_partitions(n, n)
                plist = allp if full else [[n]] + rng.sample(allp, min(2, len(allp)))
            elif 5 < n <= 100:
                plist = [[], [1] * min(n, 4), [rng.randrange(1, n) for _ in range(3)]] + ([[7] * 20] if full else [])
            elif n > 100:
                plist = [[], [BIG, 1], [4096] * 3] if (full or n == BIG + 1) else [[]]
            seen = set()
            for parts in plist:
                if tuple(parts) in seen:
                    continue
                seen.add(tuple(parts))
                groups.append((n, parts))
        cases, meta = [], []
        for gi, (n, parts) in enumerate(groups):
            rs = script_of(parts)
            P0 = ctx.rbytes(n)
            pk0 = ctx.rbytes(32)
            salt = ctx.rbytes(32)
            sizes = sim_reads(n, parts)
            for k in range(G):
                (s, spk), (r, rpk) = ids[2 * k], ids[2 * k + 1]
                if k == G - 1:
                    (s, spk), (r, rpk) = ids[1], ids[0]       # the first pair with the roles exchanged
                P = P0 if k % 2 == 0 else ctx.rbytes(n)
                pk = pk0 if k < 2 else ctx.rbytes(32)
                c = Case("key_enc", s=s, spk=spk, r=rpk, e=e, epk=epk, pk=pk, data=P, rs=rs, tags=["key", "len=%d" % n, "records=%d" % max(1, len(sizes))])
                cases.append(c)
                meta.append({"g": ("key", gi), "mode": "key", "n": n, "sizes": sizes, "head": epk, "hdr": 132,
                             "needles": needles_for(spk, "sender-public-key") + needles_for(rpk, "recipient-public-key")})
                pw = props.PASSWORDS[(gi + k) % len(props.PASSWORDS)] if k else b"hackme"
                if n > 100 and k > 1:
                    continue
                c = Case("pass_enc", pw=pw, salt=salt, data=P, rs=rs, tags=["pass", "len=%d" % n, "records=%d" % max(1, len(sizes))])
                cases.append(c)
                meta.append({"g": ("pass", gi), "mode": "pass", "n": n, "sizes": sizes, "head": salt, "hdr": 36,
                             "needles": ([("password", pw)] if len(pw) >= 10 else [])})
        views = collections.defaultdict(set)

        def oracle(m):
            def f(res):
                if res["code"] != 0:
                    return ("encryption succeeds", res["outcome"])
                F = res["out"]
                nrec = max(1, len(m["sizes"]))
                want_len = m["hdr"] + 32 * nrec + m["n"]
                if len(F) != want_len:
                    return ("length = %d + 32*%d + %d = %d" % (m["hdr"], nrec, m["n"], want_len), "%d bytes" % len(F))
                v, recs = view_of(F, m["hdr"])
                sz = m["sizes"] or [0]
                want_v = (PROLOGUE if m["mode"] == "key" else PASS_MAGIC) + m["head"] + b"".join(
                    i.to_bytes(8, "big") + (1 if i == len(sz) - 1 else 0).to_bytes(4, "big") + sz[i].to_bytes(4, "big") for i in range(len(sz)))
                if v != want_v:
                    return ("cleartext view = magic, ephemeral key / salt, per-record (counter, last flag, length): " + want_v.hex(), v.hex())
                hits = find_needles(F, m["needles"])
                if hits:
                    return ("no identity material anywhere in the file", "found " + ", ".join(hits))
                views[m["g"]].add(v)
                return None
            return f
        for c, m in zip(cases, meta):
            c.expect_fn = oracle(m)
        # model comparison: everything small, and the big ones of the first identity pair only (cost of vm_compute)
        small = [c for c, m in zip(cases, meta) if m["n"] <= 100]
        bigs = [c for c, m in zip(cases, meta) if m["n"] > 100]
        self.run_cases(ctx, small, model=True)
        self.run_cases(ctx, bigs[:6] if not full else bigs[:16], model=True)
        rest = bigs[6:] if not full else bigs[16:]
        if rest:
            self.run_cases(ctx, rest, model=False)
        for g, vs in views.items():
            self.check(ctx, len(vs) == 1, {"driver": "libdrv", "group": "%s mode, length %d, partition %s" % (g[0], groups[g[1]][0], groups[g[1]][1])},
                       "encryptions that differ only in the identities (keys / password), payload key and content have identical cleartext views",
                       "%d different views: %s" % (len(vs), [v.hex() for v in list(vs)[:2]]))
        self.count(ctx, "view-groups", len(views))
        self.count(ctx, "needles-per-key-file", 16)

    # ---------------------------------------------------------------- real CLI
    def cli_part(self, ctx):
        rng = ctx.rng
        full = ctx.thorough()
        wd = tempfile.mkdtemp(prefix="kv_c08_", dir="/tmp")
        try:
            names = ["alice-%s" % ctx.rbytes(6).hex(), "Bob Q. Example %s" % ctx.rbytes(5).hex(), "zürich-käthe-%s" % ctx.rbytes(4).hex(),
                     "carol_%s" % ctx.rbytes(6).hex()]
            kps = keypairs(ctx, len(names))
            pws = ["pw-%d" % i for i in range(len(names))]
            kr_text, _ = make_keyring([(nm, sk, pk, pw.encode(), ctx.rbytes(32)) for nm, (sk, pk), pw in zip(names, kps, pws)])
            kr = os.path.join(wd, "keyring.txt")
            open(kr, "w", encoding="utf-8").write(kr_text)
            needles = []
            for nm, (sk, pk) in zip(names, kps):
                needles += needles_for(pk, "public-key-of[%s]" % nm)
                needles += [("name[%s]" % nm, nm.encode("utf-8")), ("name-latin1[%s]" % nm, nm.encode("latin1", "replace"))]
            lens = [0, 1, 1000, BIG, BIG + 1] + ([3 * BIG + 7, 200000] if full else [200000])
            pairs = [(0, 1), (1, 0), (2, 3), (0, 0)] + ([(3, 2), (1, 2)] if full else [])
            jobs, meta = [], []
            for n in lens:
                P = ctx.rbytes(n)
                pf = os.path.join(wd, "p_%d.bin" % n)
                open(pf, "wb").write(P)
                stream = ctx.rbytes(64)
                for (a, b) in pairs:
                    for mode in ("stream", "idle"):
                        if mode == "idle" and (a, b) not in pairs[:2]:
                            continue
                        o = os.path.join(wd, "c_%d_%d_%d_%s.bin" % (n, a, b, mode))
                        env = {"KESTREL_PASSWORD": pws[a]}
                        if mode == "stream":
                            env["KESTREL_VERIF_RANDOM"] = stream.hex()
                        jobs.append({"args": ["encrypt", pf, "-t", names[b], "-f", names[a], "-o", o, "-k", kr, "--env-pass"], "env": env})
                        meta.append({"kind": "encrypt", "n": n, "from": a, "to": b, "mode": mode, "out": o, "P": P, "hdr": 132, "stdin": False,
                                     "group": ("encrypt", n) if mode == "stream" else None})
                # stdin input (chunking is whatever the pipe delivers): self-consistency only
                if n in (1000, 200000):
                    o = os.path.join(wd, "c_%d_stdin.bin" % n)
                    jobs.append({"args": ["encrypt", "-t", names[1], "-f", names[0], "-o", o, "-k", kr, "--env-pass"],
                                 "env": {"KESTREL_PASSWORD": pws[0]}, "stdin": P})
                    meta.append({"kind": "encrypt", "n": n, "from": 0, "to": 1, "mode": "idle", "out": o, "P": P, "hdr": 132, "stdin": True, "group": None})
                # password mode: two passwords, same stream
                st32 = ctx.rbytes(32)
                for pw in ("correct horse battery", "x"):
                    o = os.path.join(wd, "w_%d_%d.bin" % (n, len(pw)))
                    jobs.append({"args": ["password", "encrypt", pf, "-o", o, "--env-pass"], "env": {"KESTREL_PASSWORD": pw, "KESTREL_VERIF_RANDOM": st32.hex()}})
                    meta.append({"kind": "password-encrypt", "n": n, "mode": "stream", "out": o, "P": P, "hdr": 36, "stdin": False,
                                 "group": ("password", n), "pw": pw})
            # the -o path already holds a LONGER file whose text names the keyring's parties: it must be replaced, not overlaid
            old_text = ("previous contents of the output file\n" + kr_text).encode("utf-8")
            for n in ([0, 1000, BIG + 1] if full else [0, 1000]):
                P = ctx.rbytes(n)
                pf = os.path.join(wd, "q_%d.bin" % n)
                open(pf, "wb").write(P)
                old = old_text * (1 + (n + 400) // len(old_text))
                for kind in ("encrypt", "password-encrypt"):
                    o = os.path.join(wd, "pre_%s_%d.bin" % (kind, n))
                    open(o, "wb").write(old)
                    if kind == "encrypt":
                        jobs.append({"args": ["encrypt", pf, "-t", names[1], "-f", names[0], "-o", o, "-k", kr, "--env-pass"], "env": {"KESTREL_PASSWORD": pws[0]}})
                        meta.append({"kind": "encrypt", "n": n, "from": 0, "to": 1, "mode": "preexisting-longer-output", "out": o, "P": P, "hdr": 132,
                                     "stdin": False, "group": None, "old_len": len(old)})
                    else:
                        jobs.append({"args": ["password", "encrypt", pf, "-o", o, "--env-pass"], "env": {"KESTREL_PASSWORD": "some other pw"}})
                        meta.append({"kind": "password-encrypt", "n": n, "mode": "preexisting-longer-output", "out": o, "P": P, "hdr": 36, "stdin": False,
                                     "group": None, "pw": "some other pw", "old_len": len(old)})
            # self-addressed encryptions (to == from) and ordinary ones, written to STDOUT (a pipe) and to -o
            for n in ([0, 1000, BIG + 1] if full else [0, 1000]):
                P = ctx.rbytes(n)
                pf = os.path.join(wd, "s_%d.bin" % n)
                open(pf, "wb").write(P)
                for (a, b) in ((0, 0), (2, 2), (0, 1)):
                    for dest in ("stdout", "file"):
                        o = os.path.join(wd, "self_%d_%d_%d.bin" % (n, a, b)) if dest == "file" else None
                        jobs.append({"args": ["encrypt", pf, "-t", names[b], "-f", names[a], "-k", kr, "--env-pass"] + (["-o", o] if o else []),
                                     "env": {"KESTREL_PASSWORD": pws[a]}})
                        meta.append({"kind": "encrypt", "n": n, "from": a, "to": b, "mode": ("self-addressed" if a == b else "two-party") + "/to-" + dest,
                                     "out": o, "P": P, "hdr": 132, "stdin": False, "group": None, "from_stdout": dest == "stdout"})
                jobs.append({"args": ["password", "encrypt", pf, "--env-pass"], "env": {"KESTREL_PASSWORD": "pw to stdout"}})
                meta.append({"kind": "password-encrypt", "n": n, "mode": "to-stdout", "out": None, "P": P, "hdr": 36, "stdin": False, "group": None,
                             "pw": "pw to stdout", "from_stdout": True})
            results = cli_many(jobs)
            views = collections.defaultdict(set)
            decs = []
            for j, m, (rc, so, se) in zip(jobs, meta, results):
                inp = {"driver": "cli", "argv": j["args"], "env": j["env"], "plaintext_len": m["n"], "stdin_input": m["stdin"],
                       "keyring_names": names}
                if m.get("old_len"):
                    inp["output_file_before"] = "%d bytes: 'previous contents of the output file' + the keyring text, repeated" % m["old_len"]
                self.ran(ctx, "cli/%s/%s%s" % (m["kind"], m["mode"], "/stdin" if m["stdin"] else ""))
                if m.get("from_stdout"):
                    F = so          # the encrypted file is everything the process wrote to its standard output
                    inp["output"] = "standard output (a pipe)"
                else:
                    F = open(m["out"], "rb").read() if os.path.exists(m["out"]) else None
                if not self.check(ctx, rc == 0 and F is not None, inp, "the CLI run succeeds and writes the file", "rc=%d %s" % (rc, se[-200:])):
                    continue
                magic = PROLOGUE if m["hdr"] == 132 else PASS_MAGIC
                self.check(ctx, F[:4] == magic, inp, "the output starts with the format magic " + magic.hex(), F[:24].hex() + " = " + repr(F[:24]))
                v, recs = view_of(F, m["hdr"])
                nrec = len(recs)
                self.check(ctx, len(F) == m["hdr"] + 32 * nrec + m["n"] and sum(int.from_bytes(x[12:16], "big") for x in recs) == m["n"], inp,
                           "length = %d + 32*records + %d with the record lengths summing to the plaintext length" % (m["hdr"], m["n"]),
                           "%d bytes, %d records" % (len(F), nrec))
                if not m["stdin"]:
                    # how many reads a regular file takes is the operating system's business: recorded, not judged
                    self.count(ctx, "cli-file-input-one-record-per-64KiB:%s" % ("yes" if nrec == max(1, -(-m["n"] // BIG)) else "NO"))
                nd = list(needles)
                if m["kind"] == "password-encrypt" and len(m["pw"]) >= 10:
                    nd.append(("password", m["pw"].encode()))
                hits = find_needles(F, nd)
                self.check(ctx, not hits, inp, "no keyring name and no public key of the keyring (raw / base64 / keyring encoding / hex) in the file",
                           "found " + ", ".join(hits))
                if m["group"]:
                    views[m["group"]].add(v)
                if m["kind"] == "encrypt":
                    sk, pk = kps[m["to"]]
                    decs.append((inp, m, Case("key_dec", r=sk, rpk=pk, data=F)))
            for g, vs in views.items():
                self.check(ctx, len(vs) == 1, {"driver": "cli", "group": "%s of %d bytes under one random stream, all sender/recipient pairs resp. passwords" % g},
                           "identical cleartext views and lengths whatever the identities", "%d different views" % len(vs))
            vlib.run_impl(ctx.bin, [c for _, _, c in decs])
            for inp, m, c in decs:
                # (round trip is C01 / C04's subject: recorded, not judged here)
                self.count(ctx, "cli-file-decrypts:%s" % ("yes" if c.result["code"] == 0 and c.result["out"] == m["P"] and c.result["extra"] == kps[m["from"]][1] else "NO"))
            self.count(ctx, "cli-needles", len(needles))
            self.sample(ctx, {"gen": "cli", "names": names, "lengths": lens, "pairs": len(pairs), "runs": len(jobs)})
        finally:
            shutil.rmtree(wd, ignore_errors=True)


# =========================================================================== C11
MON_PREAMBLE = """From Kestrel.Model Require Import Chunks Monitors.
Definition acc {A} (o : option A) : bool := match o with Some _ => true | None => false end.
Definition mon_enc (t : kdf_table) (key aad : bytes) (cs : N) (data : bytes)
  (rs : list rd_act) (ws : list wr_act) (fs : list fl_act) : bool :=
  let tr := trace (snd (encrypt_chunks (PR t) key aad cs (mk_io data rs ws fs))) in
  acc (emon_run tr) && forallb (enc_ev_ok (N.to_nat cs)) tr.
Definition mon_dec (t : kdf_table) (key aad : bytes) (cs : N) (data : bytes)
  (rs : list rd_act) (ws : list wr_act) (fs : list fl_act) : bool :=
  let tr := trace (snd (decrypt_chunks (PR t) key aad cs (mk_io data rs ws fs))) in
  acc (dmon_run tr) && acc (lmon_run tr) && forallb (dec_ev_ok (N.to_nat cs)) tr.
"""

SCRYPT_MEM = 128 * 32768 * 8          # the V array of scrypt(N = 32768, r = 8): constant, independent of the input
STREAM_BOUND = 4 * BIG + BIG          # two plaintext buffers + one AEAD output + slack


def trace_lookahead(tr):
    """max over the run of (raw read calls issued) - (records flushed out): computed on an implementation trace"""
    pend = best = 0
    for t in tr:
        if t[0] in (1, 2):
            pend += 1
            best = max(best, pend)
        elif t[0] == 5:
            pend = max(0, pend - 1)
    return best


class C11(MiscProp):
    id = "C11"
    rule = ("measurement: the library encrypts a generator stream (never materialised) into a counting sink, and decrypts a "
            "temporary file produced by the library itself from a BufReader<File> into a counting sink, under a counting global "
            "allocator: sizes 0, 1, 65535, 65536, 65537, 1 MiB, 64 MiB (thorough: + 1 GiB, 4 GiB + 5 in the release build), both "
            "modes, both directions, dev and release profile, read sizes 65536 / 4096 / 100000 / 65535; oracle: peak live heap "
            "during the call <= 5*65536 (password mode: + scrypt's constant 32 MiB working array; heap sampled at every I/O call "
            "<= 5*65536 in all modes), equal within 4096 bytes for all lengths >= 128 KiB, output produced while reading "
            "(encrypt: never more than 2*65536+32 bytes read ahead of what was written; decrypt: at most one record read between "
            "two writes). model side: I/O traces (every read/write size) of enc_chunks/dec_chunks at chunk sizes 1..4 under all "
            "read partitions compared with the model, look-ahead of the model's trace compared with the implementation's, and — "
            "when Model/Monitors.v exists — the Coq monitors evaluated on the model's traces. process level: the real CLI binary fed "
            "through a pipe that is kept open (named FIFO given as FILE, /dev/stdin as FILE, plain stdin; output to -o files and, as a "
            "filter, to its stdout pipe; encrypt / decrypt, both modes): after 8 MiB and after 64 MiB (thorough 256 MiB; decrypt filters: "
            "all but the last 100 kB) the output must have reached fed - pipe capacity - two chunks while the process still waits for "
            "input, and VmRSS / VmHWM from /proc must not differ by 4 MiB between the two pauses; regular files of both sizes: ru_maxrss "
            "within 8 MiB. non-trivial = all; distinct = distinct driver lines / argv")
    assumptions = ["heap usage is what passes through Rust's global allocator (requested sizes); stack frames are fixed-size in this code",
                   "the generator reader / counting sink / capped BufReader<File> in harness/libdrv/src/mem.rs stand for arbitrary Read / Write implementations",
                   "sizes above 4 GiB + 5 are not run; the constant bound is argued for all sizes by the model's trace shape"]
    trusted_extra = ["harness/libdrv/src/zero.rs counting allocator and src/mem.rs meters"]

    def build(self, ctx):
        super().build(ctx)
        if ctx.harness_ok:
            ok, p, out = release_libdrv()
            self.rel = p if ok else None
            if not ok:
                ctx.harness_ok = False
                ctx.broken.append({"kind": "correspondence", "what": "libdrv does not build in the release profile: " + out[-300:].replace("\n", " ")})

    def run(self, ctx):
        self.measure(ctx)
        self.traces(ctx)
        self.process_streaming(ctx)

    # ---------------------------------------------------------------- the real CLI process fed through pipes
    @staticmethod
    def proc_mem(pid):
        try:
            txt = open("/proc/%d/status" % pid).read()
        except OSError:
            return None
        d = {}
        for k in ("VmRSS", "VmHWM"):
            m = re.search(r"^%s:\s+(\d+) kB" % k, txt, re.M)
            d[k] = int(m.group(1)) * 1024 if m else None
        return d

    @staticmethod
    def open_fifo_writer(path, alive, timeout=20):
        """opens a FIFO for writing without blocking for ever when the reader never shows up"""
        t0 = time.time()
        while time.time() - t0 < timeout:
            try:
                fd = os.open(path, os.O_WRONLY | os.O_NONBLOCK)
                fcntl.fcntl(fd, fcntl.F_SETFL, fcntl.fcntl(fd, fcntl.F_GETFL) & ~os.O_NONBLOCK)
                return fd
            except OSError as ex:
                if ex.errno != errno.ENXIO or not alive():
                    return None
                time.sleep(0.01)
        return None

    def feed_job(self, job):
        """starts one CLI process whose input is a pipe we hold open; writes the data up to each mark, then — with the pipe
        STILL OPEN — waits for the output file to catch up and samples the process's memory; finally closes the pipe."""
        data, marks, out = job["data"], job["marks"], job["out"]
        res = {"marks": [], "rc": None, "stderr": ""}
        errf = tempfile.TemporaryFile()
        to_stdout = out is None          # the process is a filter: its output is read from its stdout pipe and counted
        p = subprocess.Popen([vlib.CLIDRV] + job["argv"], env=cli_env(job["env"]),
                             stdin=(subprocess.PIPE if job["how"] == "stdin" else subprocess.DEVNULL),
                             stdout=(subprocess.PIPE if to_stdout else subprocess.DEVNULL), stderr=errf, start_new_session=True)
        dog = threading.Timer(120, p.kill)
        dog.start()
        got = [0]
        if to_stdout:
            def pump():
                fdo = p.stdout.fileno()
                while True:
                    try:
                        b = os.read(fdo, 1 << 20)
                    except OSError:
                        break
                    if not b:
                        break
                    got[0] += len(b)
            rd = threading.Thread(target=pump, daemon=True)
            rd.start()
        fd = None
        try:
            if job["how"] == "stdin":
                fd = p.stdin.fileno()
            else:
                fd = self.open_fifo_writer(job["fifo"], lambda: p.poll() is None)
            if fd is None:
                res["stderr"] = "the process never opened its input"
            else:
                try:
                    cap = fcntl.fcntl(fd, 1032)          # F_GETPIPE_SZ
                except OSError:
                    cap = 65536
                res["pipe_capacity"] = cap
                pos, stalled = 0, False
                for mark in marks:
                    try:
                        while pos < mark:
                            pos += os.write(fd, data[pos:min(mark, pos + (1 << 20))])
                    except OSError as ex:
                        res["stderr"] = "write to the process failed: %r" % ex
                        break
                    need = job["need"](pos, cap)
                    t0, size = time.time(), 0
                    while True:
                        try:
                            size = got[0] if to_stdout else os.path.getsize(out)
                        except OSError:
                            size = 0
                        if size >= need or p.poll() is not None or time.time() - t0 > (1.0 if stalled else 30.0):
                            break
                        time.sleep(0.02)
                    stalled = stalled or size < need
                    mem = self.proc_mem(p.pid) or {}
                    res["marks"].append({"written": pos, "output": size, "need": need, "rss": mem.get("VmRSS"), "hwm": mem.get("VmHWM"),
                                         "alive": p.poll() is None})
                try:
                    while pos < len(data) and len(res["marks"]) == len(marks):      # the rest, after the last pause
                        pos += os.write(fd, data[pos:pos + (1 << 20)])
                except OSError as ex:
                    res["stderr"] = "write to the process failed: %r" % ex
        finally:
            try:
                if job["how"] == "stdin":
                    p.stdin.close()
                elif fd is not None:
                    os.close(fd)
            except OSError:
                pass
            try:
                res["rc"] = p.wait(timeout=100)
            except subprocess.TimeoutExpired:
                p.kill()
                res["rc"] = 124
            dog.cancel()
            errf.seek(0)
            res["stderr"] += errf.read().decode("utf-8", "replace")[-300:]
            errf.close()
        if to_stdout:
            rd.join(timeout=20)
            res["final_size"] = got[0]
            return res
        try:
            res["final_size"] = os.path.getsize(out)
        except OSError:
            res["final_size"] = None
        return res

    @staticmethod
    def file_job(job):
        """a complete run over a regular file; returns (rc, peak RSS of that child in bytes)"""
        p = subprocess.Popen([vlib.CLIDRV] + job["argv"], env=cli_env(job["env"]), stdin=subprocess.DEVNULL,
                             stdout=subprocess.DEVNULL, stderr=subprocess.PIPE, start_new_session=True)
        dog = threading.Timer(120, p.kill)
        dog.start()
        err = p.stderr.read()
        _, status, ru = os.wait4(p.pid, 0)
        dog.cancel()
        p.returncode = os.waitstatus_to_exitcode(status)
        return {"rc": p.returncode, "maxrss": ru.ru_maxrss * 1024, "stderr": err.decode("utf-8", "replace")[-300:]}

    def process_streaming(self, ctx):
        MiB = 1 << 20
        LO, HI = 8 * MiB, (256 if ctx.thorough() else 64) * MiB
        GROW = 4 * MiB
        wd = tempfile.mkdtemp(prefix="kv_c11_", dir="/tmp")
        try:
            data = hashlib.shake_256(ctx.rbytes(16)).digest(HI)
            (s, spk), (r, rpk) = keypairs(ctx, 2)
            kr_text, _ = make_keyring([("stream-sender", s, spk, b"pw-s", ctx.rbytes(32)), ("stream-recipient", r, rpk, b"pw-r", ctx.rbytes(32))])
            kr = os.path.join(wd, "keyring.txt")
            open(kr, "w").write(kr_text)
            for n, name in ((LO, "lo"), (HI, "hi")):
                with open(os.path.join(wd, "plain_%s.bin" % name), "wb") as f:
                    f.write(data[:n])
            P = lambda x: os.path.join(wd, x)
            enc_need = lambda w, cap: w - cap - 2 * BIG
            dec_need = lambda w, cap: w - cap - 2 * BIG - 132 - 32 * (w // BIG + 2)
            envp, envs, envr = {"KESTREL_PASSWORD": "stream pw"}, {"KESTREL_PASSWORD": "pw-s"}, {"KESTREL_PASSWORD": "pw-r"}
            keyargs = ["-t", "stream-recipient", "-f", "stream-sender", "-k", kr, "--env-pass"]
            # phase 1: encrypt — FIFO as FILE, plain stdin, regular files
            for nm in ("fifo_pass", "fifo_key"):
                os.mkfifo(P(nm))
            feeds = [
                {"label": "password encrypt <FIFO>", "argv": ["password", "encrypt", P("fifo_pass"), "-o", P("o_fifo_pass.bin"), "--env-pass"],
                 "env": envp, "how": "fifo", "fifo": P("fifo_pass"), "out": P("o_fifo_pass.bin"), "need": enc_need, "dir": "enc"},
                {"label": "encrypt <FIFO>", "argv": ["encrypt", P("fifo_key"), "-o", P("o_fifo_key.bin")] + keyargs,
                 "env": envs, "how": "fifo", "fifo": P("fifo_key"), "out": P("o_fifo_key.bin"), "need": enc_need, "dir": "enc"},
                {"label": "password encrypt (stdin)", "argv": ["password", "encrypt", "-o", P("o_stdin_pass.bin"), "--env-pass"],
                 "env": envp, "how": "stdin", "out": P("o_stdin_pass.bin"), "need": enc_need, "dir": "enc"},
                {"label": "encrypt /dev/stdin", "argv": ["encrypt", "/dev/stdin", "-o", P("o_devstdin_key.bin")] + keyargs,
                 "env": envs, "how": "stdin", "out": P("o_devstdin_key.bin"), "need": enc_need, "dir": "enc"},
            ]
            feeds.append({"label": "password encrypt (stdin -> stdout)", "argv": ["password", "encrypt", "--env-pass"],
                          "env": envp, "how": "stdin", "out": None, "need": enc_need, "dir": "enc"})
            for j in feeds:
                j.update(data=data, marks=[LO, HI])
            files = []
            for name in ("lo", "hi"):
                files.append({"label": "password encrypt <regular file %s>" % name, "size": name, "grp": "pass-enc",
                              "argv": ["password", "encrypt", P("plain_%s.bin" % name), "-o", P("ct_pass_%s.bin" % name), "--env-pass"], "env": envp})
                files.append({"label": "encrypt <regular file %s>" % name, "size": name, "grp": "key-enc",
                              "argv": ["encrypt", P("plain_%s.bin" % name), "-o", P("ct_key_%s.bin" % name)] + keyargs, "env": envs})
            with ThreadPoolExecutor(max_workers=len(feeds) + len(files)) as ex:
                f1 = [ex.submit(self.feed_job, j) for j in feeds]
                f2 = [ex.submit(self.file_job, j) for j in files]
                r1, r2 = [f.result() for f in f1], [f.result() for f in f2]
            # phase 2: decrypt the regular-file ciphertexts — /dev/stdin as FILE, plain stdin, regular files
            feeds2, files2 = [], []
            if all(x["rc"] == 0 for x in r2):
                ctp, ctk = open(P("ct_pass_hi.bin"), "rb").read(), open(P("ct_key_hi.bin"), "rb").read()
                dmarks = lambda ct: [LO, len(ct) - BIG]
                feeds2 = [
                    {"label": "password decrypt /dev/stdin", "argv": ["password", "decrypt", "/dev/stdin", "-o", P("d_devstdin_pass.bin"), "--env-pass"],
                     "env": envp, "how": "stdin", "out": P("d_devstdin_pass.bin"), "need": dec_need, "dir": "dec", "data": ctp, "marks": dmarks(ctp)},
                    {"label": "decrypt /dev/stdin", "argv": ["decrypt", "/dev/stdin", "-t", "stream-recipient", "-o", P("d_devstdin_key.bin"), "-k", kr, "--env-pass"],
                     "env": envr, "how": "stdin", "out": P("d_devstdin_key.bin"), "need": dec_need, "dir": "dec", "data": ctk, "marks": dmarks(ctk)},
                    {"label": "password decrypt (stdin)", "argv": ["password", "decrypt", "-o", P("d_stdin_pass.bin"), "--env-pass"],
                     "env": envp, "how": "stdin", "out": P("d_stdin_pass.bin"), "need": dec_need, "dir": "dec", "data": ctp, "marks": dmarks(ctp)},
                ]
                # filters (no -o): the last 100 kB of the ciphertext are withheld at the second pause
                fmarks = lambda ct: [LO, len(ct) - 100000]
                feeds2 += [
                    {"label": "password decrypt (stdin -> stdout)", "argv": ["password", "decrypt", "--env-pass"],
                     "env": envp, "how": "stdin", "out": None, "need": dec_need, "dir": "dec", "data": ctp, "marks": fmarks(ctp)},
                    {"label": "decrypt (stdin -> stdout)", "argv": ["decrypt", "-t", "stream-recipient", "-k", kr, "--env-pass"],
                     "env": envr, "how": "stdin", "out": None, "need": dec_need, "dir": "dec", "data": ctk, "marks": fmarks(ctk)},
                    {"label": "decrypt /dev/stdin -> stdout", "argv": ["decrypt", "/dev/stdin", "-t", "stream-recipient", "-k", kr, "--env-pass"],
                     "env": envr, "how": "stdin", "out": None, "need": dec_need, "dir": "dec", "data": ctk, "marks": fmarks(ctk)},
                ]
                os.mkfifo(P("fifo_dec"))
                feeds2.append({"label": "decrypt <FIFO>", "argv": ["decrypt", P("fifo_dec"), "-t", "stream-recipient", "-o", P("d_fifo_key.bin"), "-k", kr, "--env-pass"],
                               "env": envr, "how": "fifo", "fifo": P("fifo_dec"), "out": P("d_fifo_key.bin"), "need": dec_need, "dir": "dec", "data": ctk, "marks": dmarks(ctk)})
                for name in ("lo", "hi"):
                    files2.append({"label": "password decrypt <regular file %s>" % name, "size": name, "grp": "pass-dec",
                                   "argv": ["password", "decrypt", P("ct_pass_%s.bin" % name), "-o", P("d_pass_%s.bin" % name), "--env-pass"], "env": envp})
                    files2.append({"label": "decrypt <regular file %s>" % name, "size": name, "grp": "key-dec",
                                   "argv": ["decrypt", P("ct_key_%s.bin" % name), "-t", "stream-recipient", "-o", P("d_key_%s.bin" % name), "-k", kr, "--env-pass"], "env": envr})
                with ThreadPoolExecutor(max_workers=len(feeds2) + len(files2)) as ex:
                    f1 = [ex.submit(self.feed_job, j) for j in feeds2]
                    f2 = [ex.submit(self.file_job, j) for j in files2]
                    r1 += [f.result() for f in f1]
                    r2 += [f.result() for f in f2]
            seed_note = "input = SHAKE-256 stream from the run's seed; %d bytes, pauses after %d and at the end with the pipe still open" % (HI, LO)
            for j, res in zip(feeds + feeds2, r1):
                inp = {"driver": "cli-process", "argv": j["argv"], "env": j["env"], "input_via": j["how"] + (" (named FIFO given as FILE)" if j["how"] == "fifo" else " pipe"),
                       "note": seed_note, "marks": j["marks"]}
                self.ran(ctx, "process/%s" % j["label"])
                if not self.check(ctx, res["rc"] == 0 and len(res["marks"]) == len(j["marks"]), inp, "the CLI run succeeds",
                                  "rc=%s %s %s" % (res["rc"], res["stderr"][-200:], res["marks"])):
                    continue
                for m in res["marks"]:
                    self.check(ctx, m["output"] >= m["need"], inp,
                               "incremental output: with %d bytes fed and the input STILL OPEN the output (file, or the stdout pipe of a filter) reaches >= %d bytes "
                               "(fed - pipe capacity - two chunks%s) within 30 s" % (m["written"], m["need"], "" if j["dir"] == "enc" else " - ciphertext overhead"),
                               "output has %d bytes (process %s)" % (m["output"], "alive" if m["alive"] else "exited"))
                a, b = res["marks"][0], res["marks"][-1]
                if a["rss"] and b["rss"]:
                    self.check(ctx, b["rss"] - a["rss"] < GROW and b["hwm"] - a["hwm"] < GROW, inp,
                               "resident memory does not grow with the input: VmRSS / VmHWM after %d bytes within %d bytes of the values after %d bytes"
                               % (b["written"], GROW, a["written"]),
                               "VmRSS %d -> %d, VmHWM %d -> %d" % (a["rss"], b["rss"], a["hwm"], b["hwm"]))
                    self.count(ctx, "process-rss-growth-KiB:%s=%d" % (j["label"], (b["rss"] - a["rss"]) // 1024))
                else:
                    self.count(ctx, "process-memory-not-sampled:" + j["label"])
                if j["dir"] == "dec":
                    self.count(ctx, "process-decrypt-output-complete:%s" % ("yes" if res["final_size"] == HI else "NO"))
                self.sample(ctx, {"gen": "process", "label": j["label"], "marks": res["marks"]})
            grp = collections.defaultdict(dict)
            for j, res in zip(files + files2, r2):
                inp = {"driver": "cli-process", "argv": j["argv"], "env": j["env"], "note": "regular file of %d bytes" % (LO if j["size"] == "lo" else HI)}
                self.ran(ctx, "process/%s" % j["label"])
                if self.check(ctx, res["rc"] == 0, inp, "the CLI run succeeds", "rc=%s %s" % (res["rc"], res["stderr"][-200:])):
                    grp[j["grp"]][j["size"]] = (res["maxrss"], inp)
            for g, d in grp.items():
                if "lo" in d and "hi" in d:
                    self.check(ctx, d["hi"][0] - d["lo"][0] < 2 * GROW, d["hi"][1],
                               "peak resident memory (ru_maxrss) for a %d-byte file within %d bytes of that for a %d-byte file" % (HI, 2 * GROW, LO),
                               "maxrss %d vs %d" % (d["hi"][0], d["lo"][0]))
                    self.count(ctx, "file-maxrss-growth-KiB:%s=%d" % (g, (d["hi"][0] - d["lo"][0]) // 1024))
        finally:
            shutil.rmtree(wd, ignore_errors=True)

    def measure(self, ctx):
        MiB = 1 << 20
        small = [0, 1, BIG - 1, BIG, BIG + 1, 2 * BIG, MiB, 64 * MiB]
        huge = [1024 * MiB, 4096 * MiB + 5] if ctx.thorough() else []
        ops = ["mem_key_enc", "mem_key_dec", "mem_pass_enc", "mem_pass_dec"]
        extra = [(MiB, 4096), (MiB, 100000), (3 * MiB, BIG - 1), (MiB + 17, 1)] if ctx.thorough() else [(MiB, 4096), (MiB, 100000), (3 * MiB, BIG - 1)]
        jobs = []
        for prof, binp in (("dev", ctx.bin), ("release", self.rel)):
            for op in ops:
                lines = ["%s %d %d" % (op, n, BIG) for n in small] + ["%s %d %d" % (op, n, rsz) for n, rsz in extra if not (rsz == 1 and prof == "dev")]
                jobs.append((prof, binp, op, lines))
                for n in huge:
                    if prof == "release":
                        jobs.append((prof, binp, op, ["%s %d %d" % (op, n, BIG)]))
        with ThreadPoolExecutor(max_workers=vlib.NPROC) as ex:
            outs = list(ex.map(lambda j: drv(j[1], j[3], timeout=3000), jobs))
        groups = collections.defaultdict(list)
        for (prof, binp, op, lines), rs in zip(jobs, outs):
            for line, r in zip(lines, rs):
                _, n, rsz = line.split()
                n, rsz = int(n), int(rsz)
                inp = {"driver": "libdrv", "profile": prof, "lines": [line], "oracle": "mem"}
                self.ran(ctx, "measure/%s/%s" % (prof, op))
                self.count(ctx, "size:%s" % ("0" if n == 0 else "<64KiB" if n < BIG else "64KiB..1MiB" if n <= MiB else "64MiB" if n <= 64 * MiB else ">=1GiB"))
                bad = self.mem_oracle(op, n, rsz, r)
                ctx.oracle_checks += 1
                if bad:
                    ctx.violations.append({"input": inp, "expected": bad[0], "observed": bad[1] + "  [" + r["raw"][:400] + "]", "finding_key": None})
                    continue
                if rsz == BIG and n >= 2 * BIG:
                    groups[(prof, op)].append((n, int(r["peak"]), int(r["iopeak"]), line))
                if n > 64 * MiB or (n == 64 * MiB and prof == "release"):
                    self.sample(ctx, {"gen": "measure", "profile": prof, "line": line, "peak": int(r["peak"]), "iopeak": int(r["iopeak"]),
                                      "maxlag": int(r["maxlag"]), "maxgap": int(r["maxgap"]), "written": int(r["written"])})
        for (prof, op), g in groups.items():
            pk, io = [x[1] for x in g], [x[2] for x in g]
            inp = {"driver": "libdrv", "profile": prof, "lines": [x[3] for x in g], "oracle": "indep"}
            self.check(ctx, max(pk) - min(pk) < 4096 and max(io) - min(io) < 4096, inp,
                       "peak heap independent of the input length (within 4096 bytes) over lengths %s" % [x[0] for x in g],
                       "peak %s iopeak %s" % (pk, io))
            self.count(ctx, "peak:%s/%s=%d" % (prof, op, max(pk)))

    @staticmethod
    def mem_oracle(op, n, rsz, r):
        if r.get("outcome") != "ok":
            return ("the operation succeeds", r.get("outcome"))
        g = lambda k: int(r.get(k, "-1"))
        key_mode = "key" in op
        hdr = 132 if key_mode else 36
        eff = min(rsz, BIG)
        nrec = max(1, -(-n // eff)) if op.endswith("enc") else max(1, -(-n // BIG))
        if g("iopeak") > STREAM_BOUND:
            return ("heap held across I/O calls <= %d bytes whatever the length" % STREAM_BOUND, "iopeak=%d" % g("iopeak"))
        lim = STREAM_BOUND + (0 if key_mode else SCRYPT_MEM)
        if g("peak") > lim:
            return ("peak heap during the call <= %d bytes whatever the length" % lim, "peak=%d" % g("peak"))
        if op.endswith("enc"):
            if g("read") != n or g("written") != hdr + 32 * nrec + n:
                return ("reads the whole input (%d) and writes %d + 32*%d + %d bytes" % (n, hdr, nrec, n), "read=%d written=%d" % (g("read"), g("written")))
            if g("maxlag") > 2 * BIG + 32 or g("maxgap") > 2 * BIG:
                return ("each chunk is written before more than two further chunks are read (lag <= %d, gap <= %d)" % (2 * BIG + 32, 2 * BIG),
                        "maxlag=%d maxgap=%d" % (g("maxlag"), g("maxgap")))
        else:
            if r.get("match") != "1" or g("written") != n:
                return ("decryption returns exactly the %d generated bytes" % n, "match=%s written=%d" % (r.get("match"), g("written")))
            gap = BIG + 32 + hdr + 1
            lag = BIG + hdr + 32 * (nrec + 1) + 1
            if g("maxgap") > gap or g("maxlag") > lag:
                return ("at most one record is read between two writes (gap <= %d; read-minus-written <= %d = one chunk + ciphertext overhead so far)" % (gap, lag),
                        "maxlag=%d maxgap=%d" % (g("maxlag"), g("maxgap")))
        return None

    def recheck_mem(self, inp, rs):
        op, n, rsz = inp["lines"][0].split()
        return self.mem_oracle(op, int(n), int(rsz), rs[0]) is None

    # ---------------------------------------------------------------- trace shape vs the model
    def traces(self, ctx):
        rng = ctx.rng
        full = ctx.thorough()
        encs = []
        for cs in ([1, 2, 3, 4] if full else [2, 3]):
            key, aad = ctx.rbytes(32), rng.choice([b"", PASS_MAGIC])
            for n in range(0, 10 if full else 8):
                P = ctx.rbytes(n)
                for parts in all_partitions(n, cs):
                    ws = rng.choice(["-", "c1,c1,c1,c3", "c3,c5,c1", "c100"])
                    encs.append(Case("enc_chunks", key=key, aad=aad, cs=cs, data=P, rs=script_of(parts), ws=ws, tags=["enc-trace", "cs=%d" % cs]))
        if len(encs) > (1200 if full else 300):
            encs = rng.sample(encs, 1200 if full else 300)
        vlib.run_impl(ctx.bin, encs)
        decs = []
        for c in encs:
            if c.result["code"] == 0:
                rs = rng.choice(["-", "c1,c1,c1,c1,c1,c1,c1", "c5,c1,c7,c2", "c16,c1", "c3,c3,c3,c3,c3,c3,c3,c3,c3,c3,c3,c3"])
                decs.append(Case("dec_chunks", key=c.a["key"], aad=c.a["aad"], cs=c.a["cs"], data=c.result["out"], rs=rs,
                                 ws=rng.choice(["-", "c1,c1", "c2,c1,c1"]), tags=["dec-trace", "cs=%d" % c.a["cs"]]))

        def enc_orc(c):
            def f(res):
                cs = c.a["cs"]
                if res["code"] != 0:
                    return ("encryption over a conforming source/sink succeeds", res["outcome"])
                for t in res["trace"]:
                    if t[0] == 1 and t[1] > cs:
                        return ("no read request larger than the chunk size %d" % cs, "read request of %d" % t[1])
                    if t[0] == 3 and t[1] > cs + 16:
                        return ("no write larger than chunk + tag", "write of %d" % t[1])
                la = trace_lookahead(res["trace"])
                if la > 2:
                    return ("at most 2 read calls are outstanding (chunk held + look-ahead) before a record is flushed", "%d outstanding" % la)
                return None
            return f

        def dec_orc(c):
            def f(res):
                cs = c.a["cs"]
                if res["code"] != 0:
                    return ("decryption of the implementation's own file succeeds", res["outcome"])
                since = 0
                for t in res["trace"]:
                    if t[0] == 1:
                        if t[1] > cs + 16:
                            return ("no read request larger than chunk + tag", "read request of %d" % t[1])
                        since += t[2]
                        if since > 16 + cs + 16 + 1:
                            return ("at most one record (+ the 1-byte probe) is read before its plaintext is flushed", "%d bytes read since the last flush" % since)
                    elif t[0] == 3 and t[1] > cs:
                        return ("no write larger than the chunk size", "write of %d" % t[1])
                    elif t[0] == 5:
                        since = 0
                return None
            return f
        for c in encs:
            c.expect_fn = enc_orc(c)
        for c in decs:
            c.expect_fn = dec_orc(c)
        allc = encs + decs
        self.run_cases(ctx, allc, model=True)
        # look-ahead computed on the model's trace = computed on the implementation's trace
        args = lambda c: "[] %s %s %d %s %s %s %s" % (g_bytes(c.a["key"]), g_bytes(c.a["aad"]), c.a["cs"], g_bytes(c.a["data"]),
                                                      g_rscript(c.a.get("rs", "-")), vlib.g_wscript(c.a.get("ws", "-")), vlib.g_fscript(c.a.get("fs", "-")))
        sel = encs if full else encs[::3]
        items = [(i, "(enc_lookahead %s =? %d)" % (args(c), trace_lookahead(c.result["trace"]))) for i, c in enumerate(sel)]
        res, log = coq_eval(ctx.pid + "l", items)
        self.model_results(ctx, "enc-lookahead", items, res, log, dict((i, c.full()) for i, c in enumerate(sel)),
                           dict((i, "lookahead=%d %s" % (trace_lookahead(c.result["trace"]), c.result["raw"][:300])) for i, c in enumerate(sel)))
        if coq_has("Model/Monitors.v"):
            sel = allc if full else allc[::2]
            items = [(i, "mon_%s %s" % ("enc" if c.op == "enc_chunks" else "dec", args(c))) for i, c in enumerate(sel)]
            res, log = coq_eval(ctx.pid + "m", items, preamble=MON_PREAMBLE)
            self.model_results(ctx, "monitors", items, res, log, dict((i, c.full()) for i, c in enumerate(sel)),
                               dict((i, "trace compared separately; the model's monitors must accept") for i, c in enumerate(sel)))
        else:
            self.count(ctx, "skipped:monitors(Model/Monitors.v absent)")


# =========================================================================== C18
SCRYPT_PREAMBLE = """From Kestrel.Spec Require Import Salsa Scrypt Pbkdf2.
From Kestrel.Model Require ScryptImpl.
Definition pb1 (pw s : bytes) (l : nat) : bytes := pbkdf2 pw s 1 l.
(* RFC 7914 transcription (Spec/Scrypt.v) over the Gallina PBKDF2-HMAC-SHA256 *)
Definition run_scrypt_small (pw salt : bytes) (n r p l : N) : obs :=
  pure_obs 0 (Scrypt.scrypt pb1 pw salt (N.to_nat n) (N.to_nat r) (N.to_nat p) (N.to_nat l)).
(* line-by-line model of src/crypto/src/scrypt.rs (Model/ScryptImpl.v) *)
Definition run_scrypt_impl (pw salt : bytes) (n r p l : N) : obs :=
  match ScryptImpl.scrypt pb1 pw salt n r p l with
  | Ok b => pure_obs 0 b | Panic _ => pure_obs 1 [] | _ => pure_obs 2 [] end.
Definition run_romix (r n : N) (b : bytes) : obs := pure_obs 0 (scryptROMix (N.to_nat r) b (N.to_nat n)).
Definition run_blockmix (r : N) (b : bytes) : obs := pure_obs 0 (scryptBlockMix (N.to_nat r) b).
Definition run_salsa (b : bytes) : obs := pure_obs 0 (salsa20_8_bytes b).
"""

M32 = 0xffffffff


def _rotl(x, n):
    return ((x << n) & M32) | (x >> (32 - n))


def py_salsa20_8(b):
    """RFC 7914 section 3 (Salsa20/8 core) on 64 bytes"""
    w = [int.from_bytes(b[4 * i:4 * i + 4], "little") for i in range(16)]
    x = list(w)
    for _ in range(4):
        for (a, bb, c, d) in ((0, 4, 8, 12), (5, 9, 13, 1), (10, 14, 2, 6), (15, 3, 7, 11),
                              (0, 1, 2, 3), (5, 6, 7, 4), (10, 11, 8, 9), (15, 12, 13, 14)):
            x[bb] ^= _rotl((x[a] + x[d]) & M32, 7)
            x[c] ^= _rotl((x[bb] + x[a]) & M32, 9)
            x[d] ^= _rotl((x[c] + x[bb]) & M32, 13)
            x[a] ^= _rotl((x[d] + x[c]) & M32, 18)
    return b"".join(((x[i] + w[i]) & M32).to_bytes(4, "little") for i in range(16))


def _xor(a, b):
    return bytes(x ^ y for x, y in zip(a, b))


def py_blockmix(B, r):
    X = B[(2 * r - 1) * 64:2 * r * 64]
    Y = []
    for i in range(2 * r):
        X = py_salsa20_8(_xor(X, B[64 * i:64 * i + 64]))
        Y.append(X)
    return b"".join(Y[0::2]) + b"".join(Y[1::2])


def py_romix(B, N, r):
    X, V = B, []
    for _ in range(N):
        V.append(X)
        X = py_blockmix(X, r)
    for _ in range(N):
        j = int.from_bytes(X[(2 * r - 1) * 64:(2 * r - 1) * 64 + 64], "little") % N
        X = py_blockmix(_xor(X, V[j]), r)
    return X


def py_scrypt(pw, salt, N, r, p, dklen):
    B = hashlib.pbkdf2_hmac("sha256", pw, salt, 1, p * 128 * r)
    B = b"".join(py_romix(B[128 * r * i:128 * r * (i + 1)], N, r) for i in range(p))
    return hashlib.pbkdf2_hmac("sha256", pw, B, 1, dklen)


def ref_scrypt(pw, salt, N, r, p, dklen):
    if hasattr(hashlib, "scrypt"):
        return hashlib.scrypt(pw, salt=salt, n=N, r=r, p=p, dklen=dklen, maxmem=2 ** 31 - 1)
    return py_scrypt(pw, salt, N, r, p, dklen)


class C18(MiscProp):
    id = "C18"
    rule = ("library: scrypt(pw, salt, N, r, p, dkLen) for the full grid N in {2,4,..,1024} x r in 1..4 x p in 1..3 x dkLen in "
            "{1,16,31,32,33,64,100,200} (thorough: N up to 2^15, r up to 16, p up to 8; full grid below N = 2048, random sample above), "
            "password/salt lengths 0..70 (incl. 0, 63, 64, 65), compared with OpenSSL's scrypt (hashlib.scrypt) and, for small "
            "parameters, with a pure-Python transcription of RFC 7914 that is itself checked against OpenSSL and the RFC vectors; "
            "the internals (salsa_xor, block_mix, smix hooks) against the RFC's Salsa20/8, BlockMix, ROMix on random and "
            "extreme blocks; when Spec/Scrypt.v and Model/ScryptImpl.v exist also against both Gallina versions (N <= 64, r <= 2). "
            "C ABI: the cdylib built from the working tree called through ctypes with 0xA5 guard zones and a 0x5A-prefilled output "
            "buffer: output = the RFC value, guards intact, exactly dkLen bytes written, for requests with r != p, "
            "|pw| != |salt|, pw != salt, dkLen in {1,31,32,33,64,200}; passwords of 1..100 bytes ending in one / two NUL bytes (library and C ABI); in-place use "
            "(the output region placed inside the salt buffer resp. the password buffer at several offsets and lengths: the value is that of the "
            "ORIGINAL inputs, the rest of the aliased buffer unchanged). non-trivial = all; distinct = distinct requests")
    assumptions = ["OpenSSL's EVP scrypt (through Python's hashlib) is the reference RFC 7914 implementation",
                   "parameters outside the documented domain (N not a power of two or < 2, r = 0, p = 0, dkLen = 0) are not exercised",
                   "the C ABI check sees writes within 64 bytes before / after the output buffer; stray writes elsewhere are not observable"]
    trusted_extra = ["harness/ffidrv/call.py (ctypes caller with guard zones)", "Python hashlib (OpenSSL) scrypt and PBKDF2"]

    def run(self, ctx):
        if not self.selftest(ctx):
            return
        self.library(ctx)
        self.internals(ctx)
        self.ffi(ctx)

    def selftest(self, ctx):
        ok = True
        try:
            v = py_scrypt(b"", b"", 16, 1, 1, 64).hex()
            ok = v.startswith("77d6576238657b203b19ca42c18a0497f16b4844e3074ae8dfdffa3fede21442")
            ok = ok and py_scrypt(b"password", b"NaCl", 64, 2, 2, 40) == ref_scrypt(b"password", b"NaCl", 64, 2, 2, 40)
            ok = ok and ref_scrypt(b"password", b"NaCl", 1024, 8, 16, 64).hex().startswith("fdbabe1c9d3472007856e7190d01e9fe7c6ad7cbc8237830e77376634b373162")
            sal = bytes.fromhex("7e879a214f3ec9867ca940e641718f26baee555b8c61c1b50df846116dcd3b1dee24f319df9b3d8514121e4b5ac5aa3276021d2909c74829edebc68db8b8c25e")
            ok = ok and py_salsa20_8(sal).hex().startswith("a41f859c6608cc993b81cacb020cef05044b2181a2fd337dfd7b1c6396682f29")
        except Exception as ex:   # noqa
            ok = False
            self.machinery(ctx, "reference scrypt unavailable: %r" % ex)
            return False
        if not ok:
            self.machinery(ctx, "the reference implementations (hashlib.scrypt / pure-Python RFC 7914) fail the RFC 7914 vectors")
        self.count(ctx, "reference:" + ("hashlib.scrypt(OpenSSL)" if hasattr(hashlib, "scrypt") else "pure-python"))
        return ok

    def plen(self, ctx):
        return ctx.rng.choice([0, 0, 1, 2, 8, 31, 32, 33, 55, 56, 63, 64, 65, 70, ctx.rng.randrange(0, 71)])

    def library(self, ctx):
        rng = ctx.rng
        full = ctx.thorough()
        DK = [1, 16, 31, 32, 33, 64, 100, 200]
        grid = []
        Ns = [2 ** k for k in range(1, 11)]
        if full:
            for N in Ns:
                for r in range(1, 17):
                    for p in range(1, 9):
                        for dk in (DK if r <= 4 and p <= 3 else [rng.choice(DK)]):
                            grid.append((N, r, p, dk))
            for N in (2048, 4096, 8192, 16384, 32768):
                for _ in range(60):
                    r, p = rng.randrange(1, 17), rng.randrange(1, 9)
                    if N * r * p > 32768 * 16 * 2 and rng.random() < 0.7:
                        p = 1
                    grid.append((N, r, p, rng.choice(DK)))
                grid.append((N, 8, 1, 32))
            grid += [(32768, 16, 8, 33), (32768, 1, 8, 200), (32768, 16, 1, 1)]
        else:
            for N in Ns:
                for r in range(1, 5):
                    for p in range(1, 4):
                        for dk in DK:
                            grid.append((N, r, p, dk))
            grid += [(32768, 8, 1, 32), (16384, 3, 2, 33), (4096, 16, 1, 31), (2048, 5, 8, 200)]
        cases = []
        for (N, r, p, dk) in grid:
            pw, salt = ctx.rbytes(self.plen(ctx)), ctx.rbytes(self.plen(ctx))
            cases.append((pw, salt, N, r, p, dk))
        # passwords around and above the 64-byte HMAC block, ending in a NUL byte and not (above 64 bytes the key is hashed
        # first, so a dropped / added trailing NUL changes the result; up to 64 bytes zero padding hides it)
        for ln in (63, 64, 65, 80, 100):
            for last in (b"\x00", b"\x00\x00", b"z"):
                pw = ctx.rbytes(ln - len(last)) + last
                cases.append((pw, ctx.rbytes(rng.choice([0, 8, 32])), rng.choice([2, 16, 64]), rng.choice([1, 2]), rng.choice([1, 2]), rng.choice([16, 32, 33])))
        cases += [(b"", b"", 16, 1, 1, 64), (b"password", b"NaCl", 1024, 8, 16, 64), (b"pleaseletmein", b"SodiumChloride", 16384, 8, 1, 64),
                  (b"x" * 65, b"y" * 129, 4, 1, 1, 200), (b"\x00" * 64, b"\x00", 2, 1, 1, 1)]
        lines = ["scrypt %s %s %d %d %d %d" % (hexs(pw), hexs(salt), N, r, p, dk) for (pw, salt, N, r, p, dk) in cases]
        # split over several driver processes (wall time)
        nsh = vlib.NPROC
        shards = [list(range(k, len(lines), nsh)) for k in range(nsh)]
        with ThreadPoolExecutor(max_workers=nsh) as ex:
            outs = list(ex.map(lambda idx: drv(ctx.bin, [lines[i] for i in idx], timeout=3000), shards))
            refs = list(ex.map(lambda c: ref_scrypt(*c), cases))
        res = [None] * len(lines)
        for idx, rs in zip(shards, outs):
            for i, r_ in zip(idx, rs):
                res[i] = r_
        small = []
        for i, (c, line, r_, want) in enumerate(zip(cases, lines, res, refs)):
            pw, salt, N, r, p, dk = c
            inp = {"driver": "libdrv", "lines": [line], "oracle": "scrypt"}
            self.ran(ctx, "library/N=%d" % N)
            self.count(ctx, "r=%d" % r)
            self.count(ctx, "p=%d" % p)
            self.count(ctx, "dkLen=%d" % dk)
            self.count(ctx, "pwlen:%s" % ("0" if not pw else "1..63" if len(pw) < 64 else "64" if len(pw) == 64 else ">64"))
            got = unhex(r_.get("out", "-")) if r_.get("outcome") == "ok" else None
            self.check(ctx, got == want, inp, "RFC 7914 value (OpenSSL): " + want.hex(), r_["raw"][:500])
            if N <= 16 and r <= 2 and p <= 2 and dk <= 64:
                ctx.oracle_checks += 1
                if py_scrypt(*c) != want:
                    self.machinery(ctx, "pure-Python RFC 7914 and OpenSSL disagree on %s" % line)
            if N <= 64 and r <= 2 and got is not None:
                small.append((i, c, r_))
            if i % max(1, len(cases) // 5) == 0:
                self.sample(ctx, {"gen": "library", "line": line[:160], "implementation": r_.get("out", r_.get("outcome"))[:80], "reference": want.hex()[:80]})
        if coq_has("Spec/Scrypt.v", "Model/ScryptImpl.v", "Spec/Salsa.v", "Spec/Pbkdf2.v"):
            if not full and len(small) > 160:
                small = rng.sample(small, 160)
            items, inputs, impls = [], {}, {}
            for (i, (pw, salt, N, r, p, dk), r_) in small:
                a = "%s %s %d %d %d %d" % (g_bytes(pw), g_bytes(salt), N, r, p, dk)
                o = "(O_ 0 %s 0 [] [])" % g_bytes(unhex(r_["out"]))
                items.append((i, "obs_eqb (run_scrypt_small %s) %s && obs_eqb (run_scrypt_impl %s) %s" % (a, o, a, o), N * r * p + 4))
                inputs[i] = {"driver": "libdrv", "lines": [lines[i]]}
                impls[i] = r_["raw"][:300]
            res_m, log = coq_eval(ctx.pid + "g", items, preamble=SCRYPT_PREAMBLE)
            self.model_results(ctx, "gallina-scrypt(spec+impl)", items, res_m, log, inputs, impls)
        else:
            self.count(ctx, "skipped:gallina-scrypt(Spec/Scrypt.v or Model/ScryptImpl.v absent)")

    def recheck_scrypt(self, inp, rs):
        _, pw, salt, N, r, p, dk = inp["lines"][0].split()
        return rs[0].get("outcome") == "ok" and unhex(rs[0]["out"]) == ref_scrypt(unhex(pw), unhex(salt), int(N), int(r), int(p), int(dk))

    def internals(self, ctx):
        rng = ctx.rng
        full = ctx.thorough()
        lines, want, kind = [], [], []
        blocks = [bytes(64), b"\xff" * 64, bytes(range(64))] + [ctx.rbytes(64) for _ in range(400 if full else 60)]
        for b in blocks:
            tmp = rng.choice([bytes(64), b"\xff" * 64, ctx.rbytes(64)])
            lines.append("salsa_xor %s %s" % (hexs(tmp), hexs(b)))
            o = py_salsa20_8(_xor(tmp, b))
            want.append(o + o)          # tmp after || out
            kind.append("salsa_xor")
        for r in range(1, 17 if full else 5):
            for _ in range(6 if full else 4):
                b = ctx.rbytes(128 * r) if rng.random() < 0.9 else bytes(128 * r)
                lines.append("block_mix %d %s" % (r, hexs(b)))
                want.append(py_blockmix(b, r))
                kind.append("block_mix")
        for (r, N) in ([(1, 2), (1, 4), (1, 16), (2, 2), (2, 8), (3, 4), (4, 16), (1, 64), (2, 32)] +
                       ([(r, N) for r in (1, 2, 3, 5, 8) for N in (2, 4, 8, 16, 32, 64, 128)] + [(16, 8), (1, 512)] if full else [])):
            for _ in range(2):
                b = ctx.rbytes(128 * r)
                lines.append("smix %d %d %s" % (r, N, hexs(b)))
                want.append(py_romix(b, N, r))
                kind.append("smix")
        res = drv(ctx.bin, lines)
        items, inputs, impls = [], {}, {}
        for i, (line, w, k, r_) in enumerate(zip(lines, want, kind, res)):
            inp = {"driver": "libdrv", "lines": [line], "oracle": None}
            self.ran(ctx, "internals/" + k)
            got = unhex(r_.get("out", "-")) if r_.get("outcome") == "ok" else None
            self.check(ctx, got == w, inp, {"salsa_xor": "tmp' = out = Salsa20/8(tmp xor in)", "block_mix": "scryptBlockMix (RFC 7914 section 4)",
                                            "smix": "scryptROMix (RFC 7914 section 5)"}[k] + ": " + w.hex()[:160], r_["raw"][:400])
            if got is None:
                continue
            t = line.split()
            if k == "salsa_xor":
                term = "obs_eqb (run_salsa %s) (O_ 0 %s 0 [] [])" % (g_bytes(_xor(unhex(t[1]), unhex(t[2]))), g_bytes(got[64:]))
            elif k == "block_mix":
                term = "obs_eqb (run_blockmix %s %s) (O_ 0 %s 0 [] [])" % (t[1], g_bytes(unhex(t[2])), g_bytes(got))
            else:
                if int(t[1]) * int(t[2]) > 128:
                    continue
                term = "obs_eqb (run_romix %s %s %s) (O_ 0 %s 0 [] [])" % (t[1], t[2], g_bytes(unhex(t[3])), g_bytes(got))
            items.append((i, term, len(term)))
            inputs[i], impls[i] = inp, r_["raw"][:300]
        if coq_has("Spec/Scrypt.v", "Model/ScryptImpl.v", "Spec/Salsa.v"):
            res_m, log = coq_eval(ctx.pid + "i", items, preamble=SCRYPT_PREAMBLE)
            self.model_results(ctx, "gallina-internals", items, res_m, log, inputs, impls)

    def ffi(self, ctx):
        rng = ctx.rng
        full = ctx.thorough()
        if not os.path.exists(vlib.FFI_SO):
            ctx.broken.append({"kind": "correspondence", "what": "the FFI library was not built: " + vlib.FFI_SO})
            return
        reqs = []
        for dk in (1, 31, 32, 33, 64, 200):
            for k in range(6 if full else 3):
                while True:
                    r, p = rng.randrange(1, 9 if full else 5), rng.randrange(1, 9 if full else 4)
                    lp, ls = self.plen(ctx), self.plen(ctx)
                    if r != p and lp != ls:
                        break
                N = rng.choice([2, 4, 16, 64, 256, 1024] + ([4096, 32768] if full else []))
                if N >= 4096:
                    r, p = (8, 1) if N == 32768 else (r, p)
                reqs.append({"pw": ctx.rbytes(lp).hex(), "salt": ctx.rbytes(ls).hex(), "n": N, "r": r, "p": p, "dklen": dk, "guard": rng.choice([16, 64])})
        # arguments whose exchange would go unnoticed by random data alone: equal lengths but different content; empty one side
        reqs += [{"pw": "aa" * 7, "salt": "bb" * 7, "n": 8, "r": 3, "p": 2, "dklen": 32, "guard": 64},
                 {"pw": "", "salt": "cc" * 9, "n": 8, "r": 2, "p": 3, "dklen": 33, "guard": 64},
                 {"pw": "dd" * 9, "salt": "", "n": 4, "r": 1, "p": 5, "dklen": 31, "guard": 64},
                 {"pw": "70617373776f7264", "salt": "4e61436c", "n": 1024, "r": 8, "p": 16, "dklen": 64, "guard": 64}]
        # passwords ending in NUL (and salts), at and above the HMAC block size
        for ln in (1, 8, 64, 65, 80, 100):
            for last in ("00", "0000", "7a"):
                pw = ctx.rbytes(ln - len(last) // 2).hex() + last
                reqs.append({"pw": pw, "salt": ctx.rbytes(rng.choice([4, 65])).hex() + rng.choice(["", "00"]), "n": rng.choice([2, 16]), "r": 2, "p": 1,
                             "dklen": rng.choice([16, 33]), "guard": 32})
        # in-place use: the output region lies inside the salt / the password buffer; the result must be that of the ORIGINAL inputs
        for which in ("salt", "pw"):
            for (ln, off, dk) in ((32, 0, 32), (32, 0, 16), (16, 0, 64), (40, 8, 32), (64, 0, 64), (100, 36, 64), (5, 3, 1)):
                src, other = ctx.rbytes(ln).hex(), ctx.rbytes(rng.choice([0, 9, 70])).hex()
                reqs.append({"pw": src if which == "pw" else other, "salt": src if which == "salt" else other, "n": rng.choice([2, 16, 256]),
                             "r": rng.choice([1, 3]), "p": 2, "dklen": dk, "guard": 32, "alias": which, "alias_off": off})
        outs = ffi_call([dict(r) for r in reqs])
        lib = drv(ctx.bin, ["scrypt %s %s %d %d %d %d" % (r["pw"] or "-", r["salt"] or "-", r["n"], r["r"], r["p"], r["dklen"]) for r in reqs])
        for r, o, l in zip(reqs, outs, lib):
            inp = {"driver": "ffidrv/call.py", "ffi": r}
            self.ran(ctx, "ffi/dkLen=%d" % r["dklen"])
            want = ref_scrypt(bytes.fromhex(r["pw"]), bytes.fromhex(r["salt"]), r["n"], r["r"], r["p"], r["dklen"])
            self.check(ctx, o.get("out") == want.hex(), inp, "the C function writes the RFC 7914 value " + want.hex()[:128], json.dumps(o)[:500])
            self.check(ctx, o.get("guard_ok") is True, inp, "nothing outside the dkLen output bytes is written (guard zones intact)", json.dumps(o)[:300])
            if r.get("alias"):
                self.count(ctx, "ffi-output-aliases-%s" % r["alias"])
                self.check(ctx, o.get("rest_ok") is True, inp, "in-place use: the bytes of the aliased %s buffer outside the output range are unchanged" % r["alias"],
                           json.dumps(o)[:300])
            if len(r["pw"]) >= 2 and r["pw"].endswith("00"):
                self.count(ctx, "ffi-password-ends-in-NUL/len%s64" % ("<=" if len(r["pw"]) // 2 <= 64 else ">"))
            self.check(ctx, l.get("outcome") == "ok" and l.get("out") == o.get("out"), inp, "C ABI value = library value", "library: " + l["raw"][:200])
            # a swapped argument pair must give a different reference value, else the request could not expose the swap
            alt = ref_scrypt(bytes.fromhex(r["salt"]), bytes.fromhex(r["pw"]), r["n"], r["r"], r["p"], r["dklen"])
            alt2 = ref_scrypt(bytes.fromhex(r["pw"]), bytes.fromhex(r["salt"]), r["n"], r["p"], r["r"], r["dklen"])
            self.count(ctx, "ffi-discriminates-swaps", 1 if (alt != want and alt2 != want) else 0)
        self.sample(ctx, {"gen": "ffi", "requests": len(reqs), "example": reqs[0], "reply": outs[0]})


# =========================================================================== C20
Z32 = bytes(32)


def interleavings(k, roots=1):
    """all histories of clone (c<i>) / clone_from (f<i>:<j>, i != j) / drop (d<i>) operations over `roots` initial
    containers of one kind with at most k allocating operations (clones + clone_froms): every index choice, every
    prefix; the containers still live at the end are dropped by the driver"""
    out = []

    def rec(seq, n, used):
        out.append(list(seq))
        if n == 0:
            return
        if used < k:
            for i in range(n):
                seq.append("c%d" % i)
                rec(seq, n + 1, used + 1)
                seq.pop()
            for i in range(n):
                for j in range(n):
                    if i != j:
                        seq.append("f%d:%d" % (i, j))
                        rec(seq, n, used + 1)
                        seq.pop()
        for i in range(n):
            seq.append("d%d" % i)
            rec(seq, n - 1, used)
            seq.pop()
    rec([], roots, 0)
    return out


def z_translate(toks, keys):
    """driver history -> what the driver must report and the Model/Zeroize.v history.
    The model has no clone_from.  For a PrivateKey, `a.clone_from(&b)` (derived Clone: *a = b.clone()) allocates the
    clone's block and then drops a's old value: model ops OClone j; ODrop i — the model appends the clone at the END of
    its container list while the driver keeps it at position i, so the positions are tracked here (driver position ->
    container id -> model position).  For the boxed PayloadKey the assignment happens inside the box: no block is
    allocated or released, the model is not stepped (block contents are irrelevant to the journal of the model with
    zeroize; such histories are excluded from the comparison with the model WITHOUT zeroize).
    Returns dict(ops, fin (final drops in the driver's order), n_first, n_second, exact)."""
    ks = list(keys) if isinstance(keys, list) else [keys]
    ki = 0
    dl, ml, kind = [], [], {}          # driver order, model order (container ids), id -> 'P' | 'K'
    nid = 0
    ops, n_first, exact = [], 0, True
    for t in toks:
        if t in ("x", "xl"):
            continue            # only HOW the survivors are released (by unwinding): the model's drops are the same
        if t[0] == "n":
            b = ks[ki] if ki < len(ks) and ks[ki] is not None else bytes([1]) * 32
            if not (ki < len(ks) and ks[ki] is not None):
                exact = False
            ki += 1
            ops.append("ONew %s" % g_bytes(b))
            kind[nid] = "K" if t.startswith("nk") else "P"
            dl.append(nid)
            ml.append(nid)
            nid += 1
        elif t[0] == "c":
            src = dl[int(t[1:])]
            ops.append("OClone %d%%nat" % ml.index(src))
            kind[nid] = kind[src]
            dl.append(nid)
            ml.append(nid)
            nid += 1
        elif t[0] == "d":
            x = dl.pop(int(t[1:]))
            ops.append("ODrop %d%%nat" % ml.index(x))
            ml.remove(x)
            n_first += 1
        elif t[0] == "f":
            i, j = [int(x) for x in t[1:].split(":")]
            dst, src = dl[i], dl[j]
            if kind[dst] != kind[src]:
                raise ValueError("clone_from between different kinds")
            if kind[dst] == "P":
                ops.append("OClone %d%%nat" % ml.index(src))
                ml.append(nid)
                ops.append("ODrop %d%%nat" % ml.index(dst))
                ml.remove(dst)
                kind[nid] = "P"
                dl[i] = nid
                nid += 1
                n_first += 1
            else:
                exact = False
    fin = []
    ml2 = list(ml)
    for x in dl:
        fin.append("ODrop %d%%nat" % ml2.index(x))
        ml2.remove(x)
    return {"ops": "[" + "; ".join(ops) + "]", "fin": "[" + "; ".join(fin) + "]", "n_first": n_first, "n_second": len(dl), "exact": exact}


def parse_freed(s):
    def sec(x):
        return [] if x in ("-", "") else [bytes.fromhex(h) for h in x.split(",")]
    a, _, b = s.partition("|")
    return sec(a), sec(b)


class C20(MiscProp):
    id = "C20"
    rule = ("histories over a list of live key containers in the driver (np = PrivateKey::try_from, ng = PrivateKey::generate with "
            "and without an installed random stream, nk = boxed PayloadKey::new, c<i> = clone, f<i>:<j> = container i .clone_from(container j) (for the boxed PayloadKey on "
            "the value inside the box), d<i> = drop; the containers still live at the end are dropped too): EVERY interleaving (every "
            "index choice, every prefix) of clones, clone_froms and drops with at most 2 (thorough 3) allocating operations, starting "
            "from one key (each constructor) and from two different keys of one kind, plus random histories of up to 12 operations over "
            "several keys; the same histories with the surviving containers released by UNWINDING (x: a closure owning them panics; "
            "xl: the library's own panic, PayloadKey::new on 31 bytes, with them live); keys whose 32 bytes XOR to zero for every "
            "constructor (always, not by chance); the model has no clone_from: a PrivateKey clone_from is translated to OClone j; ODrop i with the container "
            "positions tracked (tools/props_misc.py::z_translate), a PayloadKey clone_from frees nothing; a global allocator records the bytes of each container's heap block at the moment dealloc is entered; oracle: "
            "every record is 32 zero bytes, one record per container, in release order; the journal is compared with "
            "Model/Zeroize.v (run true ops, observe) and must differ from the model without the zeroize call; whole-API scans "
            "(z_api noise_enc / key_enc / key_dec): no released block contains the caller's private key; dev and release profile. "
            "controls: a plain Vec and an un-wiped copy ARE seen by the observer. non-trivial = histories with >= 1 container")
    assumptions = ["the observation is of heap blocks (PrivateKey's Vec buffer; PayloadKey boxed by the driver); stack copies and registers are not observed",
                   "PayloadKey is an inline array: its erasure is observed through Box<PayloadKey>, the Drop code is the same wherever the value lives",
                   "residue of the payload key in a released temporary Vec inside key_decrypt (not a key container) is recorded in the distribution as payload_residue_in_temporary, not flagged"]
    trusted_extra = ["harness/libdrv/src/zero.rs observing allocator"]

    def build(self, ctx):
        super().build(ctx)
        self.rel = None
        if ctx.harness_ok:
            ok, p, out = release_libdrv()
            self.rel = p if ok else None
            if not ok:
                ctx.harness_ok = False
                ctx.broken.append({"kind": "correspondence", "what": "libdrv does not build in the release profile: " + out[-300:].replace("\n", " ")})

    def key(self, ctx):
        while True:
            k = ctx.rbytes(32)
            if k.count(0) < 4:
                return k

    def xor_zero_key(self, ctx):
        """a key whose 32 bytes XOR to zero (looks "already wiped" to a checksum-style shortcut)"""
        while True:
            k = ctx.rbytes(31)
            x = 0
            for b in k:
                x ^= b
            k += bytes([x])
            if k.count(0) < 4:
                return k

    def histories(self, ctx):
        rng = ctx.rng
        k = 3 if ctx.thorough() else 2
        hs = []     # (generator, stream | "none" | None, driver tokens, ONew keys in order (None = unknown))
        for ctor in ("np", "nk", "ng", "ng-os"):
            for seq in interleavings(k, 1):
                key = self.key(ctx)
                if ctor == "ng":
                    first, stream = "ng", key + ctx.rbytes(rng.choice([0, 5]))
                elif ctor == "ng-os":
                    first, stream = "ng", None
                else:
                    first, stream = "%s:%s" % (ctor, key.hex()), "none"
                hs.append(("interleave/%s/allocs<=%d" % (ctor, k), stream, [first] + seq, key if ctor != "ng-os" else None))
        # keys whose bytes XOR to zero, every constructor, all short interleavings (always present, not left to chance)
        for ctor in ("np", "nk", "ng"):
            for seq in interleavings(2, 1):
                key = self.xor_zero_key(ctx)
                if ctor == "ng":
                    first, stream = "ng", key
                else:
                    first, stream = "%s:%s" % (ctor, key.hex()), "none"
                hs.append(("xor-zero-key/%s" % ctor, stream, [first] + seq, key))
        # the survivors are released by UNWINDING: a closure owning them panics (x), or the library itself panics (xl)
        for (gen, stream, toks, keys) in list(hs):
            if not gen.startswith("interleave/") or (gen.startswith("interleave/ng-os") and len(toks) > 3):
                continue
            hs.append((gen.replace("interleave/", "unwind/x/"), stream, toks + ["x"], keys))
            hs.append((gen.replace("interleave/", "unwind/xl/"), stream, toks + ["xl"], keys))
        # two DIFFERENT keys of one kind: clone_from replaces a live key by another one
        two = interleavings(2, 2)
        if ctx.thorough():
            big = interleavings(3, 2)          # 40775 histories: the complete set up to 2, a sample of 3000 of those with 3
            two = two + rng.sample([x for x in big if len([t for t in x if t[0] in "cf"]) == 3], 3000)
        for c1, c2 in (("np", "np"), ("nk", "nk"), ("ng", "np")):
            for seq in two:
                k1, k2 = self.key(ctx), self.key(ctx)
                heads, stream = [], b""
                for c, kk in ((c1, k1), (c2, k2)):
                    if c == "ng":
                        heads.append("ng")
                        stream += kk
                    else:
                        heads.append("%s:%s" % (c, kk.hex()))
                hs.append(("interleave2/%s+%s" % (c1, c2), stream if stream else "none", heads + seq, [k1, k2]))
                if len(hs) % 3 == 0:
                    hs.append(("unwind2/%s+%s" % (c1, c2), stream if stream else "none", heads + seq + [rng.choice(["x", "xl"])], [k1, k2]))
        for _ in range(1500 if ctx.thorough() else 250):
            n = rng.randrange(1, 13)
            toks, kinds, stream = [], [], b""
            keys = []
            for _ in range(n):
                ch = rng.random()
                pairs = [(i, j) for i in range(len(kinds)) for j in range(len(kinds)) if i != j and kinds[i] == kinds[j]]
                if not kinds or ch < 0.25:
                    c = rng.choice(["np", "nk", "ng"])
                    key = self.key(ctx)
                    keys.append(key)
                    if c == "ng":
                        stream += key
                        toks.append("ng")
                    else:
                        toks.append("%s:%s" % (c, key.hex()))
                    kinds.append("K" if c == "nk" else "P")
                elif ch < 0.5:
                    i = rng.randrange(len(kinds))
                    toks.append("c%d" % i)
                    kinds.append(kinds[i])
                elif ch < 0.7 and pairs:
                    toks.append("f%d:%d" % rng.choice(pairs))
                else:
                    i = rng.randrange(len(kinds))
                    toks.append("d%d" % i)
                    kinds.pop(i)
            if rng.random() < 0.3:
                toks.append(rng.choice(["x", "xl"]))
            hs.append(("random/len=%d" % n, stream if stream else "none", toks, keys))
        hs.append(("empty", "none", [], []))
        return hs

    def run(self, ctx):
        hs = self.histories(ctx)
        profiles = [("dev", ctx.bin), ("release", self.rel)]
        for prof, binp in profiles:
            self.controls(ctx, prof, binp)
            self.run_histories(ctx, prof, binp, hs, model=(prof == "dev" or ctx.thorough()))
            self.api(ctx, prof, binp)

    def controls(self, ctx, prof, binp):
        K = self.key(ctx)
        rs = drv(binp, ["setrand none", "z_hist nv:%s,c0" % K.hex(), "z_api control %s" % K.hex(), "z_api control0 %s" % K.hex()])
        a, b = parse_freed(rs[1].get("freed", "-"))
        if not (rs[1].get("outcome") == "ok" and a + b == [K, K]):
            self.machinery(ctx, "observer self-test (%s): a plain Vec holding K must be seen un-wiped twice: %s" % (prof, rs[1]["raw"][:200]))
        if rs[2].get("leaks") != "1" or rs[3].get("leaks") != "0":
            self.machinery(ctx, "scanner self-test (%s): control must report leaks=1 and control0 leaks=0: %s / %s" % (prof, rs[2]["raw"], rs[3]["raw"]))
        self.count(ctx, "controls-passed/" + prof)

    def run_histories(self, ctx, prof, binp, hs, model):
        bodies, idx = [], []
        cur = "none"
        for hi, (gen, stream, toks, keys) in enumerate(hs):
            want = "none" if stream is None else (stream if stream == "none" else stream.hex())
            bodies.append("setrand %s" % want)          # always set: ng must find exactly its own stream
            idx.append(None)
            bodies.append("z_hist %s" % (",".join(toks) if toks else "-"))
            idx.append(hi)
        bodies.append("setrand none")
        idx.append(None)
        res = drv(binp, bodies)
        items, inputs, impls, shows, nv_items = [], {}, {}, {}, []
        for bi, (hi, r) in enumerate(zip(idx, res)):
            if hi is None:
                continue
            gen, stream, toks, keys = hs[hi]
            inp = {"driver": "libdrv", "profile": prof, "lines": [bodies[bi - 1], bodies[bi], "setrand none"], "oracle": "zhist"}
            self.ran(ctx, "%s/%s" % (prof, gen), nontrivial=bool(toks))
            tr = z_translate(toks, keys)
            for t in toks:
                if t[0] == "f":
                    self.count(ctx, "clone_from-ops/" + prof)
                elif t in ("x", "xl"):
                    self.count(ctx, "released-by-unwinding(%s)/%s" % (t, prof))
            if not self.check(ctx, r.get("outcome") == "ok" and "overflow" not in r, inp, "the history runs", r["raw"][:300]):
                continue
            first, second = parse_freed(r.get("freed", "-"))
            self.check(ctx, all(x == Z32 for x in first + second), inp,
                       "every released container block holds 32 zero bytes at the moment of release "
                       "(drop, and the replaced value of clone_from)",
                       "released contents: " + r.get("freed", "-")[:600])
            self.check(ctx, len(first) == tr["n_first"] and len(second) == tr["n_second"] and r.get("live") == str(tr["n_second"]), inp,
                       "one record per released container block: %d during the script (drops and PrivateKey clone_froms), %d at the end"
                       % (tr["n_first"], tr["n_second"]),
                       "%d | %d live=%s" % (len(first), len(second), r.get("live")))
            self.count(ctx, "containers-released/" + prof, len(first) + len(second))
            if model:
                lst = lambda xs: "[" + "; ".join(g_bytes(x) for x in xs) + "]"
                a_ = "%s %s %s %s %s" % (tr["ops"], tr["fin"], lst(first), lst(second), r.get("live", "0"))
                items.append((hi, "z_chk_x true " + a_, len(toks) + 1))
                inputs[hi], impls[hi], shows[hi] = inp, r["raw"][:400], "z_show_x %s %s" % (tr["ops"], tr["fin"])
                if tr["n_first"] + tr["n_second"] > 0 and tr["exact"] and len(nv_items) < 400:
                    nv_items.append((hi, "negb (z_chk_x false %s)" % a_, len(toks) + 1))
        if model:
            pre = "From Kestrel.Model Require Import Zeroize.\n"
            res_m, log = coq_eval(ctx.pid + "z", items, preamble=pre)
            self.model_results(ctx, "zeroize-journal/" + prof, items, res_m, log, inputs, impls, shows, preamble=pre)
            res_n, log = coq_eval(ctx.pid + "n", nv_items, preamble=pre)
            nbad = len([1 for it in nv_items if res_n.get(str(it[0])) is not True])
            self.count(ctx, "journal-differs-from-model-without-zeroize/" + prof, len(nv_items) - nbad)
            if nbad:
                ctx.broken.append({"kind": "correspondence", "what": "C20/%s: %d of %d journals are ALSO explained by the model WITHOUT the zeroize call "
                                   "(the comparison does not discriminate)%s" % (prof, nbad, len(nv_items), (" [" + log[-200:] + "]") if log else "")})
        self.sample(ctx, {"gen": "histories", "profile": prof, "count": len(hs), "example": bodies[3][:200], "reply": res[3]["raw"][:200]})

    def recheck_zhist(self, inp, rs):
        r = rs[1]
        a, b = parse_freed(r.get("freed", "-"))
        return r.get("outcome") == "ok" and all(x == Z32 for x in a + b)

    def api(self, ctx, prof, binp):
        n = 12 if ctx.thorough() else 4
        bodies, meta = ["setrand none"], [None]
        for _ in range(n):
            sk = self.key(ctx)
            for which in ("noise_enc", "key_enc", "key_dec"):
                bodies.append("z_api %s %s" % (which, sk.hex()))
                meta.append((which, "sk"))
        sk = self.xor_zero_key(ctx)
        for which in ("noise_enc", "key_enc", "key_dec"):
            bodies.append("z_api %s %s" % (which, sk.hex()))
            meta.append((which, "sk"))
        sk = self.key(ctx)
        for which in ("noise_enc", "key_enc", "key_dec"):
            for pat, nm in (("11" * 32, "ephemeral"), ("22" * 32, "payload")):
                bodies.append("z_api %s %s %s" % (which, sk.hex(), pat))
                meta.append((which, nm))
        res = drv(binp, bodies)
        for b, m, r in zip(bodies, meta, res):
            if m is None:
                continue
            which, pat = m
            inp = {"driver": "libdrv", "profile": prof, "lines": ["setrand none", b], "oracle": "zapi"}
            self.ran(ctx, "%s/z_api/%s/%s" % (prof, which, pat))
            if int(r.get("blocks", "0") or 0) == 0 or r.get("outcome") != "ok":
                self.machinery(ctx, "z_api (%s) scanned nothing or the call failed: %s" % (prof, r["raw"][:200]))
                continue
            if pat == "sk":
                self.check(ctx, r.get("leaks") == "0", inp,
                           "no block released during %s still contains the caller's private key (its clones are wiped before release)" % which,
                           r["raw"][:300])
            else:
                lk = int(r.get("leaks", "0"))
                name = "payload_residue_in_temporary" if (pat == "payload" and lk) else "%s_residue" % pat
                self.count(ctx, "%s/%s/%s=%d" % (name, prof, which, lk))

    def recheck_zapi(self, inp, rs):
        return rs[1].get("leaks") == "0"
